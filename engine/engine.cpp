// Engine: registry, random / exhaustive drivers, worker pool, shrinking, replay, evidence parts.
#include "engine.h"
#include <algorithm>
#include <cerrno>
#include <cstdlib>
#include <cstring>
#include <ctime>
#include <fcntl.h>
#include <signal.h>
#include <sys/mman.h>
#include <sys/stat.h>
#include <sys/time.h>
#include <sys/wait.h>
#include <unistd.h>

extern "C" const char *__asan_default_options() {
  return "abort_on_error=1:detect_leaks=0:allocator_may_return_null=1:handle_abort=0:print_summary=1:quarantine_size_mb=4:malloc_context_size=4";
}
extern "C" const char *__ubsan_default_options() { return "print_stacktrace=0:halt_on_error=1:abort_on_error=1"; }

namespace vf {

// ---------------------------------------------------------------- registry
static std::vector<Prop> &registry() { static std::vector<Prop> r; return r; }
void register_prop(const Prop &p) { registry().push_back(p); }
const Prop *find_prop(const char *id) {
  for (auto &p : registry()) if (!strcmp(p.id, id)) return &p;
  return nullptr;
}

// ---------------------------------------------------------------- helpers
std::string hex(const uint8_t *d, size_t n) {
  static const char *h = "0123456789abcdef"; std::string s; s.reserve(n * 2);
  for (size_t i = 0; i < n; i++) { s += h[d[i] >> 4]; s += h[d[i] & 15]; }
  return s;
}
std::vector<uint8_t> unhex(const std::string &s) {
  std::vector<uint8_t> v; auto nib = [](char c) { return c <= '9' ? c - '0' : (c | 32) - 'a' + 10; };
  for (size_t i = 0; i + 1 < s.size(); i += 2) v.push_back((uint8_t)(nib(s[i]) << 4 | nib(s[i + 1])));
  return v;
}
std::string json_escape(const std::string &s) {
  std::string o;
  for (unsigned char ch : s) {
    if (ch == '"' || ch == '\\') { o += '\\'; o += (char)ch; }
    else if (ch == '\n') o += "\\n";
    else if (ch == '\t') o += "\\t";
    else if (ch < 0x20 || ch >= 0x7f) { char b[8]; snprintf(b, sizeof b, "\\u%04x", ch); o += b; }
    else o += (char)ch;
  }
  return o;
}
static double now_s() { timespec ts; clock_gettime(CLOCK_MONOTONIC, &ts); return ts.tv_sec + ts.tv_nsec * 1e-9; }

// ---------------------------------------------------------------- shared page
struct Shared {
  volatile uint32_t state;  // 0 = running / passed, 1 = oracle failure recorded
  uint32_t tape_len;
  uint32_t mode;
  uint64_t case_no;
  uint64_t done_cases, done_nt;
  char clause[96];
  char msg[3000];
  uint8_t tape[1 << 16];
};
static Shared *g_sh = nullptr;
struct Ctl { volatile uint32_t stop_mode; volatile uint64_t stop_case; };  // first failure: later cases need not run
static Ctl *g_ctl = nullptr;
static inline bool past_stop(uint32_t mode, uint64_t case_no) {
  return g_ctl && (mode > g_ctl->stop_mode || (mode == g_ctl->stop_mode && case_no > g_ctl->stop_case));
}
static Ctx *g_ctx = nullptr;
void (*g_fail_hook)(const char *clause, const char *msg) = nullptr;  // set by the libFuzzer entry point (fuzz/fuzz_main.cpp)

void Ctx::note(const char *fmt, ...) {
  char b[1024]; va_list ap; va_start(ap, fmt); vsnprintf(b, sizeof b, fmt, ap); va_end(ap);
  if (echo) { printf("  %s\n", b); fflush(stdout); }
  log.push_back(b);
}
void Ctx::fail(const char *clause, const char *fmt, ...) {
  char b[3000]; va_list ap; va_start(ap, fmt); vsnprintf(b, sizeof b, fmt, ap); va_end(ap);
  if (g_fail_hook) g_fail_hook(clause, b);
  if (g_sh) {
    snprintf(g_sh->clause, sizeof g_sh->clause, "%s", clause);
    snprintf(g_sh->msg, sizeof g_sh->msg, "%s", b);
    g_sh->state = 1;
  }
  if (logging) {
    if (!echo) for (auto &l : log) printf("  %s\n", l.c_str());
    printf("FAIL clause=%s: %s\n", clause, b);
    fflush(stdout);
  }
  _exit(99);
}

// ---------------------------------------------------------------- edge guard
uint64_t g_edge_budget = 4000000;
static uint64_t g_edges = 0;
static uint8_t *g_cov = nullptr; static uint32_t g_ncov = 0;
void edge_reset() { g_edges = 0; }
uint64_t edge_count() { return g_edges; }
}  // namespace vf

#ifndef VF_FUZZ   // the libFuzzer runtime brings its own coverage callbacks
extern "C" void __sanitizer_cov_trace_pc_guard_init(uint32_t *start, uint32_t *stop) {
  using namespace vf;
  if (start == stop || *start) return;
  uint32_t n0 = g_ncov;
  for (uint32_t *x = start; x < stop; x++) *x = ++g_ncov;
  g_cov = (uint8_t *)realloc(g_cov, g_ncov + 1);
  memset(g_cov + n0, 0, g_ncov + 1 - n0);
}
extern "C" void __sanitizer_cov_trace_pc_guard(uint32_t *guard) {
  using namespace vf;
  g_cov[*guard] = 1;
  if (++g_edges > g_edge_budget) {
    g_edges = 0;
    if (g_ctx) g_ctx->fail("termination", "more than %llu control-flow edges inside one stack call (unbounded loop)",
                           (unsigned long long)g_edge_budget);
    _exit(98);
  }
}
#endif

namespace vf {

// ---------------------------------------------------------------- options
struct Opt {
  std::string cmd, prop, out, replay, tmp;
  bool thorough = false;
  uint64_t seed = 1;
  int jobs = 16;
  double max_wall = 0;  // 0 = none
  double scale = 1.0;   // multiplies case counts (development aid)
  std::string only_mode;
};
static Opt O;
static const Prop *P;

static void fill_tape(std::vector<uint8_t> &tape, uint64_t seed, const char *prop, int build, int mode, uint64_t i,
                      uint64_t n, int maxtape) {
  uint64_t k = seed * 0x9E3779B97F4A7C15ull;
  for (const char *p = prop; *p; p++) k = (k ^ (uint8_t)*p) * 1099511628211ull;
  k ^= (uint64_t)build << 56 ^ (uint64_t)mode << 48;
  SplitMix r(k ^ (i * 0xD1342543DE82EF95ull));
  r.next();
  uint64_t cap = 16 + (uint64_t)(maxtape > 16 ? maxtape - 16 : 0) * std::min<uint64_t>(n, 2 * (i + 1)) / (n ? n : 1);
  if (cap > (uint64_t)maxtape) cap = maxtape;
  size_t len = 1 + r.next() % cap;
  tape.resize(len);
  // a quarter of the cases use sparse bytes (small values dominate), the rest uniform bytes
  bool sparse = (r.next() & 3) == 0;
  for (size_t j = 0; j < len; j += 8) {
    uint64_t v = r.next();
    if (sparse) v &= r.next() & r.next();
    for (size_t b = 0; b < 8 && j + b < len; b++) tape[j + b] = (uint8_t)(v >> (8 * b));
  }
}

struct SampleSlot { bool used = false; int mode = 0; std::vector<uint8_t> tape; uint64_t ops = 0; };

// Second line of the termination guard: a loop whose condition the compiler found invariant ("jmp self") passes no instrumented edge,
// so the edge budget never sees it.  A CPU-time (not wall-clock: independent of the machine's load) interval timer fires every 5 s of
// user time consumed by this process; four firings within one and the same case mean that a single case burnt 15..25 CPU seconds
// (the largest generated case needs a fraction of a second) and are reported as a violation of "each step terminates".
static volatile uint64_t g_case_serial = 0;
static uint64_t g_wd_seen = ~0ull; static int g_wd_stuck = 0;
static void watchdog_tick(int) {
  if (g_case_serial != g_wd_seen) { g_wd_seen = g_case_serial; g_wd_stuck = 0; return; }
  if (++g_wd_stuck < 4) return;
  if (g_ctx) g_ctx->fail("termination", "one case consumed more than 15 s of CPU time without finishing (unbounded loop)");
  _exit(98);
}
static void watchdog_arm() {
  struct sigaction sa; memset(&sa, 0, sizeof sa); sa.sa_handler = watchdog_tick; sigaction(SIGVTALRM, &sa, nullptr);
  struct itimerval it; it.it_interval.tv_sec = 5; it.it_interval.tv_usec = 0; it.it_value = it.it_interval; setitimer(ITIMER_VIRTUAL, &it, nullptr);
}

static void run_one(Ctx &c, const Mode &m, const uint8_t *d, size_t n, bool logging, bool record) {
  g_case_serial++;
  c.t.record = record;
  c.t.reset(d, n);
  c.param = O.thorough ? m.thorough_param : m.quick_param;
  c.thorough = O.thorough;
  c.logging = logging;
  c.nontrivial = false;
  c.include_known = getenv("VF_INCLUDE_KNOWN") != nullptr;
  c.ops = 0;
  c.log.clear();
  edge_reset();
  m.fn(c);
}

#ifndef VF_BUILD
#define VF_BUILD 1
#endif

// ---------------------------------------------------------------- worker
static int worker(int w, int W, Shared *sh, const std::string &dir) {
  g_sh = sh;
  std::map<std::string, uint64_t> classes;
  Ctx c; c.classes = &classes; c.build = VF_BUILD; g_ctx = &c; watchdog_arm();
  std::vector<uint64_t> hashes;
  uint64_t evals = 0, ops = 0;
  double t0 = now_s(); bool truncated = false;
  std::string rf = dir + "/w" + std::to_string(w) + ".res";
  FILE *res = fopen(rf.c_str(), "w");
  std::vector<SampleSlot> samples;
  for (size_t mi = 0; mi < P->modes.size(); mi++) {
    const Mode &m = P->modes[mi];
    if (!O.only_mode.empty() && O.only_mode != m.name) continue;
    SampleSlot first, largest, last;
    uint64_t mcases = 0; bool complete = false;
    sh->mode = (uint32_t)mi;
    if (!m.enumerate) {
      uint64_t N = (uint64_t)((O.thorough ? m.thorough_cases : m.quick_cases) * O.scale);
      int maxtape = O.thorough ? m.thorough_tape : m.quick_tape;
      std::vector<uint8_t> tape;
      for (uint64_t i = w; i < N; i += W) {
        if (past_stop((uint32_t)mi, i)) break;
        if (O.max_wall > 0 && (mcases & 255) == 0 && now_s() - t0 > O.max_wall) { truncated = true; break; }
        fill_tape(tape, O.seed, P->id, VF_BUILD, (int)mi, i, N, maxtape);
        sh->case_no = i; sh->tape_len = (uint32_t)tape.size(); memcpy(sh->tape, tape.data(), tape.size());
        run_one(c, m, tape.data(), tape.size(), false, false);
        evals++; mcases++; ops += c.ops; sh->done_cases = evals;
        if (c.nontrivial) {
          sh->done_nt++;
          hashes.push_back(c.t.hash ^ ((uint64_t)mi << 60) ^ ((uint64_t)VF_BUILD << 56));
          SampleSlot s; s.used = true; s.mode = (int)mi; s.tape = tape; s.ops = c.ops;
          if (!first.used) first = s;
          if (!largest.used || c.ops > largest.ops) largest = s;
          if ((mcases & 1023) == 1 || !last.used) last = s;
        }
      }
      complete = !truncated;
    } else {
      // bounded exhaustive: odometer over the recorded choice vector; subtrees below the
      // first `split` choices are dealt round-robin to the workers
      const int split = 2;
      std::vector<uint8_t> tape(4096, 0);
      uint64_t prefix_ord = 0; bool mine = (0 % W) == w;
      std::vector<uint32_t> prev_prefix;
      bool done = false;
      while (!done) {
        if (O.max_wall > 0 && (mcases & 255) == 0 && now_s() - t0 > O.max_wall) { truncated = true; break; }
        if (past_stop((uint32_t)mi, prefix_ord)) break;
        sh->case_no = prefix_ord; sh->tape_len = 256; memcpy(sh->tape, tape.data(), 256);
        run_one(c, m, tape.data(), tape.size(), false, true);
        std::vector<Choice> rec = c.t.rec;
        // trim the tape that is published / saved to what was consumed
        size_t used = c.t.pos < tape.size() ? c.t.pos : tape.size();
        if (mine) {
          evals++; mcases++; ops += c.ops; sh->done_cases = evals;
          if (c.nontrivial) {
            sh->done_nt++;
            hashes.push_back(c.t.hash ^ ((uint64_t)mi << 60) ^ ((uint64_t)VF_BUILD << 56));
            SampleSlot s; s.used = true; s.mode = (int)mi; s.tape.assign(tape.begin(), tape.begin() + used); s.ops = c.ops;
            if (!first.used) first = s;
            if (!largest.used || c.ops > largest.ops) largest = s;
            if ((mcases & 4095) == 1 || !last.used) last = s;
          }
        }
        // advance
        int i = (int)rec.size() - 1;
        int limit = mine ? 0 : 0;
        (void)limit;
        if (!mine && (int)rec.size() > split) i = split - 1;  // skip the foreign subtree
        while (i >= 0 && rec[i].value + 1 >= rec[i].bound) i--;
        if (i < 0) { done = true; complete = true; break; }
        uint32_t nv = rec[i].value + 1;
        for (int b = 0; b < rec[i].width; b++) tape[rec[i].off + b] = (uint8_t)(nv >> (8 * b));
        size_t z = rec[i].off + rec[i].width;
        if (z < used + 8 && used + 8 <= tape.size()) memset(tape.data() + z, 0, used + 8 - z);
        else memset(tape.data() + z, 0, tape.size() - z);
        if (i < split) { prefix_ord++; mine = (prefix_ord % W) == (uint64_t)w; }
      }
    }
    fprintf(res, "M\t%s\t%llu\t%d\t%d\n", m.name, (unsigned long long)mcases, m.enumerate ? 1 : 0, complete ? 1 : 0);
    if (first.used) samples.push_back(first);
    if (largest.used && largest.tape != first.tape) samples.push_back(largest);
    if (last.used && last.tape != first.tape && last.tape != largest.tape) samples.push_back(last);
    if (truncated || past_stop((uint32_t)mi, ~0ull)) break;
  }
  // decode samples (cases passed already; re-run with logging)
  for (auto &s : samples) {
    const Mode &m = P->modes[s.mode];
    sh->tape_len = (uint32_t)s.tape.size(); memcpy(sh->tape, s.tape.data(), s.tape.size());
    std::map<std::string, uint64_t> dummy; c.classes = &dummy;
    run_one(c, m, s.tape.data(), s.tape.size(), true, false);
    c.classes = &classes;
    std::string js = "[";
    size_t cnt = 0;
    for (auto &l : c.log) {
      if (cnt >= 60) { js += ",\"... (" + std::to_string(c.log.size() - cnt) + " more lines)\""; break; }
      if (cnt++) js += ",";
      js += "\"" + json_escape(l) + "\"";
    }
    js += "]";
    fprintf(res, "S\t%s\t%llu\t%s\t%s\n", m.name, (unsigned long long)s.ops, hex(s.tape.data(), std::min<size_t>(s.tape.size(), 600)).c_str(), js.c_str());
  }
  fprintf(res, "E\t%llu\t%llu\t%d\n", (unsigned long long)evals, (unsigned long long)ops, truncated ? 1 : 0);
  for (auto &kv : classes) fprintf(res, "C\t%s\t%llu\n", kv.first.c_str(), (unsigned long long)kv.second);
  fclose(res);
  std::string hf = dir + "/w" + std::to_string(w) + ".hsh";
  FILE *h = fopen(hf.c_str(), "wb");
  if (!hashes.empty()) fwrite(hashes.data(), 8, hashes.size(), h);
  fclose(h);
  std::string cf = dir + "/w" + std::to_string(w) + ".cov";
  FILE *cv = fopen(cf.c_str(), "wb");
  if (g_ncov) fwrite(g_cov, 1, g_ncov + 1, cv);
  fclose(cv);
  return 0;
}

// ---------------------------------------------------------------- running a tape in a child
struct Verdict { int kind; std::string clause, msg; };  // kind 0 pass, 1 oracle failure, 2 crash
static Shared *new_shared() {
  void *p = mmap(nullptr, sizeof(Shared), PROT_READ | PROT_WRITE, MAP_SHARED | MAP_ANONYMOUS, -1, 0);
  if (p == MAP_FAILED) { perror("mmap"); exit(2); }
  memset(p, 0, sizeof(Shared));
  return (Shared *)p;
}
static std::string read_file(const std::string &f, size_t max = 1 << 20) {
  std::string s; FILE *fp = fopen(f.c_str(), "r"); if (!fp) return s;
  char b[4096]; size_t n; while ((n = fread(b, 1, sizeof b, fp)) > 0 && s.size() < max) s.append(b, n);
  fclose(fp); return s;
}
static std::string crash_signature(const std::string &err, std::string &msg) {
  // ASan:  SUMMARY: AddressSanitizer: heap-buffer-overflow /path/file.c:123:4 in Func
  // UBSan: /path/file.c:12:3: runtime error: ...
  size_t p = err.find("SUMMARY: AddressSanitizer: ");
  if (p != std::string::npos) {
    size_t e = err.find('\n', p); std::string line = err.substr(p + 9, e == std::string::npos ? std::string::npos : e - p - 9);
    msg = line;
    char kind[128] = "", func[256] = "";
    if (sscanf(line.c_str(), "AddressSanitizer: %127s", kind) >= 1) {
      size_t in = line.rfind(" in "); if (in != std::string::npos) snprintf(func, sizeof func, "%s", line.c_str() + in + 4);
      return std::string("crash:") + kind + ":" + func;
    }
  }
  p = err.find("runtime error: ");
  if (p != std::string::npos) {
    size_t b = err.rfind('\n', p); b = (b == std::string::npos) ? 0 : b + 1;
    size_t e = err.find('\n', p);
    std::string line = err.substr(b, e == std::string::npos ? std::string::npos : e - b);
    msg = line;
    std::string loc = line.substr(0, line.find(": runtime error"));
    size_t sl = loc.rfind('/'); if (sl != std::string::npos) loc = loc.substr(sl + 1);
    size_t c2 = loc.rfind(':'); if (c2 != std::string::npos) loc = loc.substr(0, c2);  // drop column
    return "crash:ubsan:" + loc;
  }
  msg = err.size() > 400 ? err.substr(err.size() - 400) : err;
  return "crash:signal";
}
static Verdict run_child(const Mode &m, int mi, const std::vector<uint8_t> &tape, bool logging, const std::string &errfile) {
  static Shared *sh = new_shared();
  memset((void *)sh, 0, 256);
  fflush(stdout); fflush(stderr);
  pid_t pid = fork();
  if (pid == 0) {
    g_sh = sh;
    int fd = open(errfile.c_str(), O_WRONLY | O_CREAT | O_TRUNC, 0644);
    if (fd >= 0) { dup2(fd, 2); close(fd); }
    alarm(120);
    std::map<std::string, uint64_t> classes; Ctx c; c.classes = &classes; c.build = VF_BUILD; g_ctx = &c; watchdog_arm();
    sh->mode = mi; sh->tape_len = (uint32_t)std::min<size_t>(tape.size(), sizeof sh->tape);
    c.echo = logging;
    run_one(c, m, tape.data(), tape.size(), logging, false);
    if (logging) { printf("PASS (nontrivial=%d ops=%llu)\n", c.nontrivial, (unsigned long long)c.ops); fflush(stdout); }
    _exit(0);
  }
  int st = 0; waitpid(pid, &st, 0);
  Verdict v;
  if (WIFEXITED(st) && WEXITSTATUS(st) == 0) { v.kind = 0; return v; }
  if (WIFEXITED(st) && WEXITSTATUS(st) == 99 && sh->state == 1) { v.kind = 1; v.clause = sh->clause; v.msg = sh->msg; return v; }
  if (WIFEXITED(st) && WEXITSTATUS(st) == 98) { v.kind = 1; v.clause = "termination"; v.msg = "edge budget exceeded"; return v; }
  v.kind = 2; std::string err = read_file(errfile);
  if (WIFSIGNALED(st) && WTERMSIG(st) == SIGALRM) { v.clause = "crash:timeout"; v.msg = "case ran longer than 120 s"; return v; }
  v.clause = crash_signature(err, v.msg);
  return v;
}

// ---------------------------------------------------------------- shrinking
static std::vector<uint8_t> shrink(const Mode &m, int mi, std::vector<uint8_t> tape, const std::string &clause, const std::string &dir, int &tried) {
  std::string ef = dir + "/shrink.err";
  // the wall budget only bounds how far a failing tape is minimised (candidates that hang until the CPU-time watchdog fires cost 20 s each);
  // whatever tape is kept has been observed to fail with the same clause
  const double t_start = now_s(), wall_budget = 120.0;
  int budget = 4000;
  auto fails = [&](const std::vector<uint8_t> &t) {
    tried++;
    if (now_s() - t_start > wall_budget) { budget = 0; return false; }
    Verdict v = run_child(m, mi, t, false, ef);
    return v.kind != 0 && v.clause == clause;
  };
  // 1. shortest failing prefix (binary search is sound enough: a shorter prefix either fails or not; verify)
  {
    size_t lo = 0, hi = tape.size();
    while (lo < hi && tried < budget) {
      size_t mid = (lo + hi) / 2;
      std::vector<uint8_t> t(tape.begin(), tape.begin() + mid);
      if (fails(t)) hi = mid; else lo = mid + 1;
    }
    std::vector<uint8_t> t(tape.begin(), tape.begin() + hi);
    if (hi < tape.size() && fails(t)) tape = t;
  }
  bool progress = true;
  while (progress && tried < budget) {
    progress = false;
    // 2. delete chunks
    for (size_t k : {64, 32, 16, 8, 6, 4, 3, 2, 1}) {
      if (k > tape.size()) continue;
      for (size_t i = 0; i + k <= tape.size() && tried < budget;) {
        std::vector<uint8_t> t(tape); t.erase(t.begin() + i, t.begin() + i + k);
        if (fails(t)) { tape = t; progress = true; } else i += (k >= 4 ? k / 2 : 1);
      }
    }
    // 3. lower bytes
    for (size_t i = 0; i < tape.size() && tried < budget; i++) {
      if (tape[i] == 0) continue;
      for (uint8_t cand : {(uint8_t)0, (uint8_t)(tape[i] / 2), (uint8_t)(tape[i] - 1)}) {
        if (cand >= tape[i]) continue;
        std::vector<uint8_t> t(tape); t[i] = cand;
        if (fails(t)) { tape = t; progress = true; break; }
      }
    }
    // 4. drop trailing zeros (an exhausted tape reads as zeros anyway)
    while (!tape.empty() && tape.back() == 0) {
      std::vector<uint8_t> t(tape.begin(), tape.end() - 1);
      if (fails(t)) tape = t; else break;
    }
  }
  return tape;
}

static std::vector<std::string> decode(const Mode &m, int mi, const std::vector<uint8_t> &tape, const std::string &dir) {
  // run in a child with stdout captured
  std::string of = dir + "/decode.out", ef = dir + "/decode.err";
  fflush(stdout);
  int saved = dup(1);
  int fd = open(of.c_str(), O_WRONLY | O_CREAT | O_TRUNC, 0644); dup2(fd, 1); close(fd);
  run_child(m, mi, tape, true, ef);
  fflush(stdout); dup2(saved, 1); close(saved);
  std::string s = read_file(of);
  std::vector<std::string> lines; size_t p = 0;
  while (p < s.size()) { size_t e = s.find('\n', p); if (e == std::string::npos) e = s.size(); lines.push_back(s.substr(p, e - p)); p = e + 1; }
  return lines;
}

static int find_mode(const char *name) {
  for (size_t i = 0; i < P->modes.size(); i++) if (!strcmp(P->modes[i].name, name)) return (int)i;
  return -1;
}

// ---------------------------------------------------------------- replay
// replay file: JSON written by this engine; parsed with a tolerant scanner
static std::string jget(const std::string &js, const char *key) {
  std::string k = std::string("\"") + key + "\"";
  size_t p = js.find(k); if (p == std::string::npos) return "";
  p = js.find(':', p); if (p == std::string::npos) return "";
  p++; while (p < js.size() && (js[p] == ' ')) p++;
  if (js[p] == '"') { size_t e = p + 1; std::string o; while (e < js.size() && js[e] != '"') { if (js[e] == '\\' && e + 1 < js.size()) { e++; } o += js[e]; e++; } return o; }
  size_t e = p; while (e < js.size() && js[e] != ',' && js[e] != '}' && js[e] != '\n') e++;
  return js.substr(p, e - p);
}
static int do_replay() {
  std::string js = read_file(O.replay);
  if (js.empty()) { fprintf(stderr, "cannot read %s\n", O.replay.c_str()); return 2; }
  std::string prop = jget(js, "property"), mode = jget(js, "mode"), tape = jget(js, "tape");
  int build = atoi(jget(js, "build").c_str());
  if (build != VF_BUILD) { fprintf(stderr, "replay file is for build n%d, this binary is n%d\n", build, VF_BUILD); return 3; }
  P = find_prop(prop.c_str());
  if (!P) { fprintf(stderr, "unknown property %s\n", prop.c_str()); return 2; }
  O.thorough = jget(js, "tier") == "thorough";
  int mi = find_mode(mode.c_str()); if (mi < 0) { fprintf(stderr, "unknown mode\n"); return 2; }
  std::vector<uint8_t> t = unhex(tape);
  printf("replay %s mode=%s build=n%d tape=%zu bytes\n", prop.c_str(), mode.c_str(), build, t.size());
  std::string ef = O.tmp + "/replay.err";
  Verdict v = run_child(P->modes[mi], mi, t, true, ef);
  if (v.kind == 2) { printf("FAIL clause=%s: %s\n", v.clause.c_str(), v.msg.c_str()); std::string e = read_file(ef, 6000); size_t cut = 0; for (int l = 0; l < 14 && cut != std::string::npos; l++) cut = e.find('\n', cut + 1); fputs(e.substr(0, cut).c_str(), stdout); printf("\n"); }
  printf("RESULT %s clause=%s\n", v.kind == 0 ? "pass" : "fail", v.clause.c_str());
  return v.kind == 0 ? 0 : 1;
}

// ---------------------------------------------------------------- main run
static void write_replay(const std::string &path, const Mode &m, const std::vector<uint8_t> &tape, const Verdict &v,
                         const std::vector<std::string> &decoded, uint64_t case_no) {
  FILE *f = fopen(path.c_str(), "w");
  fprintf(f, "{\n \"property\": \"%s\",\n \"build\": %d,\n \"mode\": \"%s\",\n \"tier\": \"%s\",\n \"seed\": %llu,\n \"case\": %llu,\n",
          P->id, VF_BUILD, m.name, O.thorough ? "thorough" : "quick", (unsigned long long)O.seed, (unsigned long long)case_no);
  fprintf(f, " \"tape\": \"%s\",\n \"clause\": \"%s\",\n \"message\": \"%s\",\n \"decoded\": [", hex(tape.data(), tape.size()).c_str(),
          json_escape(v.clause).c_str(), json_escape(v.msg).c_str());
  for (size_t i = 0; i < decoded.size(); i++) fprintf(f, "%s\n  \"%s\"", i ? "," : "", json_escape(decoded[i]).c_str());
  fprintf(f, "\n ]\n}\n");
  fclose(f);
}

static int do_run() {
  double t0 = now_s();
  int W = O.jobs;
  std::vector<Shared *> sh(W); std::vector<pid_t> pid(W);
  for (int w = 0; w < W; w++) sh[w] = new_shared();
  g_ctl = (Ctl *)mmap(nullptr, 4096, PROT_READ | PROT_WRITE, MAP_SHARED | MAP_ANONYMOUS, -1, 0);
  g_ctl->stop_mode = 0xffffffffu; g_ctl->stop_case = ~0ull;
  fflush(stdout); fflush(stderr);
  for (int w = 0; w < W; w++) {
    pid[w] = fork();
    if (pid[w] == 0) {
      std::string ef = O.tmp + "/w" + std::to_string(w) + ".err";
      int fd = open(ef.c_str(), O_WRONLY | O_CREAT | O_TRUNC, 0644);
      if (fd >= 0) { dup2(fd, 2); close(fd); }
      _exit(worker(w, W, sh[w], O.tmp));
    }
  }
  struct Failure { int w; Verdict v; std::vector<uint8_t> tape; int mode; uint64_t case_no; };
  std::vector<Failure> failures;
  std::vector<bool> killed(W, false);
  int remaining = W;
  while (remaining > 0) {
    int st = 0; pid_t p = wait(&st); if (p < 0) break;
    int w = -1; for (int i = 0; i < W; i++) if (pid[i] == p) w = i;
    if (w < 0) continue;
    remaining--; pid[w] = -1;
    if (WIFEXITED(st) && WEXITSTATUS(st) == 0) continue;
    if (killed[w]) continue;   // stopped by us after another worker had already failed
    Failure f; f.w = w; f.mode = (int)sh[w]->mode; f.case_no = sh[w]->case_no;
    f.tape.assign(sh[w]->tape, sh[w]->tape + std::min<size_t>(sh[w]->tape_len, sizeof sh[w]->tape));
    if (WIFEXITED(st) && WEXITSTATUS(st) == 99 && sh[w]->state == 1) { f.v.kind = 1; f.v.clause = sh[w]->clause; f.v.msg = sh[w]->msg; }
    else if (WIFEXITED(st) && WEXITSTATUS(st) == 98) { f.v.kind = 1; f.v.clause = "termination"; f.v.msg = "edge budget exceeded"; }
    else { f.v.kind = 2; f.v.clause = crash_signature(read_file(O.tmp + "/w" + std::to_string(w) + ".err"), f.v.msg);
      char b[96]; snprintf(b, sizeof b, " [worker wait status 0x%x]", st); f.v.msg += b; }
    fprintf(stderr, "[engine] worker %d stopped: %s %s\n", w, f.v.clause.c_str(), f.v.msg.c_str());
    failures.push_back(f);
    // first failure ends the campaign: the other workers only finish the cases that precede it
    // (so the reported failure is the one with the smallest (mode, case number): deterministic)
    if (f.mode < (int)g_ctl->stop_mode || (f.mode == (int)g_ctl->stop_mode && f.case_no < g_ctl->stop_case)) {
      g_ctl->stop_case = f.case_no; g_ctl->stop_mode = (uint32_t)f.mode;
    }
  }
  FILE *out = fopen(O.out.c_str(), "w");
  if (!out) { perror(O.out.c_str()); return 2; }
  int violations = 0; std::string vio_json;
  if (!failures.empty()) {
    // deterministic choice: the failure with the smallest (mode, case number)
    std::sort(failures.begin(), failures.end(), [](const Failure &a, const Failure &b) { return a.mode != b.mode ? a.mode < b.mode : a.case_no < b.case_no; });
    Failure &f = failures[0];
    const Mode &m = P->modes[f.mode];
    // confirm on the original tape first (the crash signature may differ from the in-worker one)
    Verdict v0 = run_child(m, f.mode, f.tape, false, O.tmp + "/confirm.err");
    if (v0.kind == 0) {
      fprintf(stderr, "[engine] failure of worker %d (clause %s) did not reproduce from its tape: reported as inconclusive, not as a violation\n", f.w, f.v.clause.c_str());
      fprintf(out, "{\"property\":\"%s\",\"build\":%d,\"inconclusive\":\"failure %s did not reproduce from its tape\",\"evaluations\":0,\"violations\":[]}\n", P->id, VF_BUILD, json_escape(f.v.clause).c_str());
      fclose(out);
      return 0;
    }
    int tried = 0;
    std::vector<uint8_t> small = shrink(m, f.mode, f.tape, v0.clause, O.tmp, tried);
    int same = 0; Verdict vl;
    for (int k = 0; k < 3; k++) { vl = run_child(m, f.mode, small, false, O.tmp + "/confirm.err"); if (vl.kind != 0 && vl.clause == v0.clause) same++; }
    if (same < 3) { small = f.tape; vl = v0; same = 0; for (int k = 0; k < 3; k++) { Verdict x = run_child(m, f.mode, small, false, O.tmp + "/confirm.err"); if (x.kind != 0 && x.clause == v0.clause) same++; } }
    if (same < 3) {
      fprintf(stderr, "[engine] failure %s is not deterministic (%d/3 replays): inconclusive\n", v0.clause.c_str(), same);
      fprintf(out, "{\"property\":\"%s\",\"build\":%d,\"inconclusive\":\"failure %s replayed %d/3\",\"evaluations\":0,\"violations\":[]}\n", P->id, VF_BUILD, json_escape(v0.clause).c_str(), same);
      fclose(out);
      return 0;
    }
    std::vector<std::string> dec = decode(m, f.mode, small, O.tmp);
    uint64_t h = 1469598103934665603ull; for (uint8_t b : small) { h ^= b; h *= 1099511628211ull; }
    char name[256]; snprintf(name, sizeof name, "%s-n%d-%s-%08llx.json", P->id, VF_BUILD, m.name, (unsigned long long)(h & 0xffffffffu));
    std::string dirp = "out/replay"; mkdir("out", 0755); mkdir(dirp.c_str(), 0755);
    std::string path = dirp + "/" + name;
    char cwd[1024]; if (getcwd(cwd, sizeof cwd)) path = std::string(cwd) + "/" + path;
    write_replay(path, m, small, vl, dec, f.case_no);
    violations = 1;
    printf("[engine] %s failed: clause=%s (%s)\n", P->id, vl.clause.c_str(), vl.msg.c_str());
    printf("[engine] shrunk %zu -> %zu bytes in %d candidate runs; decoded case:\n", f.tape.size(), small.size(), tried);
    for (auto &l : dec) printf("    %s\n", l.c_str());
    printf("FOUND property=%s clause=%s replay=%s\n", P->id, vl.clause.c_str(), path.c_str());
    vio_json = "{\"clause\":\"" + json_escape(vl.clause) + "\",\"message\":\"" + json_escape(vl.msg) + "\",\"replay\":\"" + json_escape(path) + "\",\"mode\":\"" + m.name + "\"}";
  }
  // merge worker results
  uint64_t evals = 0, ops = 0, nt_fallback = 0; bool truncated = false;
  std::map<std::string, uint64_t> classes;
  struct MS { uint64_t cases = 0; bool enumerate = false; bool complete = true; bool seen = false; };
  std::map<std::string, MS> ms;
  std::vector<std::string> sample_json;
  std::vector<uint64_t> hashes;
  std::vector<uint8_t> cov;
  for (int w = 0; w < W; w++) {
    std::string s = read_file(O.tmp + "/w" + std::to_string(w) + ".res", 1 << 26);
    size_t p = 0;
    bool got_e = false;
    while (p < s.size()) {
      size_t e = s.find('\n', p); if (e == std::string::npos) e = s.size();
      std::string line = s.substr(p, e - p); p = e + 1;
      std::vector<std::string> f; size_t q = 0;
      while (true) { size_t t = line.find('\t', q); if (t == std::string::npos) { f.push_back(line.substr(q)); break; } f.push_back(line.substr(q, t - q)); q = t + 1; if (f.size() == 4 && f[0] == "S") { f.push_back(line.substr(q)); break; } }
      if (f[0] == "E" && f.size() >= 4) { evals += strtoull(f[1].c_str(), 0, 10); ops += strtoull(f[2].c_str(), 0, 10); truncated |= f[3] == "1"; got_e = true; }
      else if (f[0] == "C" && f.size() >= 3) classes[f[1]] += strtoull(f[2].c_str(), 0, 10);
      else if (f[0] == "M" && f.size() >= 5) { MS &x = ms[f[1]]; x.cases += strtoull(f[2].c_str(), 0, 10); x.enumerate = f[3] == "1"; x.complete &= f[4] == "1"; x.seen = true; }
      else if (f[0] == "S" && f.size() >= 5 && sample_json.size() < 8) {
        if (w % 5 == 0 || sample_json.size() < 2)
          sample_json.push_back("{\"mode\":\"" + f[1] + "\",\"build\":\"n" + std::to_string(VF_BUILD) + "\",\"ops\":" + f[2] + ",\"tape\":\"" + f[3] + "\",\"decoded\":" + f[4] + "}");
      }
    }
    if (!got_e && failures.empty()) truncated = true;
    if (!got_e) { evals += sh[w]->done_cases; nt_fallback += sh[w]->done_nt; }
    std::string hb = read_file(O.tmp + "/w" + std::to_string(w) + ".hsh", (size_t)1 << 31);
    size_t n0 = hashes.size(); hashes.resize(n0 + hb.size() / 8); if (hb.size() >= 8) memcpy(hashes.data() + n0, hb.data(), hb.size() / 8 * 8);
    std::string cb = read_file(O.tmp + "/w" + std::to_string(w) + ".cov", 1 << 24);
    if (cov.size() < cb.size()) cov.resize(cb.size(), 0);
    for (size_t i = 0; i < cb.size(); i++) cov[i] |= (uint8_t)cb[i];
  }
  std::sort(hashes.begin(), hashes.end());
  uint64_t distinct = std::unique(hashes.begin(), hashes.end()) - hashes.begin();
  distinct += nt_fallback;  // failed workers wrote no hash file: their non-trivial cases are counted, not de-duplicated
  uint64_t edges_hit = 0; for (size_t i = 1; i < cov.size(); i++) edges_hit += cov[i];
  bool exhaustive = false; std::string modes_json;
  for (auto &kv : ms) {
    if (!modes_json.empty()) modes_json += ",";
    const Mode &m = P->modes[find_mode(kv.first.c_str())];
    char b[512];
    snprintf(b, sizeof b, "{\"name\":\"%s\",\"kind\":\"%s\",\"cases\":%llu,\"completed\":%s,\"param\":%d}", kv.first.c_str(),
             kv.second.enumerate ? "bounded-exhaustive" : "random", (unsigned long long)kv.second.cases,
             kv.second.complete && failures.empty() ? "true" : "false", O.thorough ? m.thorough_param : m.quick_param);
    modes_json += b;
    if (kv.second.enumerate && kv.second.complete && failures.empty()) exhaustive = true;
  }
  fprintf(out, "{\"property\":\"%s\",\"build\":%d,\"tier\":\"%s\",\"seed\":%llu,\n", P->id, VF_BUILD, O.thorough ? "thorough" : "quick", (unsigned long long)O.seed);
  fprintf(out, " \"evaluations\":%llu,\"distinct_nontrivial\":%llu,\"ops\":%llu,\"truncated_by_wall_limit\":%s,\n", (unsigned long long)evals,
          (unsigned long long)distinct, (unsigned long long)ops, truncated ? "true" : "false");
  fprintf(out, " \"exhaustive_subspace_completed\":%s,\"edges_hit\":%llu,\"edges_total\":%u,\n", exhaustive ? "true" : "false", (unsigned long long)edges_hit, g_ncov);
  fprintf(out, " \"rule\":\"%s\",\n \"modes\":[%s],\n \"classes\":{", json_escape(P->rule).c_str(), modes_json.c_str());
  bool first = true;
  for (auto &kv : classes) { fprintf(out, "%s\"%s\":%llu", first ? "" : ",", json_escape(kv.first).c_str(), (unsigned long long)kv.second); first = false; }
  fprintf(out, "},\n \"assumptions\":[");
  for (size_t i = 0; i < P->assumptions.size(); i++) fprintf(out, "%s\"%s\"", i ? "," : "", json_escape(P->assumptions[i]).c_str());
  fprintf(out, "],\n \"samples\":[");
  for (size_t i = 0; i < sample_json.size(); i++) fprintf(out, "%s\n  %s", i ? "," : "", sample_json[i].c_str());
  fprintf(out, "\n ],\n \"violations\":[%s],\n \"wall_s\":%.2f\n}\n", vio_json.c_str(), now_s() - t0);
  fclose(out);
  printf("[engine] %s n%d %s: %llu cases, %llu distinct non-trivial, %llu ops, edges %llu/%u, %.1f s%s\n", P->id, VF_BUILD,
         O.thorough ? "thorough" : "quick", (unsigned long long)evals, (unsigned long long)distinct, (unsigned long long)ops,
         (unsigned long long)edges_hit, g_ncov, now_s() - t0, truncated ? " (stopped by wall limit: inconclusive beyond this point)" : "");
  return violations ? 1 : 0;
}

int engine_main(int argc, char **argv) {
  if (argc < 2) {
    fprintf(stderr, "usage: %s run <prop> [--tier quick|thorough] [--seed N] [--jobs N] [--out part.json] [--tmp dir] [--scale f] [--mode m]\n"
                    "       %s replay <file> [--tmp dir]\n       %s list\n", argv[0], argv[0], argv[0]);
    return 2;
  }
  O.cmd = argv[1];
  O.tmp = "/tmp";
  int a = 2;
  if ((O.cmd == "run" || O.cmd == "gen") && a < argc) O.prop = argv[a++];
  else if (O.cmd == "replay" && a < argc) O.replay = argv[a++];
  for (; a < argc; a++) {
    std::string s = argv[a];
    auto val = [&]() { return a + 1 < argc ? std::string(argv[++a]) : std::string(); };
    if (s == "--tier") O.thorough = val() == "thorough";
    else if (s == "--seed") O.seed = strtoull(val().c_str(), 0, 10);
    else if (s == "--jobs") O.jobs = atoi(val().c_str());
    else if (s == "--out") O.out = val();
    else if (s == "--tmp") O.tmp = val();
    else if (s == "--scale") O.scale = atof(val().c_str());
    else if (s == "--mode") O.only_mode = val();
    else if (s == "--max-wall") O.max_wall = atof(val().c_str());
  }
  if (O.jobs < 1) O.jobs = 1;
  if (O.jobs > 64) O.jobs = 64;
  if (O.cmd == "list") {
    for (auto &p : registry()) { printf("%s:", p.id); for (auto &m : p.modes) printf(" %s", m.name); printf("\n"); }
    return 0;
  }
  if (O.cmd == "gen") {   // write random tapes (the random driver's own) as a seed corpus for libFuzzer
    P = find_prop(O.prop.c_str()); if (!P) return 2;
    int mi = -1; for (size_t i = 0; i < P->modes.size(); i++) if (!P->modes[i].enumerate && (O.only_mode.empty() || O.only_mode == P->modes[i].name)) { mi = (int)i; break; }
    if (mi < 0) return 2;
    const Mode &m = P->modes[mi]; uint64_t N = (uint64_t)(O.scale >= 1 ? O.scale : 100); std::vector<uint8_t> tape;
    for (uint64_t i = 0; i < N; i++) {
      fill_tape(tape, O.seed, P->id, VF_BUILD, mi, i * 37 + 11, N * 40, O.thorough ? m.thorough_tape : m.quick_tape);
      char name[512]; snprintf(name, sizeof name, "%s/seed-%05llu", O.out.c_str(), (unsigned long long)i);
      FILE *f = fopen(name, "wb"); if (!f) return 2; fwrite(tape.data(), 1, tape.size(), f); fclose(f);
    }
    return 0;
  }
  if (O.cmd == "replay") return do_replay();
  if (O.cmd == "run") {
    P = find_prop(O.prop.c_str());
    if (!P) { fprintf(stderr, "unknown property %s\n", O.prop.c_str()); return 2; }
    if (O.out.empty()) O.out = O.tmp + "/part.json";
    return do_run();
  }
  return 2;
}

}  // namespace vf
