#include "engine.h"
int main(int argc, char **argv) { return vf::engine_main(argc, argv); }
