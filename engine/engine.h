// Choice-tape property-based testing engine (DESIGN.md §2.1).
// A case is a pure function of a byte string (the tape).  One encoding serves
// the random driver, the bounded-exhaustive driver, libFuzzer and replay.
#pragma once
#include <cstdint>
#include <cstdio>
#include <cstdarg>
#include <cstring>
#include <string>
#include <vector>
#include <map>

namespace vf {

struct SplitMix {
  uint64_t s;
  explicit SplitMix(uint64_t seed) : s(seed) {}
  uint64_t next() {
    uint64_t z = (s += 0x9E3779B97F4A7C15ull);
    z = (z ^ (z >> 30)) * 0xBF58476D1CE4E5B9ull;
    z = (z ^ (z >> 27)) * 0x94D049BB133111EBull;
    return z ^ (z >> 31);
  }
};

// One recorded choice (for the exhaustive odometer).
struct Choice { uint32_t off; uint8_t width; uint32_t value; uint32_t bound; };

struct Tape {
  const uint8_t *d = nullptr;
  size_t n = 0;
  size_t pos = 0;
  uint64_t hash = 1469598103934665603ull;  // FNV-1a over decoded values
  bool record = false;                     // record choices (enumeration)
  std::vector<Choice> rec;

  void reset(const uint8_t *data, size_t len) {
    d = data; n = len; pos = 0; hash = 1469598103934665603ull; rec.clear();
  }
  bool exhausted() const { return pos >= n; }
  uint8_t raw() { uint8_t b = pos < n ? d[pos] : 0; pos++; return b; }
  void mix(uint32_t v) {
    for (int i = 0; i < 4; i++) { hash ^= (v >> (8 * i)) & 0xFF; hash *= 1099511628211ull; }
  }
  // uniform-ish value in [0, bound); bound 0 or 1 consumes nothing
  uint32_t below(uint32_t bound) {
    if (bound <= 1) return 0;
    uint32_t off = (uint32_t)pos, v; uint8_t w;
    if (bound <= 256) { v = raw(); w = 1; }
    else if (bound <= 65536) { v = raw(); v |= (uint32_t)raw() << 8; w = 2; }
    else { v = raw(); v |= (uint32_t)raw() << 8; v |= (uint32_t)raw() << 16; v |= (uint32_t)raw() << 24; w = 4; }
    v %= bound;
    mix(v);
    if (record) rec.push_back(Choice{off, w, v, bound});
    return v;
  }
  uint32_t range(uint32_t lo, uint32_t hi) { return lo + below(hi - lo + 1); }  // inclusive
  bool coin() { return below(2) != 0; }
  // true with probability about num/256
  bool chance(uint32_t num256) { return below(256) < num256; }
  uint8_t byte() { return (uint8_t)below(256); }
  uint16_t u16() { return (uint16_t)below(65536); }
  uint32_t u32() { uint32_t v = raw(); v |= (uint32_t)raw() << 8; v |= (uint32_t)raw() << 16; v |= (uint32_t)raw() << 24; mix(v); return v; }
  // index into a weight table; weights sum <= 65536; weight 0 entries never chosen
  uint32_t weighted(const uint16_t *w, uint32_t cnt) {
    uint32_t sum = 0; for (uint32_t i = 0; i < cnt; i++) sum += w[i];
    uint32_t v = below(sum), acc = 0;
    for (uint32_t i = 0; i < cnt; i++) { acc += w[i]; if (v < acc) return i; }
    return cnt - 1;
  }
  template <size_t N> uint32_t weighted(const uint16_t (&w)[N]) { return weighted(w, (uint32_t)N); }
  // pick from a list
  template <typename T, size_t N> T pick(const T (&a)[N]) { return a[below((uint32_t)N)]; }
  // boundary-biased size in [lo,hi]: favours lo, hi and the neighbourhood of the given marks
  uint32_t biased(uint32_t lo, uint32_t hi, const uint32_t *marks, uint32_t nmarks) {
    uint32_t k = below(4);
    if (k == 0 || nmarks == 0) return range(lo, hi);
    if (k == 1) { uint32_t v = lo + below(8); return v > hi ? hi : v; }
    uint32_t m = marks[below(nmarks)];
    uint32_t mult = (k == 3) ? 1 + below(5) : 1;
    int64_t v = (int64_t)m * mult + (int64_t)below(5) - 2;
    if (v < (int64_t)lo) v = lo;
    if (v > (int64_t)hi) v = hi;
    return (uint32_t)v;
  }
};

struct Ctx {
  Tape t;
  int param = 0;            // mode parameter (depth, ...)
  int build = 1;            // CO_SSDO_N of this binary
  bool thorough = false;
  bool logging = false;     // decoded-case log wanted (replay / samples)
  bool echo = false;        // print log lines as they are produced (so they survive a sanitizer abort)
  bool nontrivial = false;  // set by the case when the property's NT rule holds
  bool include_known = false;  // generate the regions excluded because of a listed known finding (witness replay only)
  uint64_t excluded_known = 0; // choices re-drawn because they fall into a listed known finding
  std::vector<std::string> log;
  std::map<std::string, uint64_t> *classes = nullptr;
  uint64_t ops = 0;         // operations executed (statistics)

  void cls(const char *name) { if (classes) (*classes)[name]++; }
  void note(const char *fmt, ...) __attribute__((format(printf, 2, 3)));
  [[noreturn]] void fail(const char *clause, const char *fmt, ...) __attribute__((format(printf, 3, 4)));
};

#define VLOG(c, ...) do { if ((c).logging) (c).note(__VA_ARGS__); } while (0)
#define CHECK(c, cond, clause, ...) do { if (!(cond)) (c).fail(clause, __VA_ARGS__); } while (0)

typedef void (*CaseFn)(Ctx &);

struct Mode {
  const char *name;
  CaseFn fn;
  bool enumerate;            // bounded exhaustive (choice odometer) instead of random
  uint64_t quick_cases;      // random: number of cases; enumerate: ignored
  uint64_t thorough_cases;
  int quick_param;           // passed as Ctx::param (depth bound, size class, ...)
  int thorough_param;
  int quick_tape;            // maximum tape length (random)
  int thorough_tape;
};

struct Prop {
  const char *id;
  const char *rule;          // generator + non-triviality rule (evidence "rule")
  std::vector<Mode> modes;
  std::vector<std::string> assumptions;
};

void register_prop(const Prop &p);
struct Registrar { explicit Registrar(const Prop &p) { register_prop(p); } };

// edge budget (termination guard): reset at every stack API call by the harness
void edge_reset();
uint64_t edge_count();
extern uint64_t g_edge_budget;

// for libFuzzer targets and tools
const Prop *find_prop(const char *id);
std::string hex(const uint8_t *d, size_t n);
std::vector<uint8_t> unhex(const std::string &s);
std::string json_escape(const std::string &s);

int engine_main(int argc, char **argv);

}  // namespace vf
