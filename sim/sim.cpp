#include "sim.h"
#include <algorithm>
#include <cstdlib>
#include <cstring>

namespace vf {

Sim *g_sim = nullptr;

std::string Frame::str() const {
  char b[96]; int n = snprintf(b, sizeof b, "%03X [%u]", id, dlc);
  for (int i = 0; i < 8 && i < (dlc > 8 ? 8 : dlc); i++) n += snprintf(b + n, sizeof b - n, " %02X", d[i]);
  return b;
}

// ------------------------------------------------------------------ drivers
static void can_init(void) {}
static void can_enable(uint32_t baud) { if (g_sim) { g_sim->can_enabled = true; (void)baud; } }
static int16_t can_read(CO_IF_FRM *f) {
  Sim *s = g_sim;
  if (s->can_read_fail) { s->can_read_fail = false; if (!s->rxq.empty()) s->rxq.pop_front(); return -1; }
  if (s->rxq.empty()) return 0;
  *f = s->rxq.front(); s->rxq.pop_front();
  return (int16_t)sizeof(CO_IF_FRM);
}
static int16_t can_send(CO_IF_FRM *f) {
  Sim *s = g_sim;
  s->send_calls++;
  s->tx_in_call++;
  if (s->tx_in_call > 200) s->c.fail("bounded-tx", "more than 200 frames sent inside one stack call");
  if (s->can_send_fail > 0) { s->can_send_fail--; return -1; }
  Frame fr; fr.id = f->Identifier; fr.dlc = f->DLC; memcpy(fr.d, f->Data, 8); fr.tick = s->tick;
  s->tx.push_back(fr); s->tx_total++;
  return (int16_t)sizeof(CO_IF_FRM);
}
static void can_reset(void) { if (g_sim) g_sim->can_resets++; }
static void can_close(void) { if (g_sim) g_sim->can_closes++; }

static void t_init(uint32_t f) { (void)f; g_sim->tcnt = 0; }
static void t_reload(uint32_t r) { g_sim->tcnt = r; }
static uint32_t t_delay(void) { return g_sim->tcnt; }
static void t_stop(void) { g_sim->tcnt = 0; }
static void t_start(void) {}
static uint8_t t_update(void) {
  Sim *s = g_sim;
  if (s->tcnt > 0) { s->tcnt--; if (s->tcnt == 0) return s->tmr_elapsed_code; }
  return 0;
}

static void n_init(void) {}
static uint32_t nvm_xfer(uint32_t start, uint8_t *buf, uint32_t size, bool wr) {
  Sim *s = g_sim;
  s->nvm_calls++;
  uint32_t n = size;
  if (s->nvm_calls == s->nvm_fault_at) n = size == 0 ? 0 : s->nvm_short == 0xFFFFFFFFu ? size - 1 : s->nvm_short == 0xFFFFFFFEu ? size / 2 : std::min<uint32_t>(size - 1, s->nvm_short);
  if ((size_t)start + size > s->nvm.size()) s->c.fail("harness", "NVM access [%u,+%u) outside the configured NVM of %zu bytes", start, size, s->nvm.size());
  if (wr) memcpy(s->nvm.data() + start, buf, n); else memcpy(buf, s->nvm.data() + start, n);
  return n;
}
static uint32_t n_read(uint32_t start, uint8_t *buf, uint32_t size) { return nvm_xfer(start, buf, size, false); }
static uint32_t n_write(uint32_t start, uint8_t *buf, uint32_t size) { return nvm_xfer(start, buf, size, true); }

static const CO_IF_CAN_DRV CanDrv = {can_init, can_enable, can_read, can_send, can_reset, can_close};
static const CO_IF_TIMER_DRV TmrDrv = {t_init, t_reload, t_delay, t_stop, t_start, t_update};
static const CO_IF_NVM_DRV NvmDrv = {n_init, n_read, n_write};
static CO_IF_DRV Drv = {&CanDrv, &TmrDrv, &NvmDrv};

// ------------------------------------------------------------------ Sim
Sim::Sim(Ctx &ctx) : c(ctx) { g_sim = this; nvm.assign(1024, 0xFF); }
Sim::~Sim() {
  for (auto &b : blocks) free(b.p);
  free(node); free(dict); free(tmem); free(sdobuf); free(emcy);
  if (g_sim == this) g_sim = nullptr;
}
uint8_t *Sim::alloc(size_t n, const char *name, bool storage) {
  uint8_t *p = (uint8_t *)malloc(n ? n : 1);
  memset(p, 0, n ? n : 1);
  blocks.push_back(Block{p, n, name, storage});
  return p;
}
void Sim::add(uint32_t key, const CO_OBJ_TYPE *type, CO_DATA data) {
  CO_OBJ o; o.Key = key; o.Type = type; o.Data = data; ents.push_back(o);
}
CO_OBJ_DOM *Sim::domain(uint32_t size, const char *name) {
  CO_OBJ_DOM *d = (CO_OBJ_DOM *)alloc(sizeof(CO_OBJ_DOM), "dom-ctl", false);
  d->Size = size; d->Offset = 0; d->Start = alloc(size, name, true);
  return d;
}
CO_OBJ_STR *Sim::string(const std::string &s, const char *name) {
  CO_OBJ_STR *d = (CO_OBJ_STR *)alloc(sizeof(CO_OBJ_STR), "str-ctl", false);
  d->Offset = 0; d->Start = alloc(s.size() + 1, name, true); memcpy(d->Start, s.data(), s.size()); d->Start[s.size()] = 0;
  return d;
}
bool Sim::has(uint16_t idx, uint8_t sub) const {
  for (auto &e : ents) if (CO_GET_DEV(e.Key) == CO_DEV(idx, sub)) return true;
  return false;
}
void Sim::init() {
  std::stable_sort(ents.begin(), ents.end(), [](const CO_OBJ &a, const CO_OBJ &b) { return CO_GET_DEV(a.Key) < CO_GET_DEV(b.Key); });
  for (size_t i = 1; i < ents.size(); i++)
    if (CO_GET_DEV(ents[i].Key) == CO_GET_DEV(ents[i - 1].Key)) c.fail("harness", "duplicate dictionary key %08X", ents[i].Key);
  if (!dict) {
    ndict = ents.size();
    dict = (CO_OBJ *)malloc((ndict + 1) * sizeof(CO_OBJ));
    for (size_t i = 0; i < ndict; i++) dict[i] = ents[i];
    dict[ndict].Key = 0; dict[ndict].Type = 0; dict[ndict].Data = 0;
  }
  free(node); free(tmem); free(sdobuf); free(emcy);
  node = (CO_NODE *)malloc(sizeof(CO_NODE)); memset(node, poison, sizeof(CO_NODE));
  tmem = (CO_TMR_MEM *)malloc(sizeof(CO_TMR_MEM) * ntmr); memset(tmem, poison, sizeof(CO_TMR_MEM) * ntmr);
  sdobuf = (uint8_t *)malloc(CO_SSDO_N * CO_SDO_BUF_BYTE); memset(sdobuf, poison, CO_SSDO_N * CO_SDO_BUF_BYTE);
  emcy = nullptr;
  if (with_emcy_tbl) {
    emcy = (CO_EMCY_TBL *)malloc(sizeof(CO_EMCY_TBL) * CO_EMCY_N);
    for (int i = 0; i < CO_EMCY_N; i++) { emcy[i].Reg = (uint8_t)(i % 8); emcy[i].Code = (uint16_t)(0x1000 + 0x100 * i); }
  }
  { static const uint8_t EC[4] = {1, 0x80, 0xFF, 2}; tmr_elapsed_code = EC[(nodeid + ntmr) % 4]; }
  tcnt = 0;
  reinit();
}
// CONodeInit on the memory as it is: called by init() on fresh (poisoned) memory, and by cases in which the application initialises the stack a second time
// without a power cycle (nothing is cleared in between, the hardware timer of the node's previous life may still be armed)
void Sim::reinit() {
  CO_NODE_SPEC spec;
  spec.NodeId = nodeid; spec.Baudrate = baud; spec.Dict = dict; spec.DictLen = (uint16_t)(ndict + 1 + dictlen_extra);
  spec.EmcyCode = emcy; spec.TmrMem = tmem; spec.TmrNum = ntmr; spec.TmrFreq = freq; spec.Drv = &Drv; spec.SdoBuf = sdobuf;
  rxq.clear(); lock_depth = 0;
  api_begin();
  CONodeInit(node, &spec);
  api_end("CONodeInit");
  init_err = node->Error;
}
void Sim::init_timer_only() {
  free(node); free(tmem);
  node = (CO_NODE *)malloc(sizeof(CO_NODE)); memset(node, poison, sizeof(CO_NODE));
  tmem = (CO_TMR_MEM *)malloc(sizeof(CO_TMR_MEM) * ntmr); memset(tmem, poison, sizeof(CO_TMR_MEM) * ntmr);
  node->If.Drv = &Drv; node->If.Node = node; node->Error = CO_ERR_NONE;
  tcnt = 0; lock_depth = 0;
  { static const uint8_t EC[4] = {1, 0x80, 0xFF, 2}; tmr_elapsed_code = EC[ntmr % 4]; }
  api_begin();
  COTmrInit(&node->Tmr, node, tmem, ntmr, freq);
  api_end("COTmrInit");
}
void Sim::init_bare() {
  free(node);
  node = (CO_NODE *)malloc(sizeof(CO_NODE)); memset(node, poison, sizeof(CO_NODE));
  node->If.Drv = &Drv; node->If.Node = node; node->Error = CO_ERR_NONE; node->NodeId = nodeid;
}
void Sim::start() { api_begin(); CONodeStart(node); api_end("CONodeStart"); }

void Sim::api_begin() { edge_reset(); tx_in_call = 0; }
void Sim::api_end(const char *what) {
  if (lock_depth != 0) c.fail("lock-balance", "%s returned with timer lock depth %d", what, lock_depth);
}
void Sim::rx(const Frame &f) {
  CO_IF_FRM fr; memset(&fr, 0, sizeof fr); fr.Identifier = f.id; fr.DLC = f.dlc; memcpy(fr.Data, f.d, 8);
  rxq.push_back(fr);
  api_begin();
  CONodeProcess(node);
  api_end("CONodeProcess");
  if (tx_in_call > 128) c.fail("bounded-tx", "%zu frames sent while processing one received frame", tx_in_call);
  // the application polls more often than frames arrive: CONodeProcess with nothing to read must not react at all
  size_t tx0 = tx.size(), ev0 = ev.size();
  api_begin();
  CONodeProcess(node);
  api_end("CONodeProcess");
  if (tx.size() != tx0 || ev.size() != ev0)
    c.fail("idle-process-reacts", "CONodeProcess() with no frame pending (called right after the frame %03X had been processed) %s", f.id,
           tx.size() != tx0 ? ("transmitted " + tx.back().str()).c_str() : "invoked an application callback");
}
void Sim::process_empty() { api_begin(); CONodeProcess(node); api_end("CONodeProcess"); }
int Sim::service() { tick++; api_begin(); int r = COTmrService(&node->Tmr); return r; }
void Sim::process_timers() { api_begin(); COTmrProcess(&node->Tmr); api_end("COTmrProcess"); }
void Sim::step_tick() { service(); process_timers(); }

CO_OBJ *Sim::find(uint16_t idx, uint8_t sub) { return CODictFind(&node->Dict, CO_DEV(idx, sub)); }

std::vector<uint8_t> Sim::snapshot() const {
  std::vector<uint8_t> s;
  for (size_t i = 0; i < ndict; i++) {
    uint64_t v = (CO_IS_DIRECT(dict[i].Key)) ? (uint64_t)dict[i].Data : 0;
    for (int b = 0; b < 8; b++) s.push_back((uint8_t)(v >> (8 * b)));
  }
  for (auto &b : blocks) if (b.storage) s.insert(s.end(), b.p, b.p + b.n);
  return s;
}
std::string Sim::diff_snapshot(const std::vector<uint8_t> &a, const std::vector<uint8_t> &b) const {
  if (a == b) return "";
  size_t off = 0; char buf[256];
  for (size_t i = 0; i < ndict; i++, off += 8)
    if (memcmp(&a[off], &b[off], 8)) { snprintf(buf, sizeof buf, "direct value of %04X:%02X changed", CO_GET_IDX(dict[i].Key), CO_GET_SUB(dict[i].Key)); return buf; }
  for (auto &bl : blocks) if (bl.storage) {
    for (size_t k = 0; k < bl.n; k++) if (a[off + k] != b[off + k]) {
      snprintf(buf, sizeof buf, "block '%s' byte %zu of %zu: %02X -> %02X", bl.name.c_str(), k, bl.n, a[off + k], b[off + k]); return buf; }
    off += bl.n;
  }
  return "snapshots differ";
}
int Sim::timers_used() const {
  int freeacts = 0; CO_TMR_ACTION *a = node->Tmr.Acts;
  while (a && freeacts <= (int)node->Tmr.Max) { freeacts++; a = a->Next; }
  return (int)node->Tmr.Max - freeacts;
}
std::string Sim::tmr_check(bool in_flight_ok) const {
  const CO_TMR *t = &node->Tmr; char buf[200];
  uint32_t max = t->Max, nfree = 0, nuse = 0, nel = 0, nfa = 0, nact = 0;
  std::vector<const void *> seen;
  auto once = [&](const void *p) { for (auto q : seen) if (q == p) return false; seen.push_back(p); return true; };
  for (CO_TMR_TIME *x = t->Free; x; x = x->Next) { if (!once(x) || ++nfree > max) return "free time list cyclic or shared"; }
  for (int l = 0; l < 2; l++) {
    for (CO_TMR_TIME *x = l ? t->Elapsed : t->Use; x; x = x->Next) {
      if (!once(x)) return "time slot linked twice";
      if (++(l ? nel : nuse) > max) return "time list too long";
      if (!x->Action) { snprintf(buf, sizeof buf, "%s event without action", l ? "elapsed" : "pending"); return buf; }
      CO_TMR_ACTION *last = nullptr;
      for (CO_TMR_ACTION *a = x->Action; a; a = a->Next) { if (!once(a) || ++nact > max) return "action linked twice"; last = a; }
      if (x->ActionEnd != last) return "ActionEnd is not the last action of its event";
    }
  }
  for (CO_TMR_ACTION *a = t->Acts; a; a = a->Next) { if (!once(a) || ++nfa > max) return "free action list cyclic or shared"; }
  if (nfree + nuse + nel != max) { snprintf(buf, sizeof buf, "time slots: free %u + pending %u + elapsed %u != capacity %u", nfree, nuse, nel, max); return buf; }
  if (in_flight_ok ? (nfa + nact > max) : (nfa + nact != max)) { snprintf(buf, sizeof buf, "action slots: free %u + linked %u != capacity %u", nfa, nact, max); return buf; }
  return "";
}

}  // namespace vf

// ------------------------------------------------------------------ application callbacks (strong definitions)
using namespace vf;
static void push(EvKind k, uint32_t a, uint32_t b, const CO_IF_FRM *f = nullptr) {
  if (!g_sim) return;
  Event e; e.k = k; e.tick = g_sim->tick; e.a = a; e.b = b;
  if (f) { e.f.id = f->Identifier; e.f.dlc = f->DLC; memcpy(e.f.d, f->Data, 8); e.f.tick = g_sim->tick; }
  g_sim->ev.push_back(e);
}
extern "C" {
void CONodeFatalError(void) {
  push(EV_FATAL, 0, 0);
  if (g_sim && g_sim->fatal_is_failure) g_sim->c.fail("fatal-callback", "CONodeFatalError was called");
}
void COTmrLock(void) {
  if (!g_sim) return;
  if (g_sim->lock_depth == 0 && g_sim->preempt) g_sim->preempt(true);
  g_sim->lock_depth++;
}
void COTmrUnlock(void) {
  if (!g_sim) return;
  g_sim->lock_depth--;
  if (g_sim->lock_depth < 0) g_sim->c.fail("lock-balance", "COTmrUnlock without COTmrLock");
  if (g_sim->lock_depth == 0 && g_sim->preempt) g_sim->preempt(false);
}
void CONmtModeChange(CO_NMT *nmt, CO_MODE mode) { (void)nmt; push(EV_MODE, (uint32_t)mode, 0); if (g_sim && g_sim->mode_change_hook) g_sim->mode_change_hook((int)mode); }
void CONmtResetRequest(CO_NMT *nmt, CO_NMT_RESET reset) { (void)nmt; push(EV_RESETREQ, (uint32_t)reset, 0); }
void CONmtHbConsEvent(CO_NMT *nmt, uint8_t nodeId) { (void)nmt; push(EV_HBEVENT, nodeId, 0); if (g_sim && g_sim->hb_event_hook) g_sim->hb_event_hook(nodeId); }
void CONmtHbConsChange(CO_NMT *nmt, uint8_t nodeId, CO_MODE mode) { (void)nmt; push(EV_HBCHANGE, nodeId, (uint32_t)mode); }
CO_ERR COLssLoad(uint32_t *baudrate, uint8_t *nodeId) {
  if (!g_sim) return CO_ERR_NONE;
  push(EV_LSSLOAD, 0, 0);
  if (g_sim->lss_load_result != CO_ERR_NONE) return g_sim->lss_load_result;
  if (g_sim->lss_have) { if (g_sim->lss_baud) *baudrate = g_sim->lss_baud; if (g_sim->lss_node) *nodeId = g_sim->lss_node; }   // values that were never configured (0) keep the defaults
  return CO_ERR_NONE;
}
CO_ERR COLssStore(uint32_t baudrate, uint8_t nodeId) {
  if (!g_sim) return CO_ERR_NONE;
  push(EV_LSSSTORE, baudrate, nodeId);
  if (g_sim->lss_store_result != CO_ERR_NONE) return g_sim->lss_store_result;
  g_sim->lss_have = true; g_sim->lss_baud = baudrate; g_sim->lss_node = nodeId;
  return CO_ERR_NONE;
}
void COIfCanReceive(CO_IF_FRM *frm) { push(EV_CANRX, 0, 0, frm); }
void COPdoTransmit(CO_IF_FRM *frm) { push(EV_PDOTX, 0, 0, frm); }
int16_t COPdoReceive(CO_IF_FRM *frm) {
  push(EV_PDORX, 0, 0, frm);
  if (g_sim && g_sim->pdo_receive) return g_sim->pdo_receive(frm);
  return 0;
}
void COPdoSyncUpdate(CO_RPDO *pdo) { push(EV_SYNCUPD, pdo ? pdo->Identifier : 0, 0); }
int16_t COParaDefault(CO_PARA *pg) {
  push(EV_PARADEF, pg ? pg->Offset : 0, pg ? pg->Size : 0);
  if (g_sim && g_sim->para_default) return g_sim->para_default(pg);
  return 0;
}
void CORpdoWriteData(CO_IF_FRM *frm, uint8_t pos, uint8_t size, CO_OBJ *obj) { (void)frm; (void)pos; (void)size; (void)obj; }
void COTpdoReadData(CO_IF_FRM *frm, uint8_t pos, uint8_t size, CO_OBJ *obj) { (void)frm; (void)pos; (void)size; (void)obj; }
}
