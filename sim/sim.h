// Simulated node environment (DESIGN.md §2.2): the harness owns the CAN bus, the clock, the NVM,
// every application callback, fault injection and (through COTmrLock/Unlock) the preemption schedule.
#pragma once
extern "C" {
#include "co_core.h"
}
#include "../engine/engine.h"
#include <deque>
#include <functional>
#include <string>
#include <vector>

namespace vf {

struct Frame {
  uint32_t id = 0; uint8_t dlc = 0; uint8_t d[8] = {0, 0, 0, 0, 0, 0, 0, 0}; long tick = 0;
  static Frame mk(uint32_t id, uint8_t dlc, std::initializer_list<uint8_t> b) {
    Frame f; f.id = id; f.dlc = dlc; int i = 0; for (uint8_t x : b) { if (i < 8) f.d[i++] = x; } return f;
  }
  uint32_t u32(int p) const { return d[p] | d[p + 1] << 8 | d[p + 2] << 16 | (uint32_t)d[p + 3] << 24; }
  uint16_t u16(int p) const { return (uint16_t)(d[p] | d[p + 1] << 8); }
  std::string str() const;
};

enum EvKind { EV_MODE, EV_RESETREQ, EV_HBEVENT, EV_HBCHANGE, EV_CANRX, EV_PDOTX, EV_PDORX, EV_SYNCUPD, EV_PARADEF,
              EV_LSSSTORE, EV_LSSLOAD, EV_FATAL, EV_APPTMR, EV_CSDO };
struct Event { EvKind k; long tick; uint32_t a; uint32_t b; Frame f; };

struct Block { uint8_t *p; size_t n; std::string name; bool storage; };

class Sim {
 public:
  explicit Sim(Ctx &c);
  ~Sim();
  Ctx &c;
  // ---- configuration (set before init)
  uint8_t nodeid = 1;
  uint32_t baud = 250000;
  uint32_t freq = 1000;
  uint16_t ntmr = 16;
  uint16_t dictlen_extra = 0;   // DictLen passed = entries + 1 + extra (array itself is exact)
  bool with_emcy_tbl = true;
  uint8_t poison = 0xA5;
  // ---- memory handed to the stack
  CO_NODE *node = nullptr;
  CO_OBJ *dict = nullptr; size_t ndict = 0;
  CO_TMR_MEM *tmem = nullptr;
  uint8_t *sdobuf = nullptr;
  CO_EMCY_TBL *emcy = nullptr;
  std::vector<CO_OBJ> ents;      // entries collected before init
  std::vector<Block> blocks;     // every block handed to the stack (exact-size heap blocks => ASan red zones)
  // ---- bus / drivers
  std::deque<CO_IF_FRM> rxq;
  std::vector<Frame> tx;         // frames sent since clear_tx()
  uint64_t tx_total = 0;
  long tick = 0;                 // number of COTmrService calls so far
  uint32_t tcnt = 0;             // timer driver down counter
  uint8_t tmr_elapsed_code = 1;  // what the timer driver's Update returns when the counter reaches 0: the HAL contract is '> 0', not '1' (chosen per case from the pool size and node id)
  bool can_read_fail = false;    // next Read returns -1
  int can_send_fail = 0;         // next k Send calls return -1 (frame is not logged)
  uint64_t send_calls = 0;
  std::vector<uint8_t> nvm;
  long nvm_fault_at = -1;        // k-th NVM call (1-based, counted over reads+writes) returns a short count
  long nvm_calls = 0;
  uint32_t nvm_short = 0;        // how many bytes the faulty call transfers (FFFFFFFFh: size-1, FFFFFFFEh: size/2; always < size)
  bool can_enabled = false; int can_resets = 0; int can_closes = 0;
  // ---- persistent LSS store
  bool lss_have = false; uint32_t lss_baud = 0; uint8_t lss_node = 0; CO_ERR lss_store_result = CO_ERR_NONE; CO_ERR lss_load_result = CO_ERR_NONE;
  // ---- callback log
  std::vector<Event> ev;
  bool fatal_is_failure = true;
  int lock_depth = 0;
  std::function<void(bool lock)> preempt;   // called at COTmrLock entry (true) and COTmrUnlock exit (false)
  std::function<void(uint8_t)> hb_event_hook;        // called from inside CONmtHbConsEvent (an application reacting to a lost node)
  std::function<void(int)> mode_change_hook;        // called from inside CONmtModeChange (the application may use the stack there)
  std::function<int16_t(CO_IF_FRM *)> pdo_receive;  // COPdoReceive override (return value)
  std::function<int16_t(CO_PARA *)> para_default;

  // ---- building
  uint8_t *alloc(size_t n, const char *name, bool storage = true);
  void add(uint32_t key, const CO_OBJ_TYPE *type, CO_DATA data);
  template <typename T> T *var(const char *name, T init) { T *p = (T *)alloc(sizeof(T), name); *p = init; return p; }
  CO_OBJ_DOM *domain(uint32_t size, const char *name);
  CO_OBJ_STR *string(const std::string &s, const char *name);
  bool has(uint16_t idx, uint8_t sub) const;
  void init();                  // builds the dictionary array and calls CONodeInit
  void reinit();              // CONodeInit on the memory as it is (second initialisation without a power cycle)
  void init_timer_only();       // minimal node: timer manager + timer driver only (C07/C08)
  void init_bare();             // node memory only (poisoned) + driver table + node id: dictionary-level tests (C06)
  void start();
  CO_ERR init_err = CO_ERR_NONE;

  // ---- stepping
  void rx(const Frame &f);      // queue one frame and run CONodeProcess once
  void process_empty();         // CONodeProcess with nothing queued
  int service();                // one tick: COTmrService (returns its result)
  void process_timers();        // COTmrProcess
  void step_tick();             // service + process
  void clear_tx() { tx.clear(); }
  void clear_ev() { ev.clear(); }
  void api_begin();             // resets the per-call edge counter and frame counter
  void api_end(const char *what);

  // ---- observation
  CO_OBJ *find(uint16_t idx, uint8_t sub);
  std::vector<uint8_t> snapshot() const;   // all storage blocks + direct data of every entry
  std::string diff_snapshot(const std::vector<uint8_t> &a, const std::vector<uint8_t> &b) const;
  int timers_used() const;      // walks the public CO_TMR lists
  std::string tmr_check(bool in_flight_ok = false) const;  // pool conservation / acyclicity; empty string when consistent
  size_t tx_in_call = 0;
};

extern Sim *g_sim;

// convenience keys
inline uint32_t KEY(uint16_t idx, uint8_t sub, uint8_t flags) { return CO_KEY(idx, sub, flags); }

}  // namespace vf
