#include "mini.h"
// scratch: PDO reconfiguration differential (C14 prototype)
static uint8_t v8a,ro8,wo8,nm8; static uint16_t v16; static uint32_t v32;
static uint32_t tid, tmap[8], rid, rmap[8]; static uint8_t ttype, tnum, rtype, rnum; static uint16_t tinh, tev;
struct Obj { uint32_t mux; int bytes; int map, rd, wr; void*p; } objs[]={{0x210001,1,1,1,1,&v8a},{0x210002,2,1,1,1,&v16},{0x210003,4,1,1,1,&v32},{0x210004,1,1,1,0,&ro8},{0x210005,1,1,0,1,&wo8},{0x210006,1,0,1,1,&nm8}};
static struct Obj* findobj(uint32_t m){ for(unsigned i=0;i<6;i++) if(objs[i].mux==(m>>8)) return &objs[i]; return 0; }
static uint32_t ac(void){ return TxQ[0].Data[4]|TxQ[0].Data[5]<<8|TxQ[0].Data[6]<<16|(uint32_t)TxQ[0].Data[7]<<24; }
#define FAIL(...) do{printf("case %ld step %d: ",c,step);printf(__VA_ARGS__);printf("\n%s\n",log);return 1;}while(0)
int main(int argc,char**argv){ unsigned seed=atoi(argv[1]); long cases=atol(argv[2]);
  for(long c=0;c<cases;c++){ srand(seed+c); char log[12000]; int lp=0; log[0]=0; int step=0;
    mandatory(); v8a=1;v16=0x2222;v32=0x33333333;ro8=4;wo8=5;nm8=6;
    add(CO_KEY(0x2100,1,CO_OBJ____PRW),CO_TUNSIGNED8,(CO_DATA)&v8a); add(CO_KEY(0x2100,2,CO_OBJ____PRW),CO_TUNSIGNED16,(CO_DATA)&v16); add(CO_KEY(0x2100,3,CO_OBJ____PRW),CO_TUNSIGNED32,(CO_DATA)&v32);
    add(CO_KEY(0x2100,4,CO_OBJ____PR_),CO_TUNSIGNED8,(CO_DATA)&ro8); add(CO_KEY(0x2100,5,CO_OBJ____P_W),CO_TUNSIGNED8,(CO_DATA)&wo8); add(CO_KEY(0x2100,6,CO_OBJ_____RW),CO_TUNSIGNED8,(CO_DATA)&nm8);
    tid=0xC0000181; ttype=254; tinh=0; tev=0; tnum=0; memset(tmap,0,sizeof tmap); rid=0x80000201; rtype=254; rnum=0; memset(rmap,0,sizeof rmap);
    add(CO_KEY(0x1800,0,CO_OBJ_D___R_),CO_TUNSIGNED8,5); add(CO_KEY(0x1800,1,CO_OBJ_____RW),CO_TPDO_ID,(CO_DATA)&tid); add(CO_KEY(0x1800,2,CO_OBJ_____RW),CO_TPDO_TYPE,(CO_DATA)&ttype);
    add(CO_KEY(0x1800,3,CO_OBJ_____RW),CO_TUNSIGNED16,(CO_DATA)&tinh); add(CO_KEY(0x1800,5,CO_OBJ_____RW),CO_TPDO_EVENT,(CO_DATA)&tev); add(CO_KEY(0x1A00,0,CO_OBJ_____RW),CO_TPDO_NUM,(CO_DATA)&tnum);
    add(CO_KEY(0x1400,0,CO_OBJ_D___R_),CO_TUNSIGNED8,2); add(CO_KEY(0x1400,1,CO_OBJ_____RW),CO_TPDO_ID,(CO_DATA)&rid); add(CO_KEY(0x1400,2,CO_OBJ_____RW),CO_TPDO_TYPE,(CO_DATA)&rtype); add(CO_KEY(0x1600,0,CO_OBJ_____RW),CO_TPDO_NUM,(CO_DATA)&rnum);
    int nsub=4+rand()%5; for(int i=0;i<nsub;i++){ add(CO_KEY(0x1A00,1+i,CO_OBJ_____RW),CO_TPDO_MAP,(CO_DATA)&tmap[i]); add(CO_KEY(0x1600,1+i,CO_OBJ_____RW),CO_TPDO_MAP,(CO_DATA)&rmap[i]); }
    { CO_NODE_SPEC s; memset(&Node,0xA5,sizeof Node); free(SdoBuf); SdoBuf=malloc(CO_SDO_BUF_BYTE);
      s.NodeId=1;s.Baudrate=250000;s.Dict=Dict;s.DictLen=MAXOBJ;s.EmcyCode=EmTbl;s.TmrMem=TmrMem;s.TmrNum=16;s.TmrFreq=1000;s.Drv=&Drv;s.SdoBuf=SdoBuf;
      RxN=RxR=TxN=0; CONodeInit(&Node,&s); CONodeStart(&Node); TxN=0; }
    // model of stored config
    uint32_t mid[2]={tid,rid}; uint8_t mtype[2]={254,254}, mnum[2]={0,0}; uint32_t mmap[2][8]; memset(mmap,0,sizeof mmap); int mode=2;
    // active (loaded) config per pdo: snapshot at activation
    uint32_t aid[2]; uint8_t anum[2]; uint8_t atype[2]; uint32_t amap[2][8]; int act[2]={0,0};
    #define LOAD(w) do{ atype[w]=mtype[w]; aid[w]=mid[w]; anum[w]=mnum[w]; memcpy(amap[w],mmap[w],32); act[w]=1; }while(0)
    for(step=0;step<70;step++){ int op=rand()%14; TxN=0; int w=rand()%2; /*0 tpdo 1 rpdo*/ uint16_t com= w?0x1400:0x1800, mp= w?0x1600:0x1A00;
      if(op<3){ uint32_t base= w?0x201:0x181; uint32_t nid= (rand()%4==0? base+1:base) | (rand()%2?0x80000000u:0) | (w?0:(rand()%8?0x40000000u:0)) | (rand()%10==0?0x20000000u:0);
        lp+=sprintf(log+lp,"%s:id=%08X ",w?"R":"T",nid); rx(0x601,8,0x23,com&0xFF,com>>8,1,nid&0xFF,(nid>>8)&0xFF,(nid>>16)&0xFF,nid>>24);
        int refuse=0; if(nid&0x20000000u) refuse=1; else if(!w && !(nid&0x40000000u)) refuse=1; else if(!(mid[w]&0x80000000u)){ if(!(nid&0x80000000u)) refuse=1; }
        if(TxN!=1) FAIL("no resp"); if(refuse){ if(TxQ[0].Data[0]!=0x80||ac()!=0x06090030) FAIL("id write not refused properly %02X %08X",TxQ[0].Data[0],ac()); } else { if(TxQ[0].Data[0]!=0x60) FAIL("id write refused %08X",ac()); mid[w]=nid; if(mode==3) LOAD(w); } }
      else if(op==3){ uint8_t nt=(uint8_t[]){254,255,1,0,240}[rand()%5]; lp+=sprintf(log+lp,"%s:type=%d ",w?"R":"T",nt); rx(0x601,8,0x2F,com&0xFF,com>>8,2,nt,0,0,0); int refuse=!(mid[w]&0x80000000u);
        if(TxN!=1) FAIL("no resp"); if(refuse){ if(TxQ[0].Data[0]!=0x80) FAIL("type not refused"); } else { if(TxQ[0].Data[0]!=0x60) FAIL("type refused %08X",ac()); mtype[w]=nt; } }
      else if(op<7){ uint8_t n=rand()%10; lp+=sprintf(log+lp,"%s:num=%d ",w?"R":"T",n); rx(0x601,8,0x2F,mp&0xFF,mp>>8,0,n,0,0,0);
        int refuse=0; uint32_t code=0; if(!(mid[w]&0x80000000u)){refuse=1;code=0;} else if(n>8){refuse=1;code=0x06040042;} else { int sum=0; for(int i=0;i<n;i++){ if(i>=nsub){refuse=1;code=0x06040041;break;} sum+=(mmap[w][i]&0xFF)>>3; } if(!refuse&&sum>8){refuse=1;code=0x06040042;} }
        if(TxN!=1) FAIL("no resp"); if(refuse){ if(TxQ[0].Data[0]!=0x80||(code&&ac()!=code)) FAIL("num not refused properly %02X %08X exp %08X",TxQ[0].Data[0],ac(),code); } else { if(TxQ[0].Data[0]!=0x60) FAIL("num refused %08X",ac()); mnum[w]=n; } }
      else if(op<11){ int i=rand()%nsub; int k=rand()%8; uint32_t m; if(k<6){ struct Obj*o=&objs[k]; int by=o->bytes; if(rand()%6==0) by=(int[]){1,2,4,8}[rand()%4]; m=(o->mux<<8)|(by*8);} else if(k==6) m=0x30000108; else m=0x21000908;
        lp+=sprintf(log+lp,"%s:map%d=%08X ",w?"R":"T",i+1,m); rx(0x601,8,0x23,mp&0xFF,mp>>8,1+i,m&0xFF,(m>>8)&0xFF,(m>>16)&0xFF,m>>24);
        int refuse=0; uint32_t code=0; struct Obj*o=findobj(m); if(!(mid[w]&0x80000000u)||mnum[w]!=0){refuse=1;} else if(!o||!o->map||(w?!o->wr:!o->rd)){refuse=1;code=0x06040041;}
        if(TxN!=1) FAIL("no resp"); if(refuse){ if(TxQ[0].Data[0]!=0x80||(code&&ac()!=code)) FAIL("map not refused properly %02X %08X exp %08X",TxQ[0].Data[0],ac(),code); } else { if(TxQ[0].Data[0]!=0x60) FAIL("map refused %08X",ac()); mmap[w][i]=m; } }
      else if(op==11){ int nm=(mode==3)?2:3; lp+=sprintf(log+lp,"mode%d ",nm); rx(0,2,nm==3?1:128,1,0,0,0,0,0,0); mode=nm; if(nm==3){ LOAD(0); LOAD(1);} }
      else if(op==12 && mode==3){ // TPDO probe
        lp+=sprintf(log+lp,"trig "); v8a=rand(); v16=rand(); v32=rand(); ro8=rand(); COTPdoTrigPdo(Node.TPdo,0);
        int consistent=1; int tot=0; for(int i=0;i<anum[0];i++){ struct Obj*o=findobj(amap[0][i]); int by=(amap[0][i]&0xFF)>>3; if(!o||by!=o->bytes) consistent=0; tot+=by; } if(tot>8) FAIL("activated mapping > 8 bytes");
        int e= act[0] && !(aid[0]&0x80000000u); if(TxN!=e) FAIL("tpdo frames %d exp %d",TxN,e);
        if(e&&consistent){ uint8_t ex[8]; int p=0; for(int i=0;i<anum[0];i++){ struct Obj*o=findobj(amap[0][i]); memcpy(ex+p,o->p,o->bytes); p+=o->bytes; } if(TxQ[0].Identifier!=(aid[0]&0x7FF)||TxQ[0].DLC!=p||memcmp(TxQ[0].Data,ex,p)) FAIL("tpdo content dlc %d exp %d",TxQ[0].DLC,p); } }
      else if(op==13 && mode==3){ // RPDO probe
        lp+=sprintf(log+lp,"rpdo "); uint8_t d[8]; for(int k=0;k<8;k++) d[k]=rand(); uint8_t e8=v8a,ewo=wo8; uint16_t e16=v16; uint32_t e32=v32; uint8_t ero=ro8, enm=nm8;
        int consistent=1; for(int i=0;i<anum[1];i++){ struct Obj*o=findobj(amap[1][i]); int by=(amap[1][i]&0xFF)>>3; if(!o||by!=o->bytes) consistent=0; }
        rx(0x201,8,d[0],d[1],d[2],d[3],d[4],d[5],d[6],d[7]);
        if(act[1] && atype[1]>240 && !(aid[1]&0x80000000u) && (aid[1]&0x7FF)==0x201){ if(consistent){ int p=0; for(int i=0;i<anum[1];i++){ struct Obj*o=findobj(amap[1][i]); if(o->p==&v8a)e8=d[p]; else if(o->p==&wo8)ewo=d[p]; else if(o->p==&v16)e16=d[p]|d[p+1]<<8; else if(o->p==&v32) memcpy(&e32,d+p,4); p+=o->bytes; } } else goto skip; }
        if(v8a!=e8||wo8!=ewo||v16!=e16||v32!=e32||ro8!=ero||nm8!=enm) FAIL("rpdo effect mismatch"); skip:; }
      // stored values as model
      if(tid!=mid[0]||rid!=mid[1]||ttype!=mtype[0]||rtype!=mtype[1]||tnum!=mnum[0]||rnum!=mnum[1]||memcmp(tmap,mmap[0],4*nsub)||memcmp(rmap,mmap[1],4*nsub)) FAIL("stored config differs from model");
    }
  }
  printf("ok %ld\n",cases); return 0; }
