#!/bin/bash
# usage: run.sh <name> <file> <python-replace-old> <new> <proto> <args...>
# applies a textual mutation to a copy of the draft tree, builds proto against it, runs with timeout
name=$1; file=$2; old=$3; new=$4; proto=$5; shift 5
rm -rf /tmp/mut/t && cp -r /tmp/fixrepo /tmp/mut/t
python3 - "$file" "$old" "$new" <<'PY'
import sys
p='/tmp/mut/t/'+sys.argv[1]; s=open(p).read(); old=sys.argv[2]; new=sys.argv[3]
assert s.count(old)>=1, "pattern not found: "+old
open(p,'w').write(s.replace(old,new,1))
PY
[ $? -ne 0 ] && { echo "$name: PATTERN NOT FOUND"; exit; }
cd /tmp/exp
INC="-I/tmp/mut/t/src/config -I/tmp/mut/t/src/core -I/tmp/mut/t/src/hal -I/tmp/mut/t/src/object/basic -I/tmp/mut/t/src/object/cia301 -I/tmp/mut/t/src/service/cia301 -I/tmp/mut/t/src/service/cia305"
SRC=$(find /tmp/mut/t/src -name '*.c' ! -path '*/driver/*')
clang -g -O1 -fsanitize=address,undefined -fno-sanitize=alignment -fno-sanitize-recover=undefined $INC -o /tmp/mut/p $proto.c $SRC 2>&1 | grep -E " error" | head -2
out=$(ASAN_OPTIONS=detect_leaks=0 timeout 60 /tmp/mut/p "$@" 2>&1 | grep -iE "^case|^ok|ERROR|runtime error|FAIL|too many" | head -1 | cut -c1-110)
[ -z "$out" ] && out="(timeout/no output)"
echo "$name [$proto]: $out"
