#include "mini.h"
static uint8_t other[600]; static CO_OBJ_DOM odom={0,600,other}; static uint32_t ov32; static long s1frames, s1resp;
static void rx0(uint32_t id,uint8_t dlc,uint8_t a,uint8_t b,uint8_t c,uint8_t d,uint8_t e,uint8_t f,uint8_t g,uint8_t h){
  rx(id,dlc,a,b,c,d,e,f,g,h);
  if(id==0x601 && rand()%3==0){ int n0=TxN; static const uint8_t al[]={0x40,0x21,0x00,0x10,0x60,0x70,0xC2,0xA0,0xA3,0xA2,0x80,0x23,0x01,0x81,0x05,0xC1};
    uint8_t cmd=al[rand()%sizeof al]; uint16_t mx= rand()%2?0x2010:0x2011; rx(0x611,8,cmd,mx&0xFF,mx>>8,0,rand()%200,rand()%3,0,0); s1frames++;
    int w=n0; for(int k=n0;k<TxN;k++){ if(TxQ[k].Identifier==0x591){ s1resp++; } else { TxQ[w++]=TxQ[k]; } } TxN=w; } }
#define rx rx0
// scratch: random block-upload client against draft fix; checks reassembled data == object
static uint8_t big[4000]; static CO_OBJ_DOM dom={0,4000,big};
static uint32_t v32=0xA1B2C3D4; static uint8_t v8=0x5A;
int main(int argc,char**argv){ unsigned seed=atoi(argv[1]); long cases=atol(argv[2]);
  for(int i=0;i<4000;i++) big[i]=(uint8_t)(i*7+3);
  mandatory(); add(CO_KEY(0x1201,0,CO_OBJ_D___R_),CO_TUNSIGNED8,2); add(CO_KEY(0x1201,1,CO_OBJ_____R_),CO_TUNSIGNED32,(CO_DATA)&id1201_1); add(CO_KEY(0x1201,2,CO_OBJ_____R_),CO_TUNSIGNED32,(CO_DATA)&id1201_2); id1201_1=0x611; id1201_2=0x591;
  add(CO_KEY(0x2010,0,CO_OBJ_____RW),CO_TDOMAIN,(CO_DATA)&odom); add(CO_KEY(0x2011,0,CO_OBJ_____RW),CO_TUNSIGNED32,(CO_DATA)&ov32);
  add(CO_KEY(0x2001,0,CO_OBJ_____RW),CO_TDOMAIN,(CO_DATA)&dom);
  add(CO_KEY(0x2002,0,CO_OBJ_____RW),CO_TUNSIGNED32,(CO_DATA)&v32); add(CO_KEY(0x2003,0,CO_OBJ_____RW),CO_TUNSIGNED8,(CO_DATA)&v8);
  start(1000);
  for(long c=0;c<cases;c++){ srand(seed+c);
    int which=rand()%10; uint8_t *ref; uint32_t size; uint16_t idx;
    if(which==0){idx=0x2002;ref=(uint8_t*)&v32;size=4;} else if(which==1){idx=0x2003;ref=&v8;size=1;}
    else { idx=0x2001; ref=big; int r=rand()%6; size = r==0? 1+rand()%8 : r==1? 885+rand()%10 : r==2? 7*(1+rand()%130) : 1+rand()%4000; dom.Size=size; }
    uint8_t bs=1+rand()%127; if(rand()%4==0) bs=127;
    TxN=0; rx(0x601,8,0xA0,idx&0xFF,idx>>8,0,bs,0,0,0);
    if(TxN!=1||TxQ[0].Data[0]!=0xC2||(TxQ[0].Data[4]|TxQ[0].Data[5]<<8)!=size){printf("case %ld bad init resp %02X\n",c,TxQ[0].Data[0]);return 1;}
    TxN=0; rx(0x601,8,0xA3,0,0,0,0,0,0,0);
    uint8_t got[4100]; uint32_t ng=0; int done=0; int guard=0;
    while(!done){ if(++guard>100000){printf("case %ld: no progress\n",c);return 1;}
      // received TxN segments
      int n=TxN; if(n<1||n>bs){printf("case %ld: seg count %d bs %d size %u ng %u\n",c,n,bs,size,ng);return 1;}
      int k = rand()%3==0 ? rand()%(n+1) : n; // ack prefix
      int last=0; 
      for(int i=0;i<n;i++){ if((TxQ[i].Data[0]&0x7F)!=i+1){printf("case %ld: seq %d at %d\n",c,TxQ[i].Data[0],i);return 1;} }
      for(int i=0;i<k;i++){ int isl=TxQ[i].Data[0]&0x80; if(isl&&i!=n-1){printf("case %ld: last flag early\n",c);return 1;}
         if(isl){ last=1; memcpy(got+ng,TxQ[i].Data+1,7); ng+=7; } else { memcpy(got+ng,TxQ[i].Data+1,7); ng+=7; } }
      uint8_t nbs=1+rand()%127; TxN=0; rx(0x601,8,0xA2,k,nbs,0,0,0,0,0); bs=nbs;
      if(last){ // expect end
        if(TxN!=1||(TxQ[0].Data[0]&0xE3)!=0xC1){printf("case %ld: no end frame (tx %d cmd %02X)\n",c,TxN,TxQ[0].Data[0]);return 1;}
        int nn=(TxQ[0].Data[0]>>2)&7; ng-=nn; done=1; TxN=0; rx(0x601,8,0xA1,0,0,0,0,0,0,0); if(TxN){printf("case %ld: response to A1\n",c);return 1;}
      }
    }
    if(ng!=size||memcmp(got,ref,size)){ printf("case %ld: DATA MISMATCH size %u got %u idx %x\n",c,size,ng,idx); return 1; }
  }
  printf("ok %ld (server-1 frames interleaved %ld, responses %ld)\n",cases,s1frames,s1resp); return 0; }
