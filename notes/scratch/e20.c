#include "mini.h"
// scratch: SDO client differential (C19 prototype) on draft-fixed tree
static uint32_t c1=0x600,c2=0x580; static uint8_t c3=2;
static int cbcount; static uint32_t cbcode; static uint16_t cbidx; static uint8_t cbsub;
static void done(CO_CSDO*c,uint16_t i,uint8_t s,uint32_t code){ cbcount++; cbcode=code; cbidx=i; cbsub=s; }
static long T; static void tk(void){ if(COTmrService(&Node.Tmr)>0)COTmrProcess(&Node.Tmr); T++; }
static int used_timers(void){ int n=0; for(CO_TMR_ACTION*a=Node.Tmr.Acts;a;a=a->Next) n++; return 16-n; }
#define FAIL(...) do{printf("case %ld xfer %d T=%ld: ",c,x,T);printf(__VA_ARGS__);printf("\n%s\n",log);return 1;}while(0)
int main(int argc,char**argv){ unsigned seed=atoi(argv[1]); long cases=atol(argv[2]);
  mandatory();
  add(CO_KEY(0x1280,0,CO_OBJ_D___R_),CO_TUNSIGNED8,3); add(CO_KEY(0x1280,1,CO_OBJ_____RW),CO_TUNSIGNED32,(CO_DATA)&c1);
  add(CO_KEY(0x1280,2,CO_OBJ_____RW),CO_TUNSIGNED32,(CO_DATA)&c2); add(CO_KEY(0x1280,3,CO_OBJ_____RW),CO_TUNSIGNED8,(CO_DATA)&c3);
  for(long c=0;c<cases;c++){ srand(seed+c); char log[8000]; int lp=0; log[0]=0; int x=0;
    { CO_NODE_SPEC s; memset(&Node,0xA5,sizeof Node); free(SdoBuf); SdoBuf=malloc(CO_SDO_BUF_BYTE);
      s.NodeId=1;s.Baudrate=250000;s.Dict=Dict;s.DictLen=MAXOBJ;s.EmcyCode=EmTbl;s.TmrMem=TmrMem;s.TmrNum=16;s.TmrFreq=1000;s.Drv=&Drv;s.SdoBuf=SdoBuf;
      RxN=RxR=TxN=0; CONodeInit(&Node,&s); CONodeStart(&Node); TxN=0; }
    T=0; CO_CSDO*cl=COCSdoFind(&Node,0); if(!cl){printf("no client\n");return 1;} int base=used_timers();
    for(x=0;x<4;x++){ int up=rand()%2; uint32_t size; int r=rand()%5; size= r==0?1+rand()%4: r==1? 250+rand()%20 : r==2? 7*(1+rand()%40) : 5+rand()%600; int tmo=5+rand()%30;
      int beh=rand()%4; /*0,1 ok; 2 abort@k; 3 silent@k*/ int k=rand()%8; int idle=rand()%40;
      uint8_t *ub=malloc(size); uint8_t *sv=malloc(size); for(uint32_t i=0;i<size;i++){ sv[i]=rand(); ub[i]= up?0xEE:rand(); } uint8_t *orig=malloc(size); memcpy(orig,ub,size);
      uint16_t idx=0x2000+rand()%16; uint8_t sub=rand()%4; cbcount=0; TxN=0;
      lp+=sprintf(log+lp,"| %s size %u tmo %d beh %d k %d idle %d ",up?"UP":"DN",size,tmo,beh,k,idle);
      CO_ERR e= up? COCSdoRequestUpload(cl,CO_DEV(idx,sub),ub,size,done,tmo) : COCSdoRequestDownload(cl,CO_DEV(idx,sub),ub,size,done,tmo);
      if(e!=CO_ERR_NONE) FAIL("request refused %d",e);
      if(COCSdoRequestUpload(cl,CO_DEV(idx,sub),ub,size,done,tmo)!=CO_ERR_SDO_BUSY) FAIL("busy client accepted request");
      // server simulation
      uint32_t off=0; int step=0; int tgl=0; long lastreq=T; int finished=0; uint32_t expcode=0; uint8_t *rcv=malloc(size+8); uint32_t nr=0; int guard=0;
      while(!finished){ if(++guard>5000) FAIL("no progress");
        if(TxN!=1) FAIL("client sent %d frames at step %d",TxN,step); CO_IF_FRM q=TxQ[0]; TxN=0; if(q.Identifier!=0x602||q.DLC!=8) FAIL("client frame id %X dlc %d",q.Identifier,q.DLC);
        uint8_t rsp[8]={0}; int respond=1;
        if(step==0){ if(q.Data[1]!=(idx&0xFF)||q.Data[2]!=(idx>>8)||q.Data[3]!=sub) FAIL("mux");
          if(up){ if(q.Data[0]!=0x40) FAIL("upload init cmd %02X",q.Data[0]); if(size<=4){ rsp[0]=0x43|((4-size)<<2); memcpy(rsp+4,sv,size);} else { rsp[0]=0x41; rsp[4]=size&0xFF; rsp[5]=size>>8; } rsp[1]=q.Data[1];rsp[2]=q.Data[2];rsp[3]=q.Data[3]; }
          else { if(size<=4){ if(q.Data[0]!=(0x23|((4-size)<<2))) FAIL("exp dl cmd %02X",q.Data[0]); memcpy(rcv,q.Data+4,size); nr=size; } else { if(q.Data[0]!=0x21||(q.Data[4]|q.Data[5]<<8)!=size) FAIL("seg dl init %02X size %d",q.Data[0],q.Data[4]|q.Data[5]<<8); } rsp[0]=0x60; rsp[1]=q.Data[1];rsp[2]=q.Data[2];rsp[3]=q.Data[3]; } }
        else if(up){ if(q.Data[0]!=(0x60|(tgl<<4))) FAIL("upload seg req %02X tgl %d",q.Data[0],tgl); uint32_t n=size-off>7?7:size-off; int last=(off+n==size); rsp[0]=(tgl<<4)|((7-n)<<1)|last; memcpy(rsp+1,sv+off,n); off+=n; tgl^=1; }
        else { uint8_t cmd=q.Data[0]; if(((cmd>>4)&1)!=tgl||(cmd&0xE0)) FAIL("dl seg cmd %02X tgl %d",cmd,tgl); uint32_t n=7-((cmd>>1)&7); int last=cmd&1; uint32_t en=size-nr>7?7:size-nr; if(n!=en||last!=(nr+n==size)) FAIL("dl seg n %u exp %u last %d nr %u",n,en,last,nr); memcpy(rcv+nr,q.Data+1,n); nr+=n; rsp[0]=0x20|(tgl<<4); tgl^=1; }
        int willfinish = up? (size<=4 || (step>0 && off==size)) : (size<=4 || (step>0 && nr==size));
        if(beh==2 && step==k%(1+(size/7+1))){ rsp[0]=0x80; rsp[1]=idx&0xFF; rsp[2]=idx>>8; rsp[3]=sub; rsp[4]=0x11;rsp[5]=0x22;rsp[6]=0x33;rsp[7]=0x06; expcode=0x06332211; willfinish=1; memset(rsp+4,0,0); }
        if(beh==3 && step==k%(1+(size/7+1))){ respond=0; }
        if(!respond){ // wait for timeout
          long due=lastreq+tmo; while(T<due-1){ tk(); if(cbcount||TxN) FAIL("early timeout at %ld (due %ld)",T,due); } tk();
          if(cbcount!=1||cbcode!=0x05040000) FAIL("timeout callback cnt %d code %08X",cbcount,cbcode);
          if(TxN!=1||TxQ[0].Data[0]!=0x80||TxQ[0].Identifier!=0x602||(TxQ[0].Data[4]|TxQ[0].Data[5]<<8|TxQ[0].Data[6]<<16|(uint32_t)TxQ[0].Data[7]<<24)!=0x05040000) FAIL("timeout abort frame");
          TxN=0; finished=1; expcode=0x05040000; break; }
        int delay=rand()%3; if(delay>=tmo) delay=0; for(int d=0;d<delay;d++){ tk(); if(cbcount||TxN) FAIL("activity during delay"); }
        rx(0x582,8,rsp[0],rsp[1],rsp[2],rsp[3],rsp[4],rsp[5],rsp[6],rsp[7]); lastreq=T; step++;
        if(willfinish){ if(cbcount!=1) FAIL("callback count %d at finish",cbcount); if(cbcode!=expcode) FAIL("code %08X exp %08X",cbcode,expcode); if(TxN) FAIL("frame after finish"); finished=1; }
        else if(cbcount) FAIL("early callback code %08X step %d",cbcode,step);
      }
      if(cbidx!=idx||cbsub!=sub) FAIL("callback mux");
      if(expcode==0){ if(up){ if(memcmp(ub,sv,size)) FAIL("upload data mismatch"); } else { if(nr!=size||memcmp(rcv,orig,size)) FAIL("download data mismatch"); } }
      if(!up && memcmp(ub,orig,size)) FAIL("user download buffer modified");
      if(used_timers()!=base) FAIL("timer left behind: %d vs %d",used_timers(),base);
      for(int i=0;i<idle;i++){ tk(); if(cbcount!=1||TxN) FAIL("activity while idle (cb %d tx %d)",cbcount,TxN); }
      free(ub);free(sv);free(orig);free(rcv);
    }
  }
  printf("ok %ld\n",cases); return 0; }
