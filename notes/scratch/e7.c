#include "mini.h"
static uint8_t big[4000]; static CO_OBJ_DOM bigdom={0,4000,big};
int main(int argc,char**argv){ int t=atoi(argv[1]);
  mandatory(); add(CO_KEY(0x2001,0,CO_OBJ_____RW),CO_TDOMAIN,(CO_DATA)&bigdom);
  start(1000);
  if(t==1){ // D6b: seq error then ack then full block
    rx(0x601,8,0xC0,0x01,0x20,0,0,0,0,0); TxN=0;
    for(int s=1;s<=5;s++) rx(0x601,8,s,1,2,3,4,5,6,7);
    rx(0x601,8,7,1,2,3,4,5,6,7);            // skip 6
    rx(0x601,8,127,1,2,3,4,5,6,7); dumptx("ack after error");
    for(int s=1;s<=127;s++) rx(0x601,8,s,1,2,3,4,5,6,7);
    dumptx("ack full");
  }
  if(t==2){ // D6c: full block of 127 then end with n=7
    rx(0x601,8,0xC0,0x01,0x20,0,0,0,0,0); TxN=0;
    for(int s=1;s<=127;s++) rx(0x601,8,s,1,2,3,4,5,6,7);
    dumptx("ack full");
    rx(0x601,8,0xC1|(7<<2),0,0,0,0,0,0,0); dumptx("end");
  }
  return 0; }
