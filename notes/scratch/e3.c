#include "mini.h"
static uint8_t v8a, v8b; static uint16_t v16; static uint32_t v32;
static uint32_t tid0=0x40000181, tmap0[2]={0x21000108,0x21000210}; static uint8_t ttype0=254, tnum0=2; static uint16_t tinh0=0, tev0=0;
static uint32_t rid0=0x201, rid1=0x301, rmap0[3]={0x21000108,0x00050008,0x21000210}, rmap1[1]={0x21000320}; static uint8_t rtype0=254, rtype1=1, rnum0=3, rnum1=1;
static void pdo(void){
  add(CO_KEY(0x2100,1,CO_OBJ___APRW),CO_TUNSIGNED8,(CO_DATA)&v8a);
  add(CO_KEY(0x2100,2,CO_OBJ____PRW),CO_TUNSIGNED16,(CO_DATA)&v16);
  add(CO_KEY(0x2100,3,CO_OBJ____PRW),CO_TUNSIGNED32,(CO_DATA)&v32);
  add(CO_KEY(0x1800,0,CO_OBJ_D___R_),CO_TUNSIGNED8,5);
  add(CO_KEY(0x1800,1,CO_OBJ_____RW),CO_TPDO_ID,(CO_DATA)&tid0);
  add(CO_KEY(0x1800,2,CO_OBJ_____RW),CO_TPDO_TYPE,(CO_DATA)&ttype0);
  add(CO_KEY(0x1800,3,CO_OBJ_____RW),CO_TUNSIGNED16,(CO_DATA)&tinh0);
  add(CO_KEY(0x1800,5,CO_OBJ_____RW),CO_TPDO_EVENT,(CO_DATA)&tev0);
  add(CO_KEY(0x1A00,0,CO_OBJ_____RW),CO_TPDO_NUM,(CO_DATA)&tnum0);
  add(CO_KEY(0x1A00,1,CO_OBJ_____RW),CO_TPDO_MAP,(CO_DATA)&tmap0[0]);
  add(CO_KEY(0x1A00,2,CO_OBJ_____RW),CO_TPDO_MAP,(CO_DATA)&tmap0[1]);
  add(CO_KEY(0x1400,0,CO_OBJ_D___R_),CO_TUNSIGNED8,2);
  add(CO_KEY(0x1400,1,CO_OBJ_____RW),CO_TPDO_ID,(CO_DATA)&rid0);
  add(CO_KEY(0x1400,2,CO_OBJ_____RW),CO_TPDO_TYPE,(CO_DATA)&rtype0);
  add(CO_KEY(0x1600,0,CO_OBJ_____RW),CO_TPDO_NUM,(CO_DATA)&rnum0);
  add(CO_KEY(0x1600,1,CO_OBJ_____RW),CO_TPDO_MAP,(CO_DATA)&rmap0[0]);
  add(CO_KEY(0x1600,2,CO_OBJ_____RW),CO_TPDO_MAP,(CO_DATA)&rmap0[1]);
  add(CO_KEY(0x1600,3,CO_OBJ_____RW),CO_TPDO_MAP,(CO_DATA)&rmap0[2]);
  add(CO_KEY(0x1401,0,CO_OBJ_D___R_),CO_TUNSIGNED8,2);
  add(CO_KEY(0x1401,1,CO_OBJ_____RW),CO_TPDO_ID,(CO_DATA)&rid1);
  add(CO_KEY(0x1401,2,CO_OBJ_____RW),CO_TPDO_TYPE,(CO_DATA)&rtype1);
  add(CO_KEY(0x1601,0,CO_OBJ_____RW),CO_TPDO_NUM,(CO_DATA)&rnum1);
  add(CO_KEY(0x1601,1,CO_OBJ_____RW),CO_TPDO_MAP,(CO_DATA)&rmap1[0]);
}
int main(int argc,char**argv){ int t=atoi(argv[1]);
  mandatory(); pdo();
  if(t==1){ // RPDO with dummy: bytes A1 | DD | 34 12
    start(1000); rx(0,2,1,1,0,0,0,0,0,0);
    rx(0x201,4,0xA1,0xDD,0x34,0x12,0,0,0,0); printf("v8a=%02X v16=%04X (want A1 1234)\n",v8a,v16);
  }
  if(t==2){ // sync RPDO on channel 1 while channel 0 async
    start(1000); rx(0,2,1,1,0,0,0,0,0,0);
    rx(0x301,4,1,2,3,4,0,0,0,0); printf("v32=%08X\n",v32);
  }
  if(t==3){ // SYNC with no reception rewrites v32 with stale
    rtype0=1; rid0=0x80000201; // ch0 disabled so ch1... keep ch0 sync to avoid NULL
    rid0=0x201; start(1000); rx(0,2,1,1,0,0,0,0,0,0);
    v32=0xCAFE; rx(0x80,0,0,0,0,0,0,0,0,0); printf("after SYNC v32=%08X (want CAFE)\n",v32);
  }
  if(t==4){ // event time write during inhibit blocks TPDO
    tinh0=100; /*10ms*/ start(1000); rx(0,2,1,1,0,0,0,0,0,0); dumptx("op");
    v8a=1; COTPdoTrigPdo(Node.TPdo,0); dumptx("trig1");
    rx(0x601,8,0x2B,0x00,0x18,5, 0,0,0,0); dumptx("wr ev=0");
    tick(30); COTPdoTrigPdo(Node.TPdo,0); dumptx("trig2"); tick(30); COTPdoTrigPdo(Node.TPdo,0); dumptx("trig3");
    printf("flags=%x InTmr=%d\n",Node.TPdo[0].Flags,Node.TPdo[0].InTmr);
  }
  if(t==5){ // EMCY with cob-id disabled
    start(1000); emcyid=0x80000080-1; COEmcySet(&Node.Emcy,1,0); dumptx("emcy");
  }
  if(t==6){ // reset com: heartbeat, sync
    hbt=10; syncid=0x40000080; static uint32_t cyc=5000; add(CO_KEY(0x1006,0,CO_OBJ_____RW),CO_TSYNC_CYCLE,(CO_DATA)&cyc);
    start(1000); tick(12); rx(0,2,130,1,0,0,0,0,0,0); dumptx("reset"); tick(25);
    rx(0x80,0,0,0,0,0,0,0,0,0);
  }
  return 0; }
void COIfCanReceive(CO_IF_FRM*f){printf("  unclaimed frame id=%X\n",f->Identifier);}
