#!/bin/sh
# usage: build.sh exp.c [extra flags]
f=$1; shift
INC="-I/repo/src/config -I/repo/src/core -I/repo/src/hal -I/repo/src/object/basic -I/repo/src/object/cia301 -I/repo/src/service/cia301 -I/repo/src/service/cia305"
SRC=$(find /repo/src -name '*.c' ! -path '*/driver/*')
clang -g -O1 -fsanitize=address,undefined -fno-sanitize=alignment -fno-sanitize-recover=undefined $INC "$@" -o ${f%.c} $f $SRC 2>&1 | grep -E "error|warning: impl" | head
