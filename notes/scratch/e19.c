#include "mini.h"
// scratch: SYNC producer/consumer differential (C16 prototype) on draft-fixed tree
static uint32_t cyc; static int appfr; 
void COIfCanReceive(CO_IF_FRM*f){ appfr++; }
#define FAIL(...) do{printf("case %ld step %d T=%ld: ",c,step,T);printf(__VA_ARGS__);printf("\n%s\n",log);return 1;}while(0)
static uint32_t abortcode(void){ return TxQ[0].Data[4]|TxQ[0].Data[5]<<8|TxQ[0].Data[6]<<16|(uint32_t)TxQ[0].Data[7]<<24; }
int main(int argc,char**argv){ unsigned seed=atoi(argv[1]); long cases=atol(argv[2]);
  for(long c=0;c<cases;c++){ srand(seed+c); char log[8000]; int lp=0; log[0]=0; int step=0; long T=0;
    mandatory(); uint32_t ids[3]={0x80,0x81,0x100};
    syncid = ids[rand()%3] | ((rand()%2)?0x40000000u:0); cyc = (rand()%4==0)? (rand()%2?0:500) : 1000*(1+rand()%6);
    add(CO_KEY(0x1006,0,CO_OBJ_____RW),CO_TSYNC_CYCLE,(CO_DATA)&cyc);
    lp+=sprintf(log+lp,"init 1005=%08X 1006=%u | ",syncid,cyc);
    { CO_NODE_SPEC s; memset(&Node,0xA5,sizeof Node); free(SdoBuf); SdoBuf=malloc(CO_SDO_BUF_BYTE);
      s.NodeId=1;s.Baudrate=250000;s.Dict=Dict;s.DictLen=MAXOBJ;s.EmcyCode=EmTbl;s.TmrMem=TmrMem;s.TmrNum=16;s.TmrFreq=1000;s.Drv=&Drv;s.SdoBuf=SdoBuf;
      RxN=RxR=TxN=0; CONodeInit(&Node,&s); CONodeStart(&Node); TxN=0; (void)CONodeGetErr(&Node); }
    uint32_t mcob=syncid, mcyc=cyc; int running=0; long due=-1; long per=0; int mode=2;
    if((mcob&0x40000000u) && mcyc>=1000){ running=1; per=mcyc/1000; due=per; }
    for(step=0;step<80;step++){ int op=rand()%14; TxN=0; appfr=0;
      if(op<5){ lp+=sprintf(log+lp,"tick "); if(COTmrService(&Node.Tmr)>0)COTmrProcess(&Node.Tmr); T++; int e=0; if(running&&due==T){ due=T+per; if(mode==2||mode==3) e=1; }
        if(TxN!=e) FAIL("sync frames %d exp %d",TxN,e); if(e&&(TxQ[0].Identifier!=(mcob&0x7FF)||TxQ[0].DLC!=0)) FAIL("sync frame id %X dlc %d",TxQ[0].Identifier,TxQ[0].DLC); }
      else if(op<8){ uint32_t id=ids[rand()%3]; lp+=sprintf(log+lp,"rx(%X) ",id); rx(id,0,0,0,0,0,0,0,0,0); int issync=((mode==2||mode==3)&&id==(mcob&0x1FFFFFFF)); int expapp= issync?0:(mode==2||mode==3||mode==4)?1:0; if(appfr!=expapp) FAIL("app frames %d exp %d (issync %d)",appfr,expapp,issync); }
      else if(op<10 && (mode==2||mode==3)){ uint32_t nid=ids[rand()%3]|((rand()%2)?0x40000000u:0); lp+=sprintf(log+lp,"wr1005=%08X ",nid); rx(0x601,8,0x23,0x05,0x10,0,nid&0xFF,(nid>>8)&0xFF,(nid>>16)&0xFF,nid>>24);
        int refuse=0; if(mcob&0x40000000u){ if((nid&0x1FFFFFFF)!=(mcob&0x1FFFFFFF)) refuse=1; else { if(!(nid&0x40000000u)){running=0;due=-1;} mcob=nid; } }
        else { if(nid&0x40000000u){ if(mcyc<1000) refuse=1; else { running=1; per=mcyc/1000; due=T+per; mcob=nid; } } else mcob=nid; }
        if(TxN!=1) FAIL("no resp"); if(refuse){ if(TxQ[0].Data[0]!=0x80||abortcode()!=0x06090030) FAIL("1005 not refused %02X %08X",TxQ[0].Data[0],abortcode()); } else if(TxQ[0].Data[0]!=0x60) FAIL("1005 refused %08X",abortcode());
        if(syncid!=mcob) FAIL("stored 1005 %08X exp %08X",syncid,mcob); }
      else if(op<12 && (mode==2||mode==3)){ uint32_t nc=(rand()%4==0)?(rand()%2?0:300):1000*(1+rand()%6); lp+=sprintf(log+lp,"wr1006=%u ",nc); rx(0x601,8,0x23,0x06,0x10,0,nc&0xFF,(nc>>8)&0xFF,(nc>>16)&0xFF,nc>>24);
        int refuse=0; if(mcob&0x40000000u){ if(nc<1000) refuse=1; else { mcyc=nc; running=1; per=nc/1000; due=T+per; } } else mcyc=nc;
        if(TxN!=1) FAIL("no resp"); if(refuse){ if(TxQ[0].Data[0]!=0x80||abortcode()!=0x06090030) FAIL("1006 not refused %02X %08X",TxQ[0].Data[0],abortcode()); } else if(TxQ[0].Data[0]!=0x60) FAIL("1006 refused %08X",abortcode());
        if(cyc!=mcyc) FAIL("stored 1006 %u exp %u",cyc,mcyc); }
      else { int nm=2+rand()%3; lp+=sprintf(log+lp,"mode%d ",nm); CONmtSetMode(&Node.Nmt,(CO_MODE)nm); mode=nm; }
    }
  }
  printf("ok %ld\n",cases); return 0; }
