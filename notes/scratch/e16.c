#include "mini.h"
// scratch: heartbeat consumer differential (C11 model prototype) on draft-fixed tree
#define NEN 3
static uint8_t n1016; static CO_HBCONS hc[NEN];
struct ME { int node, time, active; long due; int events; int state; } me[NEN];
static long T; static int evq[64], nev; static int chq[64][2], nch;
void CONmtHbConsEvent(CO_NMT*n,uint8_t id){ evq[nev++]=id; }
void CONmtHbConsChange(CO_NMT*n,uint8_t id,CO_MODE m){ chq[nch][0]=id; chq[nch][1]=m; nch++; }
static int dec(uint8_t s){ return s==0?1: s==127?2: s==5?3: s==4?4: 0; }
#define FAIL(...) do{printf("case %ld step %d T=%ld: ",c,step,T);printf(__VA_ARGS__);printf("\n%s\n",log);return 1;}while(0)
int main(int argc,char**argv){ unsigned seed=atoi(argv[1]); long cases=atol(argv[2]);
  for(long c=0;c<cases;c++){ srand(seed+c); char log[8000]; int lp=0; log[0]=0; int step=0;
    mandatory(); n1016=NEN; add(CO_KEY(0x1016,0,CO_OBJ_____R_),CO_THB_CONS,(CO_DATA)&n1016);
    for(int i=0;i<NEN;i++){ memset(&hc[i],0,sizeof hc[i]); hc[i].Tmr=-1; int on=rand()%2; hc[i].Time= on? 2+rand()%10:0; hc[i].NodeId= on? 10+i : 0; me[i].node=hc[i].NodeId; me[i].time=hc[i].Time; me[i].active=on; me[i].due=-1; me[i].events=0; me[i].state=0;
      add(CO_KEY(0x1016,1+i,CO_OBJ_____RW),CO_THB_CONS,(CO_DATA)&hc[i]); }
    { CO_NODE_SPEC s; memset(&Node,0xA5,sizeof Node); free(SdoBuf); SdoBuf=malloc(CO_SDO_BUF_BYTE);
      s.NodeId=1;s.Baudrate=250000;s.Dict=Dict;s.DictLen=MAXOBJ;s.EmcyCode=EmTbl;s.TmrMem=TmrMem;s.TmrNum=16;s.TmrFreq=1000;s.Drv=&Drv;s.SdoBuf=SdoBuf;
      RxN=RxR=TxN=0; CONodeInit(&Node,&s); CONodeStart(&Node); TxN=0; if(CONodeGetErr(&Node)) FAIL("init err"); }
    T=0;
    for(step=0;step<120;step++){ int op=rand()%14; nev=nch=0; TxN=0; int eev[8],neev=0; int ech[8][2],nech=0;
      if(op<5){ lp+=sprintf(log+lp,"tick "); if(COTmrService(&Node.Tmr)>0)COTmrProcess(&Node.Tmr); T++; for(int i=0;i<NEN;i++) if(me[i].active&&me[i].due==T){ me[i].due=T+me[i].time; if(me[i].events<255)me[i].events++; eev[neev++]=me[i].node; } }
      else if(op<9){ int n=10+rand()%5; uint8_t sb[]={0,127,5,4,0x33}; uint8_t s=sb[rand()%5]; lp+=sprintf(log+lp,"hb(%d,%d) ",n,s); rx(0x700+n,1,s,0,0,0,0,0,0,0);
        for(int i=0;i<NEN;i++) if(me[i].active&&me[i].node==n){ me[i].due=T+me[i].time; int st=dec(s); if(st!=me[i].state){ ech[nech][0]=n; ech[nech][1]=st; nech++; } me[i].state=st; break; } }
      else if(op<12){ int i=rand()%NEN; int n=10+rand()%5; int tm= rand()%3==0?0:2+rand()%10; lp+=sprintf(log+lp,"wr(%d:{%d,%d}) ",i,n,tm);
        rx(0x601,8,0x23,0x16,0x10,1+i, tm&0xFF,tm>>8,n,0);
        int dup=0; if(tm>0) for(int k=0;k<NEN;k++) if(me[k].active&&me[k].node==n) dup=1;
        if(TxN!=1) FAIL("no sdo response");
        if(dup){ uint32_t code=TxQ[0].Data[4]|TxQ[0].Data[5]<<8|TxQ[0].Data[6]<<16|(uint32_t)TxQ[0].Data[7]<<24; if(TxQ[0].Data[0]!=0x80||code!=0x06040043) FAIL("dup not refused: %02X %08X",TxQ[0].Data[0],code); }
        else { if(TxQ[0].Data[0]!=0x60) FAIL("write refused %02X",TxQ[0].Data[0]); me[i].node=n; me[i].time=tm; me[i].active=tm>0; me[i].due=-1; me[i].events=0; me[i].state=0; } }
      else if(op==12){ int n=10+rand()%5; int r=CONmtGetHbEvents(&Node.Nmt,n); int e=-1; for(int i=0;i<NEN;i++) if(me[i].active&&me[i].node==n){ e=me[i].events; me[i].events=0; } lp+=sprintf(log+lp,"ev(%d)=%d ",n,r); if(r!=e) FAIL("GetHbEvents %d exp %d",r,e); }
      else { int n=10+rand()%5; int r=CONmtLastHbState(&Node.Nmt,n); int e=0; for(int i=0;i<NEN;i++) if(me[i].active&&me[i].node==n) e=me[i].state; if(r!=e) FAIL("LastHbState %d exp %d",r,e); }
      if(nev!=neev) FAIL("event callbacks %d exp %d",nev,neev);
      for(int a=0;a<neev;a++){int f=0; for(int b=0;b<nev;b++) if(evq[b]==eev[a]){evq[b]=-1;f=1;break;} if(!f) FAIL("event for node %d missing",eev[a]);}
      if(nch!=nech) FAIL("change callbacks %d exp %d",nch,nech);
      for(int a=0;a<nech;a++) if(chq[a][0]!=ech[a][0]||chq[a][1]!=ech[a][1]) FAIL("change cb mismatch");
      // stored values readable
      for(int i=0;i<NEN;i++){ if(hc[i].Time!=me[i].time||hc[i].NodeId!=me[i].node) FAIL("stored entry %d = {%d,%d} exp {%d,%d}",i,hc[i].NodeId,hc[i].Time,me[i].node,me[i].time); }
    }
  }
  printf("ok %ld\n",cases); return 0; }
