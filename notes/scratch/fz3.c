#include "mini.h"
// scratch: C05 prototype - junk SDO history, then abort (or NMT reset), then clean probes vs actual storage
static uint8_t big[1500]; static CO_OBJ_DOM dom={0,1500,big}; static uint8_t rod[40]; static CO_OBJ_DOM rodom={0,40,rod}; static uint32_t v32; static uint8_t sm[3]; static CO_OBJ_DOM smdom={0,3,sm};
static int abst[4096]; static int nabst;
#define FAIL(...) do{printf("ORACLE: ");printf(__VA_ARGS__);printf("\n");abort();}while(0)
static int upload_blk(uint16_t idx,uint8_t*out,uint32_t*sz){ TxN=0; rx(0x601,8,0xA0,idx&0xFF,idx>>8,0,127,0,0,0); if(TxN!=1||TxQ[0].Data[0]!=0xC2) return -1; *sz=TxQ[0].Data[4]|TxQ[0].Data[5]<<8;
  TxN=0; rx(0x601,8,0xA3,0,0,0,0,0,0,0); uint32_t ng=0; for(int g=0;g<50;g++){ int n=TxN; if(n<1||n>127) return -2; int last=0; for(int i=0;i<n;i++){ if((TxQ[i].Data[0]&0x7F)!=i+1) return -3; memcpy(out+ng,TxQ[i].Data+1,7); ng+=7; if(TxQ[i].Data[0]&0x80) last=1; }
    TxN=0; rx(0x601,8,0xA2,n,127,0,0,0,0,0); if(last){ if(TxN!=1||(TxQ[0].Data[0]&0xE3)!=0xC1) return -4; ng-=(TxQ[0].Data[0]>>2)&7; TxN=0; rx(0x601,8,0xA1,0,0,0,0,0,0,0); if(TxN) return -5; return ng==*sz?0:-6; } } return -7; }
static int upload_seg(uint16_t idx,uint8_t*out,uint32_t*sz){ TxN=0; rx(0x601,8,0x40,idx&0xFF,idx>>8,0,0,0,0,0); if(TxN!=1) return -1; if((TxQ[0].Data[0]&0xF3)==0x43){ *sz=4-((TxQ[0].Data[0]>>2)&3); memcpy(out,TxQ[0].Data+4,*sz); return 0; } if(TxQ[0].Data[0]!=0x41) return -2; *sz=TxQ[0].Data[4]|TxQ[0].Data[5]<<8;
  uint32_t ng=0; int t=0; for(int g=0;g<400;g++){ TxN=0; rx(0x601,8,0x60|(t<<4),0,0,0,0,0,0,0); if(TxN!=1) return -3; uint8_t cmd=TxQ[0].Data[0]; if((cmd&0xE0)||((cmd>>4)&1)!=t) return -4; int n=7-((cmd>>1)&7); memcpy(out+ng,TxQ[0].Data+1,n); ng+=n; t^=1; if(cmd&1) return ng==*sz?0:-5; } return -6; }
static int download_seg(uint16_t idx,const uint8_t*pay,uint32_t plen){ TxN=0; rx(0x601,8,0x21,idx&0xFF,idx>>8,0,plen&0xFF,plen>>8,0,0); if(TxN!=1||TxQ[0].Data[0]!=0x60) return -1; uint32_t off=0; int t=0; while(off<plen){ uint32_t n=plen-off>7?7:plen-off; int last=off+n==plen; uint8_t d[7]={0}; memcpy(d,pay+off,n); TxN=0; rx(0x601,8,(t<<4)|((7-n)<<1)|last,d[0],d[1],d[2],d[3],d[4],d[5],d[6]); if(TxN!=1||TxQ[0].Data[0]!=(0x20|(t<<4))) return -2; off+=n; t^=1; } return 0; }
static const uint8_t*D_; static size_t N_,P_; static uint8_t g8(void){ return P_<N_?D_[P_++]:0; }
static unsigned lcg; static int rnd(void){ lcg=lcg*1103515245u+12345u; return (lcg>>16)&0x7FFF; }
int LLVMFuzzerTestOneInput(const uint8_t*data,size_t size){ D_=data;N_=size;P_=0; long c=0; static int inited; lcg=12345; if(size<4) return 0;
 if(!inited){ inited=1;
  mandatory(); { /* make 1200 read-only for C05 */ for(int i=0;i<DictN;i++) if(CO_GET_IDX(Dict[i].Key)==0x1200&&CO_GET_SUB(Dict[i].Key)>0){ Dict[i].Key&=~0xFFu; Dict[i].Key|=CO_OBJ__N__R_; Dict[i].Type=CO_TUNSIGNED32; } }
  add(CO_KEY(0x2001,0,CO_OBJ_____RW),CO_TDOMAIN,(CO_DATA)&dom); add(CO_KEY(0x2002,0,CO_OBJ_____RW),CO_TUNSIGNED32,(CO_DATA)&v32); add(CO_KEY(0x2006,0,CO_OBJ_____R_),CO_TDOMAIN,(CO_DATA)&rodom); add(CO_KEY(0x2007,0,CO_OBJ_____RW),CO_TDOMAIN,(CO_DATA)&smdom);
  }
  static const uint16_t muxes[]={0x2001,0x2002,0x2006,0x2007,0x1000,0x3000};
  static const uint8_t alpha[]={0x20,0x21,0x22,0x23,0x2F,0x2B,0x40,0x00,0x10,0x01,0x11,0x03,0x13,0x0D,0x60,0x70,0xC0,0xC2,0xC1,0xC5,0xDD,0xA0,0xA3,0xA2,0xA1,0x81,0x01,0x02,0x7F,0xFF,0x05,0x85,0xE0,0x41,0x61};
  { char log[4]; int lp=0; log[0]=0; (void)lp;
    for(int i=0;i<1500;i++) big[i]=rnd(); for(int i=0;i<40;i++) rod[i]=rnd(); for(int i=0;i<3;i++) sm[i]=rnd(); v32=rnd(); dom.Size= (g8()&1)? 1+g8()%20 : 1+((g8()|g8()<<8)%1500); dom.Offset=0; rodom.Offset=0; smdom.Offset=0;
    { CO_NODE_SPEC s; memset(&Node,0xA5,sizeof Node); free(SdoBuf); SdoBuf=malloc(CO_SDO_BUF_BYTE);
      s.NodeId=1;s.Baudrate=250000;s.Dict=Dict;s.DictLen=MAXOBJ;s.EmcyCode=EmTbl;s.TmrMem=TmrMem;s.TmrNum=16;s.TmrFreq=1000;s.Drv=&Drv;s.SdoBuf=SdoBuf;
      RxN=RxR=TxN=0; CONodeInit(&Node,&s); CONodeStart(&Node); TxN=0; }
    int nj=0; uint8_t probe=g8(); uint8_t how=g8();
    while(P_<N_ && nj++<300){ uint8_t sel=g8(); uint8_t cmd= (sel&0xC0)==0xC0? g8(): alpha[g8()%sizeof alpha]; uint16_t mx=muxes[g8()%6]; uint8_t d[7]; d[0]=mx&0xFF; d[1]=mx>>8; d[2]=0; for(int k=3;k<7;k++) d[k]=g8(); if((sel&0x30)==0x30) for(int k=0;k<3;k++) d[k]=g8();
      if((sel&0x0F)==0x0F){ int n=1+g8()%130; uint8_t lf=g8(); for(int q=1;q<=n;q++){ TxN=0; rx(0x601,8,(q&0x7F)|((q==n&&(lf&1))?0x80:0),1,2,3,4,5,6,7);} continue; }
      TxN=0; rx(0x601,8,cmd,d[0],d[1],d[2],d[3],d[4],d[5],d[6]); if(TxN>128){ printf("too many frames\n"); abort(); } }
    if((how&3)==0){ rx(0,2,130,1,0,0,0,0,0,0); } else { rx(0x601,8,0x80,0,0,0,0,0,0,0); }
    // probes against actual storage
    uint8_t out[2000]; uint32_t sz; int r;
    uint8_t snap[1500]; memcpy(snap,big,1500);
    int pr=probe%5;
    if(pr==0){ r=upload_blk(0x2001,out,&sz); if(r||sz!=dom.Size||memcmp(out,snap,sz)) FAIL("blk upload probe r=%d sz=%u/%u",r,sz,dom.Size); }
    else if(pr==1){ r=upload_seg(0x2001,out,&sz); if(r||sz!=dom.Size||memcmp(out,snap,sz)) FAIL("seg upload probe r=%d sz=%u/%u",r,sz,dom.Size); }
    else if(pr==2){ uint32_t e=v32; r=upload_seg(0x2002,out,&sz); uint32_t g; memcpy(&g,out,4); if(r||sz!=4||g!=e) FAIL("exp upload probe r=%d %08X/%08X",r,g,e); }
    else if(pr==3){ uint8_t pay[1500]; for(uint32_t i=0;i<dom.Size;i++) pay[i]=rnd(); r=download_seg(0x2001,pay,dom.Size); if(r||memcmp(big,pay,dom.Size)) FAIL("seg download probe r=%d",r); }
    else { uint8_t e[3]; memcpy(e,sm,3); r=upload_seg(0x2007,out,&sz); if(r||sz!=3||memcmp(out,e,3)) FAIL("small domain upload probe r=%d",r); }
  }
  return 0; }
