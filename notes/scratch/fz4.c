#include "mini.h"
// scratch libFuzzer target: SDO client vs arbitrary (malformed) server, exactly-once + red zones + nothing left behind (C19 safety half)
static uint32_t c1=0x600,c2=0x580; static uint8_t c3=2;
static int cbcount; static void done(CO_CSDO*c,uint16_t i,uint8_t s,uint32_t code){ cbcount++; }
static const uint8_t*D_; static size_t N_,P_; static uint8_t g8(void){ return P_<N_?D_[P_++]:0; }
static int used_timers(void){ int n=0; for(CO_TMR_ACTION*a=Node.Tmr.Acts;a;a=a->Next) n++; return 16-n; }
#define FAIL(...) do{printf("ORACLE: ");printf(__VA_ARGS__);printf("\n");abort();}while(0)
int LLVMFuzzerTestOneInput(const uint8_t*data,size_t size){ D_=data;N_=size;P_=0; if(size<6) return 0;
  static int built; if(!built){ built=1; mandatory(); add(CO_KEY(0x1280,0,CO_OBJ_D___R_),CO_TUNSIGNED8,3); add(CO_KEY(0x1280,1,CO_OBJ_____RW),CO_TUNSIGNED32,(CO_DATA)&c1); add(CO_KEY(0x1280,2,CO_OBJ_____RW),CO_TUNSIGNED32,(CO_DATA)&c2); add(CO_KEY(0x1280,3,CO_OBJ_____RW),CO_TUNSIGNED8,(CO_DATA)&c3); }
  { CO_NODE_SPEC s; memset(&Node,0xA5,sizeof Node); free(SdoBuf); SdoBuf=malloc(CO_SDO_BUF_BYTE);
    s.NodeId=1;s.Baudrate=250000;s.Dict=Dict;s.DictLen=MAXOBJ;s.EmcyCode=EmTbl;s.TmrMem=TmrMem;s.TmrNum=16;s.TmrFreq=1000;s.Drv=&Drv;s.SdoBuf=SdoBuf; RxN=RxR=TxN=0; CONodeInit(&Node,&s); CONodeStart(&Node); TxN=0; }
  CO_CSDO*cl=COCSdoFind(&Node,0); if(!cl) abort(); int base=used_timers();
  for(int x=0;x<4 && P_<N_;x++){ int up=g8()&1; uint32_t size_=1+((g8()|g8()<<8)%700); if(g8()&1) size_=1+size_%4; int tmo=1+g8()%20; uint8_t*ub=malloc(size_); memset(ub,0x5A,size_); cbcount=0; TxN=0;
    CO_ERR e= up? COCSdoRequestUpload(cl,CO_DEV(0x2000,1),ub,size_,done,tmo):COCSdoRequestDownload(cl,CO_DEV(0x2000,1),ub,size_,done,tmo); if(e!=CO_ERR_NONE) FAIL("request refused %d",e);
    int steps=g8()%60; long sinceframe=0;
    for(int s=0;s<steps && !cbcount;s++){ uint8_t k=g8(); if(k&1){ int n=1+(k>>1)%4; for(int i=0;i<n&&!cbcount;i++){ if(COTmrService(&Node.Tmr)>0)COTmrProcess(&Node.Tmr);} }
      else { uint8_t b[8]; uint8_t sel=g8(); static const uint8_t cmds[]={0x60,0x43,0x47,0x4B,0x4F,0x41,0x42,0x40,0x00,0x10,0x01,0x11,0x0F,0x1F,0x20,0x30,0x80,0xC0,0xA0,0xFF};
        b[0]= (sel&0x80)? g8(): cmds[sel%sizeof cmds]; if(sel&0x40){ b[1]=0x00;b[2]=0x20;b[3]=1; } else { b[1]=g8();b[2]=g8();b[3]=g8(); } for(int q=4;q<8;q++) b[q]=g8(); if((sel&0x20)&&b[0]==0x41){ b[4]=size_&0xFF; b[5]=size_>>8; b[6]=b[7]=0; }
        rx(0x582,8,b[0],b[1],b[2],b[3],b[4],b[5],b[6],b[7]); }
      if(cbcount>1) FAIL("callback twice"); }
    // drain: wait for timeout if still busy
    for(int i=0;i<40 && !cbcount;i++){ if(COTmrService(&Node.Tmr)>0)COTmrProcess(&Node.Tmr); }
    if(cbcount!=1) FAIL("callback count %d after drain (size %u up %d tmo %d)",cbcount,size_,up,tmo);
    if(used_timers()!=base) FAIL("timer left behind %d vs %d",used_timers(),base);
    for(int i=0;i<25;i++){ if(COTmrService(&Node.Tmr)>0)COTmrProcess(&Node.Tmr); } if(cbcount!=1) FAIL("late second callback");
    // late frames after completion must not call back again
    rx(0x582,8,0x60,0,0x20,1,0,0,0,0); rx(0x582,8,0x80,0,0x20,1,1,2,3,4); if(cbcount!=1) FAIL("callback after completion");
    free(ub); (void)sinceframe; }
  return 0; }
