#include "mini.h"
// scratch: C20 prototype - [H; reset com; P] vs [fresh from post-reset values; P]
static uint32_t cyc; static uint8_t n1016=2; static CO_HBCONS hc[2];
static uint8_t v8a; static uint16_t v16; static uint32_t v32;
static uint32_t tid[2], tmap[2][2]; static uint8_t ttype[2], tnum[2]; static uint16_t tinh[2], tev[2];
static uint32_t rid0, rmap0[2]; static uint8_t rtype0, rnum0;
static uint32_t c1=0x600,c2=0x580; static uint8_t c3=2;
static char tr[2][60000]; static int tl[2]; static int cur; static int recording;
#define TR(...) do{ if(recording) tl[cur]+=sprintf(tr[cur]+tl[cur],__VA_ARGS__); }while(0)
void CONmtHbConsEvent(CO_NMT*n,uint8_t id){ TR("hbev%d ",id); }
void CONmtHbConsChange(CO_NMT*n,uint8_t id,CO_MODE m){ TR("hbch%d/%d ",id,m); }
void CONmtModeChange(CO_NMT*n,CO_MODE m){ TR("mode%d ",m); }
void COIfCanReceive(CO_IF_FRM*f){ TR("app%X ",f->Identifier); }
static void csdone(CO_CSDO*c,uint16_t i,uint8_t s,uint32_t code){ TR("csdo%08X ",code); }
static int appfired; static void appcb(void*p){ appfired++; }
static void flush(void){ for(int i=0;i<TxN;i++){ TR("tx%X/%d:",TxQ[i].Identifier,TxQ[i].DLC); for(int k=0;k<TxQ[i].DLC&&k<8;k++) TR("%02X",TxQ[i].Data[k]); TR(" "); } TxN=0; }
static void tk(void){ if(COTmrService(&Node.Tmr)>0)COTmrProcess(&Node.Tmr); }
static int used_timers(void){ int n=0; for(CO_TMR_ACTION*a=Node.Tmr.Acts;a;a=a->Next) n++; return 16-n; }
static void build(void){ mandatory();
  add(CO_KEY(0x1006,0,CO_OBJ_____RW),CO_TSYNC_CYCLE,(CO_DATA)&cyc);
  add(CO_KEY(0x1016,0,CO_OBJ_____R_),CO_THB_CONS,(CO_DATA)&n1016); add(CO_KEY(0x1016,1,CO_OBJ_____RW),CO_THB_CONS,(CO_DATA)&hc[0]); add(CO_KEY(0x1016,2,CO_OBJ_____RW),CO_THB_CONS,(CO_DATA)&hc[1]);
  add(CO_KEY(0x2100,1,CO_OBJ___APRW),CO_TUNSIGNED8,(CO_DATA)&v8a); add(CO_KEY(0x2100,2,CO_OBJ____PRW),CO_TUNSIGNED16,(CO_DATA)&v16); add(CO_KEY(0x2100,3,CO_OBJ____PRW),CO_TUNSIGNED32,(CO_DATA)&v32);
  for(int p=0;p<2;p++){ add(CO_KEY(0x1800+p,0,CO_OBJ_D___R_),CO_TUNSIGNED8,5); add(CO_KEY(0x1800+p,1,CO_OBJ_____RW),CO_TPDO_ID,(CO_DATA)&tid[p]); add(CO_KEY(0x1800+p,2,CO_OBJ_____RW),CO_TPDO_TYPE,(CO_DATA)&ttype[p]);
    add(CO_KEY(0x1800+p,3,CO_OBJ_____RW),CO_TUNSIGNED16,(CO_DATA)&tinh[p]); add(CO_KEY(0x1800+p,5,CO_OBJ_____RW),CO_TPDO_EVENT,(CO_DATA)&tev[p]); add(CO_KEY(0x1A00+p,0,CO_OBJ_____RW),CO_TPDO_NUM,(CO_DATA)&tnum[p]);
    add(CO_KEY(0x1A00+p,1,CO_OBJ_____RW),CO_TPDO_MAP,(CO_DATA)&tmap[p][0]); add(CO_KEY(0x1A00+p,2,CO_OBJ_____RW),CO_TPDO_MAP,(CO_DATA)&tmap[p][1]); }
  add(CO_KEY(0x1400,0,CO_OBJ_D___R_),CO_TUNSIGNED8,2); add(CO_KEY(0x1400,1,CO_OBJ_____RW),CO_TPDO_ID,(CO_DATA)&rid0); add(CO_KEY(0x1400,2,CO_OBJ_____RW),CO_TPDO_TYPE,(CO_DATA)&rtype0);
  add(CO_KEY(0x1600,0,CO_OBJ_____RW),CO_TPDO_NUM,(CO_DATA)&rnum0); add(CO_KEY(0x1600,1,CO_OBJ_____RW),CO_TPDO_MAP,(CO_DATA)&rmap0[0]); add(CO_KEY(0x1600,2,CO_OBJ_____RW),CO_TPDO_MAP,(CO_DATA)&rmap0[1]);
  add(CO_KEY(0x1280,0,CO_OBJ_D___R_),CO_TUNSIGNED8,3); add(CO_KEY(0x1280,1,CO_OBJ_____RW),CO_TUNSIGNED32,(CO_DATA)&c1); add(CO_KEY(0x1280,2,CO_OBJ_____RW),CO_TUNSIGNED32,(CO_DATA)&c2); add(CO_KEY(0x1280,3,CO_OBJ_____RW),CO_TUNSIGNED8,(CO_DATA)&c3);
}
static void initnode(void){ CO_NODE_SPEC s; memset(&Node,0xA5,sizeof Node); free(SdoBuf); SdoBuf=malloc(CO_SDO_BUF_BYTE);
  s.NodeId=1;s.Baudrate=250000;s.Dict=Dict;s.DictLen=MAXOBJ;s.EmcyCode=EmTbl;s.TmrMem=TmrMem;s.TmrNum=16;s.TmrFreq=1000;s.Drv=&Drv;s.SdoBuf=SdoBuf;
  RxN=RxR=TxN=0; CONodeInit(&Node,&s); CONodeStart(&Node); TxN=0; (void)CONodeGetErr(&Node); }
static uint8_t csbuf[64];
static void ops(unsigned seed,int n,int isP){ unsigned st=seed; 
  #define R() (st=st*1103515245u+12345u,(st>>16)&0x7FFF)
  for(int i=0;i<n;i++){ int op=R()%24; if(isP) TR("\n[%d] ",i);
    switch(op){
    case 0: case 1: case 2: case 3: case 4: case 5: case 6: { int k=1+R()%4; for(int q=0;q<k;q++){ tk(); flush(); } TR("t%d ",k); break; }
    case 7: rx(0x700+5+R()%3,1,(uint8_t[]){0,127,5,4}[R()%4],0,0,0,0,0,0,0); flush(); break;
    case 8: rx(0x80+R()%2,0,0,0,0,0,0,0,0,0); flush(); break;
    case 9: { uint16_t t=(uint16_t[]){0,3,7,20}[R()%4]; rx(0x601,8,0x2B,0x17,0x10,0,t&0xFF,t>>8,0,0); flush(); break; }
    case 10: { uint32_t v=(0x80+R()%2)|((R()%2)?0x40000000u:0); rx(0x601,8,0x23,0x05,0x10,0,v&0xFF,(v>>8)&0xFF,(v>>16)&0xFF,v>>24); flush(); break; }
    case 11: { uint32_t v=1000*(R()%6); rx(0x601,8,0x23,0x06,0x10,0,v&0xFF,(v>>8)&0xFF,(v>>16)&0xFF,v>>24); flush(); break; }
    case 12: { int e=1+R()%2; int n_=5+R()%3; int tm=(R()%3)?4+R()%8:0; rx(0x601,8,0x23,0x16,0x10,e,tm&0xFF,tm>>8,n_,0); flush(); break; }
    case 13: { int m=R()%3; rx(0,2,m==0?1:m==1?128:2,1,0,0,0,0,0,0); flush(); break; }
    case 14: COTPdoTrigPdo(Node.TPdo,R()%2); flush(); break;
    case 15: CODictWrByte(&Node.Dict,CO_DEV(0x2100,1),R()%3); flush(); break;
    case 16: { int e=R()%3; if(R()%2) COEmcySet(&Node.Emcy,e,0); else COEmcyClr(&Node.Emcy,e); flush(); break; }
    case 17: { uint16_t idx=(uint16_t[]){0x1017,0x1005,0x1006,0x1001,0x1800,0x2100,0x1014}[R()%7]; rx(0x601,8,0x40,idx&0xFF,idx>>8,idx==0x1800?5:idx==0x2100?1:0,0,0,0,0); flush(); break; }
    case 18: rx(0x201,8,R(),R(),R(),R(),0,0,0,0); flush(); TR("v8a%02X v16%04X ",v8a,v16); break;
    case 19: { /* partial sdo transfer */ int w=R()%3; if(w==0) rx(0x601,8,0x40,0x00,0x10,0,0,0,0,0); else if(w==1) rx(0x601,8,0xA0,0x18,0x10,1,4,0,0,0); else rx(0x601,8,0xC0,0x00,0x21,3,0,0,0,0); flush(); break; }
    case 20: { CO_CSDO*cl=COCSdoFind(&Node,0); if(cl){ CO_ERR e=COCSdoRequestUpload(cl,CO_DEV(0x2000,1),csbuf,(R()%2)?4:20,csdone,5+R()%20); TR("creq%d ",e); flush(); } break; }
    case 21: rx(0x582,8,0x43,0x00,0x20,1,1,2,3,4); flush(); break;
    case 22: { rx(0x7E5,8,4,R()%2,0,0,0,0,0,0); rx(0x7E5,8,94,0,0,0,0,0,0,0); flush(); break; }
    case 23: { uint16_t ev=(uint16_t[]){0,5,9}[R()%3]; rx(0x601,8,0x2B,0x00+ (R()%2),0x18,5,ev&0xFF,ev>>8,0,0); flush(); break; }
    } }
}
int main(int argc,char**argv){ unsigned seed=atoi(argv[1]); long cases=atol(argv[2]);
  for(long c=0;c<cases;c++){ srand(seed+c);
    // initial config
    hbt=(uint16_t[]){0,5,10}[rand()%3]; syncid=0x80|((rand()%2)?0x40000000u:0); cyc=1000*(1+rand()%5); emcyid=0x7F; errreg=0;
    for(int i=0;i<2;i++){ memset(&hc[i],0,sizeof hc[i]); hc[i].Tmr=-1; if(rand()%2){ hc[i].Time=4+rand()%8; hc[i].NodeId=5+i; } }
    v8a=0; v16=0x1111; v32=0x22222222;
    for(int p=0;p<2;p++){ tid[p]=0x40000181+0x100*p; ttype[p]= p==0?254:(rand()%2?1+rand()%3:255); tinh[p]=(ttype[p]>=254&&rand()%2)?10*(1+rand()%5):0; tev[p]=rand()%2?3+rand()%10:0; tnum[p]=2; tmap[p][0]=0x21000108; tmap[p][1]= p?0x21000320:0x21000210; }
    rid0=0x201; rtype0=rand()%2?254:1; rnum0=2; rmap0[0]=0x21000108; rmap0[1]=0x21000210;
    build(); cur=0; recording=0; tl[0]=tl[1]=0; tr[0][0]=tr[1][0]=0; initnode();
    int apptmr=-1; if(rand()%2) apptmr=COTmrCreate(&Node.Tmr,3,7,appcb,0);
    ops(seed*7919u+c, rand()%60, 0);
    rx(0,2,130,1,0,0,0,0,0,0); TxN=0;                       // reset communication
    // snapshot values after reset
    uint16_t s_hbt=hbt; uint32_t s_sync=syncid, s_cyc=cyc, s_emcy=emcyid; uint8_t s_err=errreg; uint16_t s_ht[2]={hc[0].Time,hc[1].Time}; uint8_t s_hn[2]={hc[0].NodeId,hc[1].NodeId};
    uint8_t s8=v8a; uint16_t s16=v16; uint32_t s32=v32; uint32_t s_tid[2]={tid[0],tid[1]}; uint8_t s_tt[2]={ttype[0],ttype[1]}, s_tn[2]={tnum[0],tnum[1]}; uint16_t s_ti[2]={tinh[0],tinh[1]}, s_te[2]={tev[0],tev[1]}; uint32_t s_tm[2][2]={{tmap[0][0],tmap[0][1]},{tmap[1][0],tmap[1][1]}};
    uint32_t s_rid=rid0; uint8_t s_rt=rtype0, s_rn=rnum0; uint32_t s_rm[2]={rmap0[0],rmap0[1]};
    int occA=used_timers(); int appalive=(apptmr>=0);
    unsigned pseed=seed*31u+c*17u+5; int pn=30+rand()%60;
    recording=1; cur=0; ops(pseed,pn,1); recording=0; int occA2=used_timers();
    // node B
    hbt=s_hbt; syncid=s_sync; cyc=s_cyc; emcyid=s_emcy; errreg=s_err; for(int i=0;i<2;i++){ memset(&hc[i],0,sizeof hc[i]); hc[i].Tmr=-1; hc[i].Time=s_ht[i]; hc[i].NodeId=s_hn[i]; }
    v8a=s8; v16=s16; v32=s32; for(int p=0;p<2;p++){ tid[p]=s_tid[p]; ttype[p]=s_tt[p]; tnum[p]=s_tn[p]; tinh[p]=s_ti[p]; tev[p]=s_te[p]; tmap[p][0]=s_tm[p][0]; tmap[p][1]=s_tm[p][1]; } rid0=s_rid; rtype0=s_rt; rnum0=s_rn; rmap0[0]=s_rm[0]; rmap0[1]=s_rm[1];
    build(); initnode(); int occB=used_timers();
    recording=1; cur=1; ops(pseed,pn,1); recording=0; int occB2=used_timers();
    if(occA!=occB+appalive){ printf("case %ld: timer occupancy after reset %d vs fresh %d (+app %d)\n",c,occA,occB,appalive); return 1; }
    if(strcmp(tr[0],tr[1])){ // find first differing line
      char*a=tr[0],*b=tr[1]; int line=0; while(*a&&*b){ char*ea=strchr(a,'\n'); char*eb=strchr(b,'\n'); int la=ea?ea-a:strlen(a), lb=eb?eb-b:strlen(b); if(la!=lb||strncmp(a,b,la)){ printf("case %ld: traces differ at P step %d\n  reset: %.*s\n  fresh: %.*s\n",c,line,la,a,lb,b); break; } if(!ea||!eb)break; a=ea+1;b=eb+1;line++; }
      printf("H seed %u, cfg hbt %d sync %08X cyc %u hc {%d,%d} {%d,%d}\n",seed*7919u+(unsigned)c,s_hbt,s_sync,s_cyc,s_hn[0],s_ht[0],s_hn[1],s_ht[1]); return 1; }
    if(occA2!=occB2+appalive){ printf("case %ld: timer occupancy after P %d vs %d\n",c,occA2,occB2); return 1; }
  }
  printf("ok %ld\n",cases); return 0; }
