#include "mini.h"
// scratch: RPDO/SYNC differential (C13 prototype) on draft-fixed tree
static uint8_t v8a,v8b; static uint16_t v16; static uint32_t v32, v32b;
static uint32_t rid[2], rmap[2][8]; static uint8_t rtype[2], rnum[2];
struct F { int kind; int bytes; }; // kind: 0 v8a 1 v8b 2 v16 3 v32 4 v32b(3 bytes) 5 dummy
struct MR { int en, sync, nf; struct F f[8]; int pend; uint8_t buf[8]; int reg; } mr[2];
static uint8_t m8a,m8b; static uint16_t m16; static uint32_t m32,m32b; static int mode;
static void apply(struct MR*r,const uint8_t*d){ int p=0; for(int i=0;i<r->nf;i++){ struct F*f=&r->f[i]; uint32_t v=0; for(int k=0;k<f->bytes;k++) v|=(uint32_t)d[(p+k)&7]<<(8*k);
   switch(f->kind){case 0:m8a=v;break;case 1:m8b=v;break;case 2:m16=v;break;case 3:m32=v;break;case 4:m32b=v&0xFFFFFF;break;default:break;} p+=f->bytes; } }
#define FAIL(...) do{printf("case %ld step %d: ",c,step);printf(__VA_ARGS__);printf("\n%s\n",log);return 1;}while(0)
int main(int argc,char**argv){ unsigned seed=atoi(argv[1]); long cases=atol(argv[2]);
  for(long c=0;c<cases;c++){ srand(seed+c); char log[8000]; int lp=0; log[0]=0; int step=0;
    mandatory(); v8a=v8b=0; v16=0; v32=v32b=0;
    add(CO_KEY(0x2100,1,CO_OBJ____PRW),CO_TUNSIGNED8,(CO_DATA)&v8a); add(CO_KEY(0x2100,2,CO_OBJ____PRW),CO_TUNSIGNED8,(CO_DATA)&v8b);
    add(CO_KEY(0x2100,3,CO_OBJ____PRW),CO_TUNSIGNED16,(CO_DATA)&v16); add(CO_KEY(0x2100,4,CO_OBJ____PRW),CO_TUNSIGNED32,(CO_DATA)&v32); add(CO_KEY(0x2100,5,CO_OBJ____PRW),CO_TUNSIGNED32,(CO_DATA)&v32b);
    for(int p=0;p<2;p++){ struct MR*r=&mr[p]; memset(r,0,sizeof *r); rid[p]=0x201+0x100*p; if(rand()%6==0) rid[p]=0x201; if(rand()%8==0) rid[p]|=0x80000000u; r->en=!(rid[p]&0x80000000u);
      rtype[p]= rand()%2? 254+rand()%2 : rand()%241; r->sync= rtype[p]<=240; int tot=0; r->nf=0;
      while(r->nf<8){ int k=rand()%9; int by; uint32_t map; if(k==0){by=1;map=0x21000108;} else if(k==1){by=1;map=0x21000208;} else if(k==2){by=2;map=0x21000310;} else if(k==3){by=4;map=0x21000420;} else if(k==4){by=3;map=0x21000518;}
         else if(k==5){by=1;map=0x00050008;} else if(k==6){by=2;map=0x00060010;} else if(k==7){by=4;map=0x00070020;} else break;
         if(tot+by>8) break; r->f[r->nf].kind= k<=4?k:5; r->f[r->nf].bytes=by; rmap[p][r->nf]=map; r->nf++; tot+=by; }
      rnum[p]=r->nf;
      add(CO_KEY(0x1400+p,0,CO_OBJ_D___R_),CO_TUNSIGNED8,2); add(CO_KEY(0x1400+p,1,CO_OBJ_____RW),CO_TPDO_ID,(CO_DATA)&rid[p]); add(CO_KEY(0x1400+p,2,CO_OBJ_____RW),CO_TPDO_TYPE,(CO_DATA)&rtype[p]);
      add(CO_KEY(0x1600+p,0,CO_OBJ_____RW),CO_TPDO_NUM,(CO_DATA)&rnum[p]); for(int i=0;i<8;i++) add(CO_KEY(0x1600+p,1+i,CO_OBJ_____RW),CO_TPDO_MAP,(CO_DATA)&rmap[p][i]);
      lp+=sprintf(log+lp,"ch%d{id%08X type%d nf%d:",p,rid[p],rtype[p],r->nf); for(int i=0;i<r->nf;i++) lp+=sprintf(log+lp," %d/%d",r->f[i].kind,r->f[i].bytes); lp+=sprintf(log+lp,"} "); }
    { CO_NODE_SPEC s; memset(&Node,0xA5,sizeof Node); free(SdoBuf); SdoBuf=malloc(CO_SDO_BUF_BYTE);
      s.NodeId=1;s.Baudrate=250000;s.Dict=Dict;s.DictLen=MAXOBJ;s.EmcyCode=EmTbl;s.TmrMem=TmrMem;s.TmrNum=16;s.TmrFreq=1000;s.Drv=&Drv;s.SdoBuf=SdoBuf;
      RxN=RxR=TxN=0; CONodeInit(&Node,&s); CONodeStart(&Node); TxN=0; }
    mode=2; m8a=m8b=0; m16=0; m32=m32b=0;
    for(step=0;step<60;step++){ int op=rand()%12;
      if(op<5){ int w=rand()%3; uint32_t id= w==0?0x201: w==1?0x301:0x202+rand()%3; uint8_t d[8]; for(int k=0;k<8;k++)d[k]=rand(); lp+=sprintf(log+lp,"rpdo(%X) ",id);
        rx(id,8,d[0],d[1],d[2],d[3],d[4],d[5],d[6],d[7]);
        if(mode==3){ for(int p=0;p<2;p++){ struct MR*r=&mr[p]; if(r->en && r->reg && (rid[p]&0x7FF)==id){ if(!r->sync) apply(r,d); else { memcpy(r->buf,d,8); r->pend=1; } break; } } } }
      else if(op<8){ lp+=sprintf(log+lp,"sync "); rx(0x80,0,0,0,0,0,0,0,0,0); if(mode==2||mode==3) for(int p=0;p<2;p++){ struct MR*r=&mr[p]; if(r->reg&&r->en&&r->sync&&r->pend){ r->pend=0; apply(r,r->buf);} } }
      else if(op<10){ int nm=(mode==3)?(rand()%2?2:4):3; lp+=sprintf(log+lp,"mode%d ",nm); rx(0,2,nm==3?1:nm==2?128:2,1,0,0,0,0,0,0); mode=nm; if(nm==3) for(int p=0;p<2;p++){ mr[p].reg=1; mr[p].pend=0; } }
      else { v8a=m8a=rand(); v16=m16=rand(); v32=m32=rand(); lp+=sprintf(log+lp,"local "); }
      if(v8a!=m8a||v8b!=m8b||v16!=m16||v32!=m32||v32b!=m32b) FAIL("dict mismatch v8a %02X/%02X v8b %02X/%02X v16 %04X/%04X v32 %08X/%08X v32b %08X/%08X",v8a,m8a,v8b,m8b,v16,m16,v32,m32,v32b,m32b);
    }
  }
  printf("ok %ld\n",cases); return 0; }
