#include "mini.h"
static uint8_t big[100]; static CO_OBJ_DOM bigdom={0,100,big};
int main(int argc,char**argv){
  mandatory(); add(CO_KEY(0x2001,0,CO_OBJ_____RW),CO_TDOMAIN,(CO_DATA)&bigdom);
  start(1000);
  rx(0x601,8,0x22,0x01,0x20,0,9,8,7,6); dumptx("exp e=1 s=0 to 100-byte domain");
  printf("srv.Obj=%p\n",(void*)Node.Sdo[0].Obj);
  rx(0x601,8,0x40,0x00,0x10,0,0,0,0,0); dumptx("then read 1000:0");
  rx(0x601,8,0x23,0x01,0x20,0,9,8,7,6); dumptx("exp e=1 s=1 n=0 (4 bytes) to 100-byte domain"); printf("big[0..3]=%d %d %d %d\n",big[0],big[1],big[2],big[3]);
  return 0; }
