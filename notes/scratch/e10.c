#include "mini.h"
static uint32_t rid0=0x201, rmap0[8]={0x00070008,0x00070008,0x00070008,0x00070008,0x00070008,0x00070008,0x00070008,0x00070008}; static uint8_t rtype0=254, rnum0=8;
int main(int argc,char**argv){
  mandatory();
  add(CO_KEY(0x1400,0,CO_OBJ_D___R_),CO_TUNSIGNED8,2);
  add(CO_KEY(0x1400,1,CO_OBJ_____RW),CO_TPDO_ID,(CO_DATA)&rid0);
  add(CO_KEY(0x1400,2,CO_OBJ_____RW),CO_TPDO_TYPE,(CO_DATA)&rtype0);
  add(CO_KEY(0x1600,0,CO_OBJ_____RW),CO_TPDO_NUM,(CO_DATA)&rnum0);
  for(int i=0;i<8;i++) add(CO_KEY(0x1600,1+i,CO_OBJ_____RW),CO_TPDO_MAP,(CO_DATA)&rmap0[i]);
  start(1000); rx(0,2,1,1,0,0,0,0,0,0); printf("objnum=%d\n",Node.RPdo[0].ObjNum);
  return 0; }
