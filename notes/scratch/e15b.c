#include "mini.h"
// scratch: TPDO timing differential (C12 model prototype) on draft-fixed tree
static uint8_t v8a; static uint16_t v16; static uint32_t v32;
static uint32_t tid[2], tmap[2][3]; static uint8_t ttype[2], tnum[2]; static uint16_t tinh[2], tev[2];
struct MP { int en, type; long I,E; long inh_end, ev_due; int pending; int synccnt; int insync; } mp[2];
static int mode; static long T;
struct Em { int pdo; uint8_t d[8]; int dlc; } exp_[64]; static int ne;
static void m_emit(int p){ struct Em*e=&exp_[ne++]; e->pdo=p; int k=0; if(p==0){ e->d[k++]=v8a; e->d[k++]=v16&0xFF; e->d[k++]=v16>>8; } else { e->d[k++]=v8a; e->d[k++]=v32&0xFF; e->d[k++]=(v32>>8)&0xFF; e->d[k++]=(v32>>16)&0xFF; } e->dlc=k; }
static void m_tx(int p){ struct MP*m=&mp[p]; if(mode!=3) return; if(!m->en) return; if(m->inh_end>=0){ m->pending=1; return; }
  m->ev_due=-1; if(m->I>0) m->inh_end=T+m->I; if(m->E>0) m->ev_due=T+m->E; m_emit(p); }
static void m_activate(void){ for(int p=0;p<2;p++){ struct MP*m=&mp[p]; m->inh_end=-1; m->pending=0; m->ev_due=-1; m->synccnt=0; m->insync=0;
   m->I=tinh[p]/10; m->E=(ttype[p]>=254)?tev[p]:0; m->type=ttype[p]; m->en=!(tid[p]&0x80000000u);
   if(m->en && m->type<=240) m->insync=1; if(m->E>0) m->ev_due=T+m->E+p; } }
static void m_tick(void){ T++; for(int p=0;p<2;p++){ struct MP*m=&mp[p];
   if(m->inh_end==T){ m->inh_end=-1; if(m->pending){ m->pending=0; m_tx(p);} }
   if(m->ev_due==T){ m->ev_due=-1; m_tx(p);} } }
#define FAIL(...) do{printf("case %ld step %d T=%ld: ",c,step,T);printf(__VA_ARGS__);printf("\n%s\n",log);return 1;}while(0)
int main(int argc,char**argv){ unsigned seed=atoi(argv[1]); long cases=atol(argv[2]);
  for(long c=0;c<cases;c++){ srand(seed+c); char log[8000]; int lp=0; log[0]=0; int step=0;
    mandatory(); v8a=0; v16=0x1234; v32=0x00ABCDEF;
    add(CO_KEY(0x2100,1,CO_OBJ___APRW),CO_TUNSIGNED8,(CO_DATA)&v8a); add(CO_KEY(0x2100,2,CO_OBJ____PRW),CO_TUNSIGNED16,(CO_DATA)&v16); add(CO_KEY(0x2100,3,CO_OBJ____PRW),CO_TUNSIGNED32,(CO_DATA)&v32);
    for(int p=0;p<2;p++){ tid[p]=0x40000181+0x100*p; if(rand()%8==0) tid[p]|=0x80000000u; int r=rand()%3; ttype[p]= r==0?254: r==1?255: 1+rand()%4; if(p==0&&rand()%2) ttype[p]=254;
      tinh[p]=(ttype[p]>=254 && rand()%2)? 10*(1+rand()%8):0; tev[p]=(rand()%2)?(1+rand()%12):0; if(getenv("NOTIE") && tev[p]==tinh[p]/10) tev[p]++; tnum[p]= p==0?2:2;
      tmap[0][0]=0x21000108; tmap[0][1]=0x21000210; tmap[1][0]=0x21000108; tmap[1][1]=0x21000318;
      add(CO_KEY(0x1800+p,0,CO_OBJ_D___R_),CO_TUNSIGNED8,5); add(CO_KEY(0x1800+p,1,CO_OBJ_____RW),CO_TPDO_ID,(CO_DATA)&tid[p]);
      add(CO_KEY(0x1800+p,2,CO_OBJ_____RW),CO_TPDO_TYPE,(CO_DATA)&ttype[p]); add(CO_KEY(0x1800+p,3,CO_OBJ_____RW),CO_TUNSIGNED16,(CO_DATA)&tinh[p]);
      add(CO_KEY(0x1800+p,5,CO_OBJ_____RW),CO_TPDO_EVENT,(CO_DATA)&tev[p]); add(CO_KEY(0x1A00+p,0,CO_OBJ_____RW),CO_TPDO_NUM,(CO_DATA)&tnum[p]);
      add(CO_KEY(0x1A00+p,1,CO_OBJ_____RW),CO_TPDO_MAP,(CO_DATA)&tmap[p][0]); add(CO_KEY(0x1A00+p,2,CO_OBJ_____RW),CO_TPDO_MAP,(CO_DATA)&tmap[p][1]); }
    lp+=sprintf(log+lp,"cfg p0{id%08X t%d I%d E%d} p1{id%08X t%d I%d E%d} | ",tid[0],ttype[0],tinh[0]/10,tev[0],tid[1],ttype[1],tinh[1]/10,tev[1]);
    { CO_NODE_SPEC s; memset(&Node,0xA5,sizeof Node); free(SdoBuf); SdoBuf=malloc(CO_SDO_BUF_BYTE);
      s.NodeId=1;s.Baudrate=250000;s.Dict=Dict;s.DictLen=MAXOBJ;s.EmcyCode=EmTbl;s.TmrMem=TmrMem;s.TmrNum=16;s.TmrFreq=1000;s.Drv=&Drv;s.SdoBuf=SdoBuf;
      RxN=RxR=TxN=0; CONodeInit(&Node,&s); CONodeStart(&Node); TxN=0; }
    mode=2; T=0; Tick=0; memset(mp,0,sizeof mp); for(int p=0;p<2;p++){mp[p].inh_end=-1;mp[p].ev_due=-1;}
    for(step=0;step<80;step++){ int op=rand()%18; TxN=0; ne=0;
      if(op<6){ lp+=sprintf(log+lp,"tick "); if(COTmrService(&Node.Tmr)>0)COTmrProcess(&Node.Tmr); m_tick(); }
      else if(op<8){ int p=rand()%2; lp+=sprintf(log+lp,"trig%d ",p); COTPdoTrigPdo(Node.TPdo,p); m_tx(p); }
      else if(op<10){ uint8_t nv=rand()%3; lp+=sprintf(log+lp,"v8a=%d ",nv); int ch=(nv!=v8a); CODictWrByte(&Node.Dict,CO_DEV(0x2100,1),nv); if(ch){ /*v8a already updated*/ if(mode==3){ m_tx(0); m_tx(1);} } }
      else if(op==10){ v16=rand(); v32=rand()&0xFFFFFF; lp+=sprintf(log+lp,"vals "); }
      else if(op<13){ lp+=sprintf(log+lp,"sync "); rx(0x80,0,0,0,0,0,0,0,0,0); if(mode==2||mode==3) for(int p=0;p<2;p++){ struct MP*m=&mp[p]; if(m->insync){ m->synccnt++; if(m->synccnt==m->type){ m_tx(p); m->synccnt=0; } } } }
      else if(op>=16){ int p=rand()%2; uint16_t ev=(uint16_t[]){0,3,6,9}[rand()%4]; lp+=sprintf(log+lp,"ev%d=%d ",p,ev); if(mode==4) continue; rx(0x601,8,0x2B,0x00+p,0x18,5,ev&0xFF,ev>>8,0,0); { int w=0; for(int k=0;k<TxN;k++) if(TxQ[k].Identifier!=0x581) TxQ[w++]=TxQ[k]; TxN=w; } tev[p]=ev; struct MP*m=&mp[p];
        m->ev_due=-1; int pend=m->pending; m->pending=0; m->inh_end=-1; if(m->en && mode==3){ m->E=ev; if(pend) m_tx(p); else if(m->E>0) m->ev_due=T+m->E; } }
      else { int nm = (mode==3)? (rand()%2?2:4) : 3; lp+=sprintf(log+lp,"mode%d ",nm); rx(0,2, nm==3?1: nm==2?128:2 ,1,0,0,0,0,0,0); if(nm==3) { mode=3; m_activate(); } else mode=nm; }
      if(getenv("V")){ printf("step %d T=%ld mode=%d tx=%d exp=%d | p0 Flags %x Ev %d In %d | p1 Flags %x Ev %d In %d | last op: %s\n",step,T,mode,TxN,ne,Node.TPdo[0].Flags,Node.TPdo[0].EvTmr,Node.TPdo[0].InTmr,Node.TPdo[1].Flags,Node.TPdo[1].EvTmr,Node.TPdo[1].InTmr, log+ (lp>12?lp-12:0)); }
      // compare multisets
      if(TxN!=ne){ for(int b=0;b<TxN;b++) printf("got id %X dlc %d d0 %02X\n",TxQ[b].Identifier,TxQ[b].DLC,TxQ[b].Data[0]); for(int p=0;p<2;p++) printf("model p%d inh_end %ld ev_due %ld pend %d | impl Flags %x EvTmr %d InTmr %d Event %u Inhibit %u\n",p,mp[p].inh_end,mp[p].ev_due,mp[p].pending,Node.TPdo[p].Flags,Node.TPdo[p].EvTmr,Node.TPdo[p].InTmr,Node.TPdo[p].Event,Node.TPdo[p].Inhibit); FAIL("frames %d expected %d",TxN,ne);}
      for(int a=0;a<ne;a++){ int f=0; for(int b=0;b<TxN;b++){ if(TxQ[b].Identifier==(uint32_t)(0x181+0x100*exp_[a].pdo) && TxQ[b].DLC==exp_[a].dlc && !memcmp(TxQ[b].Data,exp_[a].d,exp_[a].dlc)) {f=1; TxQ[b].Identifier=0xFFFFFFFF; break;} } if(!f) FAIL("expected frame of pdo %d not found",exp_[a].pdo); }
    }
  }
  printf("ok %ld\n",cases); return 0; }
