// scratch experiment harness (NOT the framework)
#include "co_core.h"
#include <stdio.h>
#include <stdlib.h>
#include <string.h>
#define MAXOBJ 256
static CO_OBJ  Dict[MAXOBJ]; static int DictN;
static CO_NODE Node; static CO_TMR_MEM TmrMem[16]; static uint8_t *SdoBuf;
static CO_IF_FRM RxQ[64]; static int RxN, RxR;
static CO_IF_FRM TxQ[4096]; static int TxN;
static uint32_t TmrCnt; static int TmrRun;
static uint8_t Nvm[256];
static long Tick;
static void cinit(void){} static void cen(uint32_t b){(void)b;}
static int16_t cread(CO_IF_FRM*f){ if(RxR<RxN){*f=RxQ[RxR++];return sizeof(*f);} return 0;}
static int16_t csend(CO_IF_FRM*f){ if(TxN<4096)TxQ[TxN++]=*f; return sizeof(*f);}
static void creset(void){} static void cclose(void){}
static void tinit(uint32_t f){(void)f;TmrCnt=0;TmrRun=0;}
static void treload(uint32_t r){TmrCnt=r;}
static uint32_t tdelay(void){return TmrCnt;}
static void tstop(void){TmrCnt=0;TmrRun=0;} static void tstart(void){TmrRun=1;}
static uint8_t tupdate(void){ if(TmrCnt>0){TmrCnt--; if(TmrCnt==0)return 1;} return 0;}
static void ninit(void){}
static uint32_t nread(uint32_t s,uint8_t*b,uint32_t n){memcpy(b,Nvm+s,n);return n;}
static uint32_t nwrite(uint32_t s,uint8_t*b,uint32_t n){memcpy(Nvm+s,b,n);return n;}
static const CO_IF_CAN_DRV CanDrv={cinit,cen,cread,csend,creset,cclose};
static const CO_IF_TIMER_DRV TDrv={tinit,treload,tdelay,tstop,tstart,tupdate};
static const CO_IF_NVM_DRV NDrv={ninit,nread,nwrite};
static CO_IF_DRV Drv={&CanDrv,&TDrv,&NDrv};
static void add(uint32_t key,const CO_OBJ_TYPE*t,CO_DATA d){
  int i=DictN; while(i>0 && CO_GET_DEV(Dict[i-1].Key)>CO_GET_DEV(key)){Dict[i]=Dict[i-1];i--;}
  Dict[i].Key=key;Dict[i].Type=t;Dict[i].Data=d;DictN++; Dict[DictN].Key=0;Dict[DictN].Type=0;Dict[DictN].Data=0;}
static uint32_t id1200_1=0x600,id1200_2=0x580,id1201_1=0x610,id1201_2=0x590; static uint8_t errreg; static uint16_t hbt; static uint32_t syncid=0x80, emcyid=0x80;
static void mandatory(void){ DictN=0; memset(Dict,0,sizeof Dict);
  add(CO_KEY(0x1000,0,CO_OBJ_D___R_),CO_TUNSIGNED32,0);
  add(CO_KEY(0x1001,0,CO_OBJ____PR_),CO_TUNSIGNED8,(CO_DATA)&errreg);
  add(CO_KEY(0x1005,0,CO_OBJ_____RW),CO_TSYNC_ID,(CO_DATA)&syncid);
  add(CO_KEY(0x1014,0,CO_OBJ__N__RW),CO_TEMCY_ID,(CO_DATA)&emcyid);
  add(CO_KEY(0x1017,0,CO_OBJ_____RW),CO_THB_PROD,(CO_DATA)&hbt);
  add(CO_KEY(0x1018,0,CO_OBJ_D___R_),CO_TUNSIGNED8,4);
  add(CO_KEY(0x1018,1,CO_OBJ_D___R_),CO_TUNSIGNED32,0x11);
  add(CO_KEY(0x1018,2,CO_OBJ_D___R_),CO_TUNSIGNED32,0x22);
  add(CO_KEY(0x1018,3,CO_OBJ_D___R_),CO_TUNSIGNED32,0x33);
  add(CO_KEY(0x1018,4,CO_OBJ_D___R_),CO_TUNSIGNED32,0x44);
  add(CO_KEY(0x1200,0,CO_OBJ_D___R_),CO_TUNSIGNED8,2);
  add(CO_KEY(0x1200,1,CO_OBJ__N__RW),CO_TSDO_ID,(CO_DATA)&id1200_1);
  add(CO_KEY(0x1200,2,CO_OBJ__N__RW),CO_TSDO_ID,(CO_DATA)&id1200_2);
}
static CO_EMCY_TBL EmTbl[4]={{0,0x1000},{1,0x2000},{2,0x3000},{3,0x4000}};
static void start(uint32_t freq){ CO_NODE_SPEC s; memset(&Node,0xA5,sizeof Node); SdoBuf=malloc(CO_SSDO_N*CO_SDO_BUF_BYTE);
  s.NodeId=1;s.Baudrate=250000;s.Dict=Dict;s.DictLen=MAXOBJ;s.EmcyCode=EmTbl;s.TmrMem=TmrMem;s.TmrNum=16;s.TmrFreq=freq;s.Drv=&Drv;s.SdoBuf=SdoBuf;
  RxN=RxR=TxN=0; CONodeInit(&Node,&s); CONodeStart(&Node); printf("init err=%d txn=%d\n",CONodeGetErr(&Node),TxN); TxN=0;}
static void rx(uint32_t id,uint8_t dlc,uint8_t a,uint8_t b,uint8_t c,uint8_t d,uint8_t e,uint8_t f,uint8_t g,uint8_t h){
  CO_IF_FRM fr; fr.Identifier=id;fr.DLC=dlc;uint8_t x[8]={a,b,c,d,e,f,g,h};memcpy(fr.Data,x,8); RxQ[0]=fr;RxN=1;RxR=0; CONodeProcess(&Node);}
static void dumptx(const char*tag){ for(int i=0;i<TxN;i++){printf("%s tx[%ld] id=%03X dlc=%d :",tag,Tick,TxQ[i].Identifier,TxQ[i].DLC);for(int k=0;k<8;k++)printf(" %02X",TxQ[i].Data[k]);printf("\n");} TxN=0;}
static void tick(int n){ while(n--){Tick++; if(COTmrService(&Node.Tmr)>0)COTmrProcess(&Node.Tmr); if(TxN)dumptx("  ");} }
void CONodeFatalError(void){printf("FATAL\n");abort();}
