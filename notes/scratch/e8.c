#include "mini.h"
// scratch random differential of the timer manager in lockstep mode (tick; process)
#define CAP 5
static int firedNow[64]; static int nf;
static void cb(void*p){ firedNow[nf++]=(int)(long)p; }
struct M { int active; long due; uint32_t cyc; int id; } m[64]; // model actions indexed by tag
static int tags;
int main(int argc,char**argv){ unsigned seed=atoi(argv[1]); long cases=atol(argv[2]); 
  CO_NODE_SPEC s; memset(&Node,0,sizeof Node); Node.If.Drv=&Drv; 
  for(long c=0;c<cases;c++){ srand(seed+c); static CO_TMR_MEM mem[CAP];
    COTmrInit(&Node.Tmr,&Node,mem,CAP,1000); TmrCnt=0; Tick=0; tags=0; memset(m,0,sizeof m);
    int nact=0; char log[4000]; int lp=0; log[0]=0;
    for(int step=0;step<30;step++){ int op=rand()%10;
      if(op<4 && tags<60){ uint32_t st=rand()%5, cy=rand()%4; int id=COTmrCreate(&Node.Tmr,st,cy,cb,(void*)(long)tags);
        lp+=sprintf(log+lp,"create(%u,%u)=%d; ",st,cy,id);
        int expectfail = (st==0&&cy==0) || nact>=CAP;
        if((id<0)!=expectfail){ printf("CASE %ld: create mismatch id=%d expectfail=%d nact=%d\n%s\n",c,id,expectfail,nact,log); return 1; }
        if(id>=0){ m[tags].active=1; m[tags].due=Tick+(st?st:cy); m[tags].cyc=cy; m[tags].id=id; nact++; } tags++;
      } else if(op<6 && tags>0){ int tg=rand()%tags; int r=COTmrDelete(&Node.Tmr,m[tg].id);
        // id may have been reused by a later action: find model action currently holding this id
        int holder=-1; for(int k=0;k<tags;k++) if(m[k].active && m[k].id==m[tg].id) holder=k;
        lp+=sprintf(log+lp,"delete(id %d)=%d; ",m[tg].id,r);
        if((r==0)!=(holder>=0)){ printf("CASE %ld: delete mismatch r=%d holder=%d\n%s\n",c,r,holder,log); return 1; }
        if(holder>=0){ m[holder].active=0; nact--; }
      } else { Tick++; nf=0; if(COTmrService(&Node.Tmr)>0) COTmrProcess(&Node.Tmr);
        lp+=sprintf(log+lp,"tick->%ld fired[",Tick); for(int k=0;k<nf;k++) lp+=sprintf(log+lp,"%d ",firedNow[k]); lp+=sprintf(log+lp,"]; ");
        int exp[64],ne=0; for(int k=0;k<tags;k++) if(m[k].active && m[k].due==Tick){ exp[ne++]=k; if(m[k].cyc){m[k].due=Tick+m[k].cyc;} else {m[k].active=0; nact--;} }
        int ok=(ne==nf); for(int a=0;a<ne&&ok;a++){int f=0; for(int b=0;b<nf;b++) if(firedNow[b]==exp[a]) f++; if(f!=1) ok=0;}
        if(!ok){ printf("CASE %ld: fire mismatch at tick %ld expected %d got %d\n%s\n",c,Tick,ne,nf,log); return 1; }
      }
    }
  }
  printf("ok %ld cases\n",cases); return 0; }
