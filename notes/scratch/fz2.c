#include "mini.h"
static void mandatory2(void); static int sendfail, readfail, nvfail;
// scratch libFuzzer target: C01 prototype on draft-fixed tree (structure-aware decode of ops)
static uint32_t cyc; static uint8_t n1016=2; static CO_HBCONS hc[2];
static uint8_t v8a; static uint16_t v16; static uint32_t v32;
static uint32_t tid[2], tmap[2][4]; static uint8_t ttype[2], tnum[2]; static uint16_t tinh[2], tev[2];
static uint32_t rid[2], rmap[2][4]; static uint8_t rtype[2], rnum[2];
static uint32_t c1=0x600,c2=0x580; static uint8_t c3=2;
static uint8_t big[1200]; static CO_OBJ_DOM dom={0,1200,big}; static uint8_t sm[3]; static CO_OBJ_DOM smdom={0,3,sm};
static uint8_t strdata[40]="hello world, this is a string object"; static CO_OBJ_STR str={0,strdata};
static uint32_t hist[4]; static uint8_t histn; static uint8_t n1010=2,n1011=2; static uint8_t pram[8]; static CO_PARA pg={0,8,pram,0,CO_RESET_COM,0,CO_PARA___E};
static uint32_t d5,d6,d7;
static const uint8_t *D; static size_t N,P; static uint8_t g8(void){ return P<N?D[P++]:0; }
static int16_t fsend(CO_IF_FRM*f){ if(sendfail) return -1; return csend(f);} static int16_t fread_(CO_IF_FRM*f){ if(readfail) return -1; return cread(f);}
static uint32_t fnr(uint32_t a,uint8_t*b,uint32_t n){ if(nvfail){ if(a+n/2<=sizeof Nvm) memcpy(b,Nvm+a,n/2); return n/2;} if(a+n>sizeof Nvm) return 0; memcpy(b,Nvm+a,n); return n;} static uint32_t fnw(uint32_t a,uint8_t*b,uint32_t n){ if(nvfail) return n/2; if(a+n>sizeof Nvm) return 0; memcpy(Nvm+a,b,n); return n;}
static const CO_IF_CAN_DRV FCan={cinit,cen,fread_,fsend,creset,cclose}; static const CO_IF_NVM_DRV FNvm={ninit,fnr,fnw}; static CO_IF_DRV FDrv={&FCan,&TDrv,&FNvm};
static void csdone(CO_CSDO*c,uint16_t i,uint8_t s,uint32_t code){}
static void appcb(void*p){}
static uint8_t csbuf[64];
static uint32_t OPT;
#define HAS(b) (OPT&(1u<<(b)))
static void build(void){ mandatory2();
  if(HAS(0)){ add(CO_KEY(0x1003,0,CO_OBJ_____RW),CO_TEMCY_HIST,(CO_DATA)&histn); for(int i=0;i<4;i++) add(CO_KEY(0x1003,1+i,CO_OBJ_____R_),CO_TEMCY_HIST,(CO_DATA)&hist[i]); }
  if(HAS(1)) add(CO_KEY(0x1006,0,CO_OBJ_____RW),CO_TSYNC_CYCLE,(CO_DATA)&cyc);
  if(HAS(2)){ add(CO_KEY(0x1010,0,CO_OBJ_____R_),CO_TPARA_STORE,(CO_DATA)&n1010); add(CO_KEY(0x1010,1,CO_OBJ_____RW),CO_TPARA_STORE,(CO_DATA)&pg); add(CO_KEY(0x1010,2,CO_OBJ_____RW),CO_TPARA_STORE,(CO_DATA)&pg);
  add(CO_KEY(0x1011,0,CO_OBJ_____R_),CO_TPARA_RESTORE,(CO_DATA)&n1011); add(CO_KEY(0x1011,1,CO_OBJ_____RW),CO_TPARA_RESTORE,(CO_DATA)&pg); add(CO_KEY(0x1011,2,CO_OBJ_____RW),CO_TPARA_RESTORE,(CO_DATA)&pg); }
  if(HAS(3)){ n1016=HAS(4)?2:1; add(CO_KEY(0x1016,0,CO_OBJ_____R_),CO_THB_CONS,(CO_DATA)&n1016); add(CO_KEY(0x1016,1,CO_OBJ_____RW),CO_THB_CONS,(CO_DATA)&hc[0]); if(HAS(4)) add(CO_KEY(0x1016,2,CO_OBJ_____RW),CO_THB_CONS,(CO_DATA)&hc[1]); }
  if(HAS(5)) add(CO_KEY(0x0005,0,CO_OBJ____PRW),CO_TUNSIGNED8,(CO_DATA)&d5); if(HAS(5)){ add(CO_KEY(0x0006,0,CO_OBJ____PRW),CO_TUNSIGNED16,(CO_DATA)&d6); add(CO_KEY(0x0007,0,CO_OBJ____PRW),CO_TUNSIGNED32,(CO_DATA)&d7); }
  add(CO_KEY(0x2001,0,CO_OBJ_____RW),CO_TDOMAIN,(CO_DATA)&dom); add(CO_KEY(0x2007,0,CO_OBJ_____RW),CO_TDOMAIN,(CO_DATA)&smdom); add(CO_KEY(0x2008,0,CO_OBJ_____R_),CO_TSTRING,(CO_DATA)&str);
  add(CO_KEY(0x2100,1,CO_OBJ___APRW),CO_TUNSIGNED8,(CO_DATA)&v8a); add(CO_KEY(0x2100,2,CO_OBJ____PRW),CO_TUNSIGNED16,(CO_DATA)&v16); add(CO_KEY(0x2100,3,CO_OBJ___APRW),CO_TUNSIGNED32,(CO_DATA)&v32);
  for(int p=0;p<2;p++){ if(!HAS(6+p)) continue; add(CO_KEY(0x1800+p,0,CO_OBJ_D___R_),CO_TUNSIGNED8,5); add(CO_KEY(0x1800+p,1,CO_OBJ_____RW),CO_TPDO_ID,(CO_DATA)&tid[p]); add(CO_KEY(0x1800+p,2,CO_OBJ_____RW),CO_TPDO_TYPE,(CO_DATA)&ttype[p]);
    add(CO_KEY(0x1800+p,3,CO_OBJ_____RW),CO_TUNSIGNED16,(CO_DATA)&tinh[p]); add(CO_KEY(0x1800+p,5,CO_OBJ_____RW),CO_TPDO_EVENT,(CO_DATA)&tev[p]); add(CO_KEY(0x1A00+p,0,CO_OBJ_____RW),CO_TPDO_NUM,(CO_DATA)&tnum[p]);
    for(int i=0;i<4;i++) add(CO_KEY(0x1A00+p,1+i,CO_OBJ_____RW),CO_TPDO_MAP,(CO_DATA)&tmap[p][i]);
    if(!HAS(8+p)) continue; add(CO_KEY(0x1400+p,0,CO_OBJ_D___R_),CO_TUNSIGNED8,2); add(CO_KEY(0x1400+p,1,CO_OBJ_____RW),CO_TPDO_ID,(CO_DATA)&rid[p]); add(CO_KEY(0x1400+p,2,CO_OBJ_____RW),CO_TPDO_TYPE,(CO_DATA)&rtype[p]);
    add(CO_KEY(0x1600+p,0,CO_OBJ_____RW),CO_TPDO_NUM,(CO_DATA)&rnum[p]); for(int i=0;i<4;i++) add(CO_KEY(0x1600+p,1+i,CO_OBJ_____RW),CO_TPDO_MAP,(CO_DATA)&rmap[p][i]); }
  if(HAS(10)){ add(CO_KEY(0x1280,0,CO_OBJ_D___R_),CO_TUNSIGNED8,3); add(CO_KEY(0x1280,1,CO_OBJ_____RW),CO_TUNSIGNED32,(CO_DATA)&c1); add(CO_KEY(0x1280,2,CO_OBJ_____RW),CO_TUNSIGNED32,(CO_DATA)&c2); add(CO_KEY(0x1280,3,CO_OBJ_____RW),CO_TUNSIGNED8,(CO_DATA)&c3); }
}
int LLVMFuzzerTestOneInput(const uint8_t*data,size_t size){ D=data;N=size;P=0; if(size<8) return 0;
  uint8_t cfg=g8(), cfg2=g8(); OPT = g8() | g8()<<8 | (uint32_t)g8()<<16; OPT |= (1u<<18); if(g8()&7) OPT|=0x7F800; /* mostly keep std objects */ uint8_t pool=1+g8()%16; uint32_t freq=(uint32_t[]){1000,100,10000,1000000,300,1500}[g8()%6]; sendfail=readfail=nvfail=0; id1200_1=0x600; id1200_2=0x580; id1201_1=0x610; id1201_2=0x590;
  hbt=(cfg&1)?5:0; syncid=0x80|((cfg&2)?0x40000000u:0); cyc=(cfg&4)?2000:0; emcyid=0x7F; errreg=0; histn=0; memset(hist,0,sizeof hist);
  for(int i=0;i<2;i++){ memset(&hc[i],0,sizeof hc[i]); hc[i].Tmr=-1; if(cfg&(8<<i)){ hc[i].Time=6; hc[i].NodeId=5+i; } }
  for(int p=0;p<2;p++){ tid[p]=0x40000181+0x100*p; ttype[p]= (cfg2&(1<<p))?254:1; tinh[p]=(cfg2&(4<<p))?30:0; tev[p]=(cfg2&(16<<p))?4:0; tnum[p]=2; tmap[p][0]=0x21000108; tmap[p][1]=p?0x21000320:0x21000210; tmap[p][2]=tmap[p][3]=0;
    rid[p]=0x201+0x100*p; rtype[p]=(cfg2&(64<<p))?254:1; rnum[p]=2; rmap[p][0]=p?0x00050008:0x21000108; rmap[p][1]=0x21000210; rmap[p][2]=rmap[p][3]=0; }
  dom.Offset=0; dom.Size=1200; smdom.Offset=0; str.Offset=0;
  build(); /* arbitrary stored PDO configuration */ if(cfg&0x40){ for(int p=0;p<2;p++){ tnum[p]=g8()%10; rnum[p]=g8()%10; for(int i=0;i<4;i++){ static const uint32_t mv[]={0x21000108,0x21000210,0x21000320,0x21000318,0x00050008,0x00070008,0x00070020,0x00060010,0x21000100,0x21000340,0x30000108,0x20010008}; tmap[p][i]=mv[g8()%12]; rmap[p][i]=mv[g8()%12]; } ttype[p]=g8(); rtype[p]=g8(); if(g8()&1) tid[p]|=0x80000000u; if(g8()&1) rid[p]|=0x80000000u; if(g8()&3) {} else rid[1]=rid[0]; } }
  { CO_NODE_SPEC s; memset(&Node,0xA5,sizeof Node); free(SdoBuf); SdoBuf=malloc(CO_SSDO_N*CO_SDO_BUF_BYTE); static CO_TMR_MEM*tm; free(tm); tm=malloc(sizeof(CO_TMR_MEM)*pool); 
    s.NodeId=1;s.Baudrate=250000;s.Dict=Dict;s.DictLen=MAXOBJ;s.EmcyCode=EmTbl;s.TmrMem=tm;s.TmrNum=pool;s.TmrFreq=freq;s.Drv=&FDrv;s.SdoBuf=SdoBuf; RxN=RxR=TxN=0; CONodeInit(&Node,&s); CONodeStart(&Node); TxN=0; }
  static const uint16_t muxes[]={0x2001,0x2007,0x2008,0x2100,0x1000,0x1003,0x1005,0x1006,0x1010,0x1011,0x1014,0x1016,0x1017,0x1200,0x1280,0x1400,0x1401,0x1600,0x1601,0x1800,0x1801,0x1A00,0x1A01,0x3000,0x0005,0x1001,0x1018};
  static const uint8_t alpha[]={0x20,0x21,0x22,0x23,0x2F,0x2B,0x27,0x40,0x00,0x10,0x01,0x11,0x03,0x13,0x0D,0x60,0x70,0xC0,0xC2,0xC1,0xC5,0xDD,0xA0,0xA3,0xA2,0xA1,0x80,0x81,0x02,0x7F,0xFF};
  static const uint32_t ids[]={0x000,0x080,0x081,0x100,0x181,0x201,0x301,0x401,0x581,0x582,0x601,0x602,0x701,0x705,0x706,0x7E4,0x7E5,0x7FF};
  int apptm=-1; int nops=0;
  while(P<N && nops++<400){ uint8_t op=g8()%13; TxN=0;
    switch(op){
    case 0: case 1: case 2: { uint8_t cmd=alpha[g8()%sizeof alpha]; uint16_t mx=muxes[g8()%(sizeof muxes/2)]; uint8_t sub=g8()%7; rx(0x601,8,cmd,mx&0xFF,mx>>8,sub,g8(),g8(),g8(),g8()); break; }
    case 3: { uint8_t b[8]; for(int k=0;k<8;k++) b[k]=g8(); rx(0x601,8,b[0],b[1],b[2],b[3],b[4],b[5],b[6],b[7]); break; }
    case 4: { uint32_t id=ids[g8()%(sizeof ids/4)]; uint8_t dlc=g8()%9; uint8_t b[8]; for(int k=0;k<8;k++) b[k]=g8(); rx(id,dlc,b[0],b[1],b[2],b[3],b[4],b[5],b[6],b[7]); break; }
    case 5: { int n=1+g8()%16; for(int i=0;i<n;i++){ if(COTmrService(&Node.Tmr)>0)COTmrProcess(&Node.Tmr);} break; }
    case 6: { int n=1+g8()%130; uint8_t lastf=g8(); for(int q=1;q<=n;q++) rx(0x601,8,(q&0x7F)|((q==n&&(lastf&1))?0x80:0),g8(),2,3,4,5,6,7); break; }
    case 7: { uint8_t a=g8()%10; switch(a){ case 0: COEmcySet(&Node.Emcy,g8()%4,0); break; case 1: COEmcyClr(&Node.Emcy,g8()%4); break; case 2: COEmcyReset(&Node.Emcy,g8()&1); break;
        case 3: COTPdoTrigPdo(Node.TPdo,g8()%5); break; case 4: CODictWrByte(&Node.Dict,CO_DEV(0x2100,1),g8()); break; case 5: CODictWrLong(&Node.Dict,CO_DEV(0x2100,3),g8()); break;
        case 6: CONmtSetMode(&Node.Nmt,(CO_MODE)(2+g8()%3)); break; case 7: CONmtReset(&Node.Nmt,(CO_NMT_RESET)(1+g8()%2)); break;
        case 8: { CO_CSDO*cl=COCSdoFind(&Node,0); if(cl){ if(g8()&1) COCSdoRequestUpload(cl,CO_DEV(0x2000,1),csbuf,1+g8()%60,csdone,1+g8()%20); else COCSdoRequestDownload(cl,CO_DEV(0x2000,1),csbuf,1+g8()%60,csdone,1+g8()%20);} break; }
        default: { if(apptm<0) apptm=COTmrCreate(&Node.Tmr,g8()%6,1+g8()%5,appcb,0); else { COTmrDelete(&Node.Tmr,apptm); apptm=-1; } } } break; }
    case 8: { uint8_t cs=(uint8_t[]){1,2,128,129,130}[g8()%5]; rx(0,2,cs,g8()&1,0,0,0,0,0,0); break; }
    case 9: { uint8_t b[8]; b[0]=(uint8_t[]){4,64,65,66,67,21,19,17,23,90,91,92,93,94,70,71,72,73,74,75,76}[g8()%21]; for(int k=1;k<8;k++) b[k]= (g8()&3)?0:g8(); rx(0x7E5,8,b[0],b[1],b[2],b[3],b[4],b[5],b[6],b[7]); break; }
    case 10: { uint8_t b[8]; for(int k=0;k<8;k++) b[k]=g8(); rx(0x582,8,(uint8_t[]){0x60,0x43,0x4F,0x41,0x00,0x10,0x01,0x20,0x30,0x80}[b[0]%10],0x00,0x20,1,b[4],b[5],b[6],b[7]); break; }
    case 11: { uint8_t a=g8()%6; if(a==0) sendfail^=1; else if(a==1) readfail^=1; else if(a==2) nvfail^=1; else if(a==3){ uint8_t cmd=alpha[g8()%sizeof alpha]; uint16_t mx=muxes[g8()%(sizeof muxes/2)]; rx(0x611,8,cmd,mx&0xFF,mx>>8,g8()%4,g8(),g8(),g8(),g8()); } else if(a==4){ CONodeStop(&Node); } else { (void)CONodeGetErr(&Node); (void)CONmtGetHbEvents(&Node.Nmt,5); (void)COEmcyCnt(&Node.Emcy);} break; }
    default: { uint8_t buf[300]; uint32_t len=g8()|(g8()&1)<<8; if(len>300)len=300; if(g8()&1) CODictRdBuffer(&Node.Dict,CO_DEV(0x2001,0),buf,len); else { memset(buf,g8(),len); CODictWrBuffer(&Node.Dict,CO_DEV(0x2001,0),buf,len); } break; }
    }
    if(TxN>300){ printf("too many frames %d\n",TxN); abort(); }
  }
  return 0; }

static void mandatory2(void){ DictN=0; memset(Dict,0,sizeof Dict);
  if(HAS(11)) add(CO_KEY(0x1000,0,CO_OBJ_D___R_),CO_TUNSIGNED32,0);
  if(HAS(12)) add(CO_KEY(0x1001,0,CO_OBJ____PR_),CO_TUNSIGNED8,(CO_DATA)&errreg);
  if(HAS(13)) add(CO_KEY(0x1005,0,CO_OBJ_____RW),CO_TSYNC_ID,(CO_DATA)&syncid);
  if(HAS(14)) add(CO_KEY(0x1014,0,CO_OBJ__N__RW),CO_TEMCY_ID,(CO_DATA)&emcyid);
  if(HAS(15)) add(CO_KEY(0x1017,0,CO_OBJ_____RW),CO_THB_PROD,(CO_DATA)&hbt);
  if(HAS(16)){ add(CO_KEY(0x1018,0,CO_OBJ_D___R_),CO_TUNSIGNED8,4); add(CO_KEY(0x1018,1,CO_OBJ_D___R_),CO_TUNSIGNED32,0x11); add(CO_KEY(0x1018,2,CO_OBJ_D___R_),CO_TUNSIGNED32,0x22); add(CO_KEY(0x1018,3,CO_OBJ_D___R_),CO_TUNSIGNED32,0x33); if(HAS(17)) add(CO_KEY(0x1018,4,CO_OBJ_D___R_),CO_TUNSIGNED32,0x44); }
  if(HAS(18)){ add(CO_KEY(0x1200,0,CO_OBJ_D___R_),CO_TUNSIGNED8,2); add(CO_KEY(0x1200,1,CO_OBJ__N__RW),CO_TSDO_ID,(CO_DATA)&id1200_1); add(CO_KEY(0x1200,2,CO_OBJ__N__RW),CO_TSDO_ID,(CO_DATA)&id1200_2); }
#if CO_SSDO_N > 1
  if(HAS(19)){ add(CO_KEY(0x1201,0,CO_OBJ_D___R_),CO_TUNSIGNED8,2); add(CO_KEY(0x1201,1,CO_OBJ__N__RW),CO_TSDO_ID,(CO_DATA)&id1201_1); add(CO_KEY(0x1201,2,CO_OBJ__N__RW),CO_TSDO_ID,(CO_DATA)&id1201_2); }
#endif
}
