#include "mini.h"
static uint8_t other[600]; static CO_OBJ_DOM odom={0,600,other}; static uint32_t ov32; static long s1frames, s1resp;
static void rx0(uint32_t id,uint8_t dlc,uint8_t a,uint8_t b,uint8_t c,uint8_t d,uint8_t e,uint8_t f,uint8_t g,uint8_t h){
  int keep=TxN; rx(id,dlc,a,b,c,d,e,f,g,h);
  if(id==0x601 && rand()%3==0){ int n0=TxN; static const uint8_t al[]={0x40,0x21,0x00,0x10,0x60,0x70,0xC2,0xA0,0xA3,0xA2,0x80,0x23,0x01,0x81,0x05,0xC1};
    uint8_t cmd=al[rand()%sizeof al]; uint16_t mx= rand()%2?0x2010:0x2011; rx(0x611,8,cmd,mx&0xFF,mx>>8,0,rand()%200,rand()%3,0,0); s1frames++;
    /* drop server-1 responses from the log, check their id */ int w=n0; for(int k=n0;k<TxN;k++){ if(TxQ[k].Identifier==0x591){ s1resp++; } else { TxQ[w++]=TxQ[k]; } } TxN=w; }
  (void)keep; }
#define rx rx0
// scratch: random conforming download client (expedited/segmented/block without loss) vs storage oracle
static uint8_t big[4100]; static CO_OBJ_DOM dom={0,4000,big};
static uint32_t v32; static uint16_t v16; static uint8_t v8; static uint32_t n32;
#define FAIL(...) do{printf("case %ld mode %d size %u plen %u ind %d: ",c,mode,size,plen,ind);printf(__VA_ARGS__);printf("\n");return 1;}while(0)
int main(int argc,char**argv){ unsigned seed=atoi(argv[1]); long cases=atol(argv[2]);
  mandatory(); add(CO_KEY(0x1201,0,CO_OBJ_D___R_),CO_TUNSIGNED8,2); add(CO_KEY(0x1201,1,CO_OBJ_____R_),CO_TUNSIGNED32,(CO_DATA)&id1201_1); add(CO_KEY(0x1201,2,CO_OBJ_____R_),CO_TUNSIGNED32,(CO_DATA)&id1201_2); id1201_1=0x611; id1201_2=0x591;
  add(CO_KEY(0x2010,0,CO_OBJ_____RW),CO_TDOMAIN,(CO_DATA)&odom); add(CO_KEY(0x2011,0,CO_OBJ_____RW),CO_TUNSIGNED32,(CO_DATA)&ov32);
  add(CO_KEY(0x2001,0,CO_OBJ_____RW),CO_TDOMAIN,(CO_DATA)&dom);
  add(CO_KEY(0x2002,0,CO_OBJ_____RW),CO_TUNSIGNED32,(CO_DATA)&v32); add(CO_KEY(0x2003,0,CO_OBJ_____RW),CO_TUNSIGNED16,(CO_DATA)&v16);
  add(CO_KEY(0x2004,0,CO_OBJ_____RW),CO_TUNSIGNED8,(CO_DATA)&v8); add(CO_KEY(0x2005,0,CO_OBJ__N__RW),CO_TUNSIGNED32,(CO_DATA)&n32);
  start(1000);
  for(long c=0;c<cases;c++){ srand(seed+c);
    int which=rand()%8; uint8_t *ref; uint32_t size; uint16_t idx; int isdom=0, nid=0;
    if(which==0){idx=0x2002;ref=(uint8_t*)&v32;size=4;} else if(which==1){idx=0x2003;ref=(uint8_t*)&v16;size=2;} else if(which==2){idx=0x2004;ref=&v8;size=1;}
    else if(which==3){idx=0x2005;ref=(uint8_t*)&n32;size=4;nid=1;}
    else { isdom=1; idx=0x2001; ref=big; int r=rand()%6; size = r==0? 1+rand()%9 : r==1? 885+rand()%10 : r==2? 7*(1+rand()%130) : 1+rand()%4000; dom.Size=size; }
    int mode=rand()%3; int ind=rand()%2; uint32_t plen=size;
    if(isdom && !ind && rand()%3==0) plen=1+rand()%size;           // shorter payload without size indication
    if(isdom && mode==2 && ind && rand()%3==0) plen=1+rand()%size;    // block: non strict
    if(mode==0 && plen>4) mode=1+rand()%2;
    uint8_t pay[4100]; for(uint32_t i=0;i<plen;i++) pay[i]=rand(); uint8_t before[4100]; memcpy(before,big,4100);
    for(int i=0;i<4100;i++) if(i>=0) ; 
    if(mode==0 && !ind && size>4) ind=1;
    if(mode==0){ uint8_t cmd=0x22|(ind?1:0)|(ind?((4-plen)<<2):0); uint8_t d[4]={0,0,0,0}; memcpy(d,pay,plen);
      if(!ind && plen!=size) { plen=size; for(uint32_t i=0;i<plen;i++) pay[i]=d[i]; } // e=1,s=0: object size bytes are taken
      TxN=0; rx(0x601,8,cmd,idx&0xFF,idx>>8,0,d[0],d[1],d[2],d[3]);
      if(TxN!=1||TxQ[0].Data[0]!=0x60) FAIL("exp resp %02X %02X%02X%02X%02X",TxQ[0].Data[0],TxQ[0].Data[7],TxQ[0].Data[6],TxQ[0].Data[5],TxQ[0].Data[4]);
    } else if(mode==1){ TxN=0; rx(0x601,8,0x20|(ind?1:0),idx&0xFF,idx>>8,0,ind?plen&0xFF:0,ind?(plen>>8)&0xFF:0,0,0);
      if(TxN!=1||TxQ[0].Data[0]!=0x60) FAIL("seg init resp %02X",TxQ[0].Data[0]);
      uint32_t off=0; int t=0; while(off<plen){ uint32_t n=plen-off>7?7:plen-off; int last=(off+n==plen); uint8_t d[7]={0}; memcpy(d,pay+off,n);
        TxN=0; rx(0x601,8,(t<<4)|((7-n)<<1)|last,d[0],d[1],d[2],d[3],d[4],d[5],d[6]);
        if(TxN!=1||TxQ[0].Data[0]!=(0x20|(t<<4))) FAIL("seg resp %02X at off %u",TxQ[0].Data[0],off); off+=n; t^=1; }
    } else { TxN=0; rx(0x601,8,0xC0|(ind?2:0),idx&0xFF,idx>>8,0,ind?plen&0xFF:0,ind?(plen>>8)&0xFF:0,0,0);
      if(TxN!=1||TxQ[0].Data[0]!=0xA0||TxQ[0].Data[4]!=127) FAIL("blk init resp %02X",TxQ[0].Data[0]);
      uint32_t off=0; uint32_t n=0; int guard=0;
      while(off<plen){ if(++guard>2000) FAIL("no progress");
        /* one sub-block starting at off */
        uint32_t boff=off; int seq=0; int lost=-1; if(rand()%4==0) lost=1+rand()%127; int ackexp=-1; int sentlast=0; uint32_t good=0;
        while(boff<plen && seq<127){ n=plen-boff>7?7:plen-boff; int last=(boff+n==plen); seq++; uint8_t d[7]={0}; memcpy(d,pay+boff,n);
          TxN=0; if(seq!=lost) rx(0x601,8,seq|(last?0x80:0),d[0],d[1],d[2],d[3],d[4],d[5],d[6]);
          if(lost<0||seq<lost) good=seq; boff+=n; sentlast=last;
          if(seq==lost && (last||seq==127)){ /* lost the final frame of the block: server never acks; client times out and resends the last frame as-is */ TxN=0; rx(0x601,8,seq|(last?0x80:0),d[0],d[1],d[2],d[3],d[4],d[5],d[6]); good=seq; lost=-1; }
          if(last||seq==127){ if(TxN!=1||TxQ[0].Data[0]!=0xA2||TxQ[0].Data[1]!=good||TxQ[0].Data[2]!=127) FAIL("blk ack %02X ackseq %d (exp %u, seq %d lost %d) tx %d",TxQ[0].Data[0],TxQ[0].Data[1],good,seq,lost,TxN); }
          else if(TxN) FAIL("response inside block"); }
        off += good*7; if(off>plen) off=plen; n = (plen%7)? plen%7 : 7; }
      TxN=0; rx(0x601,8,0xC1|((7-n)<<2),0,0,0,0,0,0,0); if(TxN!=1||TxQ[0].Data[0]!=0xA1) FAIL("blk end %02X",TxQ[0].Data[0]);
    }
    if(nid){ uint32_t exp; memcpy(&exp,pay,4); exp-=1; if(n32!=exp) FAIL("nodeid value %08X exp %08X",n32,exp); }
    else if(memcmp(ref,pay,plen)) FAIL("DATA MISMATCH");
    if(isdom && memcmp(big+plen,before+plen,4100-plen)) FAIL("bytes beyond payload touched");
  }
  printf("ok %ld (server-1 frames interleaved %ld, responses %ld)\n",cases,s1frames,s1resp); return 0; }
