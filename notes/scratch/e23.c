#include "mini.h"
// scratch: LSS differential (C18 prototype)
static uint32_t st_baud; static uint8_t st_node; static int st_valid; static int storefail; static uint32_t ls_baud; static uint8_t ls_node; static int ls_calls;
CO_ERR COLssStore(uint32_t b,uint8_t n){ ls_calls++; ls_baud=b; ls_node=n; if(storefail) return CO_ERR_LSS_STORE; st_baud=b; st_node=n; st_valid=1; return CO_ERR_NONE; }
CO_ERR COLssLoad(uint32_t*b,uint8_t*n){ if(st_valid){ if(st_baud)*b=st_baud; if(st_node)*n=st_node; } return CO_ERR_NONE; }
static int appfr; void COIfCanReceive(CO_IF_FRM*f){ appfr++; }
static uint32_t ident[4];
#define FAIL(...) do{printf("case %ld step %d: ",c,step);printf(__VA_ARGS__);printf("\n%s\n",log);return 1;}while(0)
static const uint32_t baudtbl[10]={1000000,800000,500000,250000,125000,0,50000,20000,10000,0};
int main(int argc,char**argv){ unsigned seed=atoi(argv[1]); long cases=atol(argv[2]);
  for(long c=0;c<cases;c++){ srand(seed+c); char log[8000]; int lp=0; log[0]=0; int step=0;
    for(int i=0;i<4;i++){ int r=rand()%4; ident[i]= r==0?0: r==1?0xFFFFFFFF: r==2? 5 : ((uint32_t)rand()<<16)^rand(); }
    DictN=0; memset(Dict,0,sizeof Dict);
    add(CO_KEY(0x1001,0,CO_OBJ____PR_),CO_TUNSIGNED8,(CO_DATA)&errreg); add(CO_KEY(0x1018,0,CO_OBJ_D___R_),CO_TUNSIGNED8,4);
    for(int i=0;i<4;i++) add(CO_KEY(0x1018,1+i,CO_OBJ_____R_),CO_TUNSIGNED32,(CO_DATA)&ident[i]);
    add(CO_KEY(0x1200,0,CO_OBJ_D___R_),CO_TUNSIGNED8,2); add(CO_KEY(0x1200,1,CO_OBJ__N__R_),CO_TUNSIGNED32,(CO_DATA)&id1200_1); add(CO_KEY(0x1200,2,CO_OBJ__N__R_),CO_TUNSIGNED32,(CO_DATA)&id1200_2);
    st_valid=0; storefail=0;
    { CO_NODE_SPEC s; memset(&Node,0xA5,sizeof Node); free(SdoBuf); SdoBuf=malloc(CO_SDO_BUF_BYTE);
      s.NodeId=1;s.Baudrate=250000;s.Dict=Dict;s.DictLen=MAXOBJ;s.EmcyCode=0;s.TmrMem=TmrMem;s.TmrNum=16;s.TmrFreq=1000;s.Drv=&Drv;s.SdoBuf=SdoBuf;
      RxN=RxR=TxN=0; CONodeInit(&Node,&s); CONodeStart(&Node); TxN=0; }
    int mode=1 /*1 wait 2 conf*/, stp=0, cfgnode=0; uint32_t cfgbaud=0; int nodeid=1;
    for(step=0;step<60;step++){ int op=rand()%20; TxN=0; appfr=0; uint8_t f[8]={0}; int expresp=0; uint8_t er[8]; memset(er,0,8); int chk_err=0;
      uint32_t arg; { int k=rand()%4; int which=rand()%4; uint32_t b=ident[which]; arg= k==0?b: k==1?b+1: k==2?b-1: rand(); }
      if(op==0){ f[0]=4; f[1]=rand()%2; lp+=sprintf(log+lp,"glob%d ",f[1]); mode=f[1]==1?2:1; }
      else if(op<=4){ int w=op-1; f[0]=64+w; uint32_t a= rand()%3? ident[w]:arg; memcpy(f+1,&a,4); lp+=sprintf(log+lp,"sel%d(%s) ",w,a==ident[w]?"=":"x");
        if(mode==1){ if(w==0){ stp=0; if(a==ident[0]) stp=1; } else { if(stp!=w){ stp=0; } else if(a==ident[w]){ if(w==3){ mode=2; expresp=1; er[0]=68; } else stp=w+1; } } } }
      else if(op==5){ f[0]=17; f[1]=(uint8_t[]){0,1,127,128,255,64}[rand()%6]; lp+=sprintf(log+lp,"cfgnode%d ",f[1]); if(mode==2){ expresp=1; er[0]=17; int ok=(f[1]>=1&&f[1]<=127)||f[1]==255; er[1]=ok?0:1; chk_err=1; if(ok) cfgnode=f[1]; } }
      else if(op==6){ f[0]=19; f[1]=rand()%4==0; f[2]=rand()%11; lp+=sprintf(log+lp,"cfgbit%d/%d ",f[1],f[2]); if(mode==2){ expresp=1; er[0]=19; int ok= f[1]==0 && f[2]<10 && baudtbl[f[2]]!=0; er[1]=ok?0:1; chk_err=1; if(f[1]==0&&f[2]<10) cfgbaud=baudtbl[f[2]]; } }
      else if(op==7){ f[0]=23; storefail=rand()%4==0; int before=ls_calls; lp+=sprintf(log+lp,"store%s ",storefail?"(fail)":""); if(mode==2){ expresp=1; er[0]=23; er[1]=storefail?2:0; chk_err=1; }
        RxQ[0].Identifier=0x7E5; RxQ[0].DLC=8; memcpy(RxQ[0].Data,f,8); RxN=1;RxR=0; CONodeProcess(&Node);
        if(mode==2){ if(ls_calls!=before+1||ls_baud!=cfgbaud||ls_node!=cfgnode) FAIL("store callback args %u/%d exp %u/%d calls %d",ls_baud,ls_node,cfgbaud,cfgnode,ls_calls-before); } else if(ls_calls!=before) FAIL("store in waiting state"); goto check; }
      else if(op<=11){ int w=op-8; f[0]=90+w; lp+=sprintf(log+lp,"inq%d ",w); if(mode==2){ expresp=1; er[0]=90+w; memcpy(er+1,&ident[w],4); chk_err=2; } }
      else if(op==12){ f[0]=94; lp+=sprintf(log+lp,"inqnode "); if(mode==2){ expresp=1; er[0]=94; er[1]=nodeid; chk_err=1; } }
      else if(op<=18){ int w=op-13; f[0]=70+w; int idx= w==0?0: w==1?1: w<=3?2:3; uint32_t a= rand()%3? ident[idx]:arg; memcpy(f+1,&a,4); lp+=sprintf(log+lp,"idn%d(%08X) ",w,a);
        uint32_t v=ident[idx]; int match= w<=1? a==v : (w==2||w==4)? a<=v : a>=v;
        if(w==0){ stp=10; if(match) stp=11; } else { if(stp!=10+w) stp=10; else if(match){ if(w==5){ expresp=1; er[0]=79; } else stp=11+w; } } }
      else { lp+=sprintf(log+lp,"resetcom "); rx(0,2,130,0,0,0,0,0,0,0); mode=1; stp=0; cfgnode=0; cfgbaud=0; if(st_valid&&st_node) nodeid=st_node;
        if(TxN!=1||TxQ[0].Identifier!=(uint32_t)(0x700+nodeid)) FAIL("bootup id %X exp %X",TxN?TxQ[0].Identifier:0,0x700+nodeid); continue; }
      RxQ[0].Identifier=0x7E5; RxQ[0].DLC=8; memcpy(RxQ[0].Data,f,8); RxN=1;RxR=0; CONodeProcess(&Node);
      check:
      if(appfr) FAIL("LSS frame forwarded to app");
      if(TxN!=expresp) FAIL("responses %d exp %d",TxN,expresp);
      if(expresp){ if(TxQ[0].Identifier!=0x7E4) FAIL("resp id %X",TxQ[0].Identifier); if(TxQ[0].Data[0]!=er[0]) FAIL("cs %d exp %d",TxQ[0].Data[0],er[0]); if(chk_err==1&&TxQ[0].Data[1]!=er[1]) FAIL("err byte %d exp %d",TxQ[0].Data[1],er[1]); if(chk_err==2&&memcmp(TxQ[0].Data+1,er+1,4)) FAIL("inquire value"); }
    }
  }
  printf("ok %ld\n",cases); return 0; }
