#include "mini.h"
// scratch: EMCY random differential (C15 model prototype)
#define NE 8
static uint32_t hist[8]; static uint8_t histn;
static CO_EMCY_TBL Tbl[CO_EMCY_N];
#define FAIL(...) do{printf("case %ld step %d: ",c,step);printf(__VA_ARGS__);printf("\n%s\n",log);return 1;}while(0)
int main(int argc,char**argv){ unsigned seed=atoi(argv[1]); long cases=atol(argv[2]);
  for(long c=0;c<cases;c++){ srand(seed+c); char log[6000]; int lp=0; log[0]=0; int step=0;
    int depth=rand()%9; // 0..8
    mandatory(); emcyid=0x7F; errreg=0; histn=0; memset(hist,0,sizeof hist);
    if(depth>0){ add(CO_KEY(0x1003,0,CO_OBJ_____RW),CO_TEMCY_HIST,(CO_DATA)&histn); for(int i=1;i<=depth;i++) add(CO_KEY(0x1003,i,CO_OBJ_____R_),CO_TEMCY_HIST,(CO_DATA)&hist[i-1]); }
    for(int i=0;i<CO_EMCY_N;i++){ Tbl[i].Reg=rand()%8; Tbl[i].Code=0x1000+rand()%0xE000; }
    { CO_NODE_SPEC s; memset(&Node,0xA5,sizeof Node); free(SdoBuf); SdoBuf=malloc(CO_SDO_BUF_BYTE);
      s.NodeId=1;s.Baudrate=250000;s.Dict=Dict;s.DictLen=MAXOBJ;s.EmcyCode=Tbl;s.TmrMem=TmrMem;s.TmrNum=16;s.TmrFreq=1000;s.Drv=&Drv;s.SdoBuf=SdoBuf;
      RxN=RxR=TxN=0; CONodeInit(&Node,&s); CONodeStart(&Node); TxN=0; }
    int active[CO_EMCY_N]={0}; uint32_t mh[8]; int mn=0; /* model history newest first */ int mode=2; int idvalid=1;
    for(step=0;step<40;step++){ int op=rand()%12; TxN=0; int expf=0; uint16_t ecode[CO_EMCY_N+1]; 
      if(op<5){ int e=rand()%NE; int usr=rand()%2; CO_EMCY_USR u; u.Hist=rand(); for(int k=0;k<5;k++)u.Emcy[k]=rand();
        lp+=sprintf(log+lp,"set(%d,usr%d) ",e,usr); COEmcySet(&Node.Emcy,e,usr?&u:0);
        if(!active[e]){ active[e]=1; if(depth){ memmove(mh+1,mh,sizeof(uint32_t)*7); mh[0]=Tbl[e].Code|(usr?((uint32_t)u.Hist<<16):0); if(mn<depth)mn++; }
          if((mode==2||mode==3)&&idvalid){ expf=1; ecode[0]=Tbl[e].Code; if(TxN==1){ for(int k=0;k<5;k++) if(TxQ[0].Data[3+k]!=(usr?u.Emcy[k]:0)) FAIL("usr bytes"); } } }
      } else if(op<8){ int e=rand()%NE; lp+=sprintf(log+lp,"clr(%d) ",e); COEmcyClr(&Node.Emcy,e); if(active[e]){active[e]=0; if((mode==2||mode==3)&&idvalid){expf=1;ecode[0]=0;}} }
      else if(op==8){ int sil=rand()%2; lp+=sprintf(log+lp,"reset(%d) ",sil); COEmcyReset(&Node.Emcy,sil); for(int e=0;e<CO_EMCY_N;e++) if(active[e]){active[e]=0; if(!sil&&(mode==2||mode==3)&&idvalid){ecode[expf++]=0;}} }
      else if(op==9 && (mode==2||mode==3)){ int v=rand()%3==0; lp+=sprintf(log+lp,"wr1003:0=%d ",v); rx(0x601,8,0x2F,0x03,0x10,0,v,0,0,0);
        if(depth==0){ if(TxN!=1||TxQ[0].Data[0]!=0x80) FAIL("1003 absent resp"); } else if(v==0){ if(TxN!=1||TxQ[0].Data[0]!=0x60) FAIL("clear hist resp %02X",TxQ[0].Data[0]); mn=0; } else { uint32_t code=TxQ[0].Data[4]|TxQ[0].Data[5]<<8|TxQ[0].Data[6]<<16|(uint32_t)TxQ[0].Data[7]<<24; if(TxN!=1||TxQ[0].Data[0]!=0x80||code!=0x06090030) FAIL("hist wr refuse %08X",code); } TxN=0; expf=0; goto chk; }
      else if(op==10||op==9){ int m=2+rand()%3; lp+=sprintf(log+lp,"mode%d ",m); CONmtSetMode(&Node.Nmt,(CO_MODE)m); mode=m; }
      else { idvalid=rand()%2; emcyid = idvalid?0x7F:0x8000007F; lp+=sprintf(log+lp,"idvalid%d ",idvalid); }
      if(TxN!=expf) FAIL("frames %d expected %d",TxN,expf);
      for(int k=0;k<TxN;k++){ uint16_t code=TxQ[k].Data[0]|TxQ[k].Data[1]<<8; if(code!=ecode[k]) FAIL("code %04X exp %04X",code,ecode[k]); if(TxQ[k].Identifier!=0x80) FAIL("id %X",TxQ[k].Identifier); }
      chk:;
      // register / count / get
      uint8_t reg=0; int cnt=0; for(int e=0;e<CO_EMCY_N;e++) if(active[e]){ cnt++; reg|=1; if(Tbl[e].Reg) reg|=1<<Tbl[e].Reg; }
      if(errreg!=reg) FAIL("register %02X exp %02X",errreg,reg);
      if(COEmcyCnt(&Node.Emcy)!=cnt) FAIL("cnt %d exp %d",COEmcyCnt(&Node.Emcy),cnt);
      for(int e=0;e<NE;e++) if(COEmcyGet(&Node.Emcy,e)!=active[e]) FAIL("get(%d)",e);
      if(expf&&TxN>0&&TxQ[TxN-1].Data[2]!=reg) FAIL("frame register %02X exp %02X",TxQ[TxN-1].Data[2],reg);
      // history via SDO
      if(depth && (mode==2||mode==3)){ TxN=0; rx(0x601,8,0x40,0x03,0x10,0,0,0,0,0); if(TxN!=1||TxQ[0].Data[4]!=mn) FAIL("hist count %d exp %d",TxQ[0].Data[4],mn);
        for(int i=1;i<=mn;i++){ TxN=0; rx(0x601,8,0x40,0x03,0x10,i,0,0,0,0); uint32_t v=TxQ[0].Data[4]|TxQ[0].Data[5]<<8|TxQ[0].Data[6]<<16|(uint32_t)TxQ[0].Data[7]<<24; if(TxQ[0].Data[0]!=0x43||v!=mh[i-1]) FAIL("hist[%d]=%08X exp %08X (cmd %02X)",i,v,mh[i-1],TxQ[0].Data[0]); } }
    }
  }
  printf("ok %ld\n",cases); return 0; }
