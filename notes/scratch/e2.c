#include "mini.h"
static int fired[16];
static void cb(void*p){ fired[(long)p]++; printf("  cb %ld at %ld\n",(long)p,Tick);}
void CONmtHbConsEvent(CO_NMT*n,uint8_t id){printf("  HBEVENT node %d at %ld\n",id,Tick);}
static uint8_t n1016=2; static CO_HBCONS hc1={0,0,0,-1,50,5,0}, hc2={0,0,0,-1,50,6,0};
int main(int argc,char**argv){ int t=atoi(argv[1]);
  mandatory();
  add(CO_KEY(0x1016,0,CO_OBJ_____R_),CO_THB_CONS,(CO_DATA)&n1016);
  add(CO_KEY(0x1016,1,CO_OBJ_____RW),CO_THB_CONS,(CO_DATA)&hc1);
  add(CO_KEY(0x1016,2,CO_OBJ_____RW),CO_THB_CONS,(CO_DATA)&hc2);
  start(1000);
  if(t==1){ // delete elapsed sole action with empty Use
    int a=COTmrCreate(&Node.Tmr,2,0,cb,(void*)1);
    Tick++;COTmrService(&Node.Tmr);Tick++;COTmrService(&Node.Tmr); // elapsed now, not processed
    printf("del=%d\n",COTmrDelete(&Node.Tmr,a));
  }
  if(t==2){ // delete elapsed with nonempty Use, then delete another
    int a=COTmrCreate(&Node.Tmr,2,0,cb,(void*)1); int b=COTmrCreate(&Node.Tmr,10,0,cb,(void*)2); int c=COTmrCreate(&Node.Tmr,3,0,cb,(void*)3);
    COTmrService(&Node.Tmr);COTmrService(&Node.Tmr);
    printf("del a=%d\n",COTmrDelete(&Node.Tmr,a));
    COTmrService(&Node.Tmr); // c elapsed
    printf("del c=%d\n",COTmrDelete(&Node.Tmr,c));
  }
  if(t==3){ // hb consumer: write {node 5,time 0} to entry 2 while entry 1 monitors 5
    rx(0x705,1,5,0,0,0,0,0,0,0); rx(0x706,1,5,0,0,0,0,0,0,0);
    rx(0x601,8,0x23,0x16,0x10,2, 0,0,5,0); dumptx("wr");
    printf("chain=%p\n",(void*)Node.Nmt.HbCons);
    for(int i=0;i<120;i++){ if(i%20==0){rx(0x705,1,5,0,0,0,0,0,0,0);rx(0x706,1,5,0,0,0,0,0,0,0);} tick(1);}
  }
  if(t==4){ // reconfigure entry 2 (monitoring 6) to node 7 -> cycle?
    rx(0x601,8,0x23,0x16,0x10,2, 50,0,7,0); dumptx("wr");
    CO_HBCONS*h=Node.Nmt.HbCons; for(int i=0;i<6&&h;i++,h=h->Next)printf("chain[%d]=node %d\n",i,h->NodeId);
  }
  return 0; }
