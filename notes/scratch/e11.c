#include "mini.h"
static uint8_t rod[20]; static CO_OBJ_DOM rodom={0,20,rod};
int main(int argc,char**argv){
  mandatory(); add(CO_KEY(0x2001,0,CO_OBJ_____R_),CO_TDOMAIN,(CO_DATA)&rodom); memset(rod,0x11,20);
  start(1000);
  rx(0x601,8,0x40,0x01,0x20,0,0,0,0,0); dumptx("init upload of read-only domain");
  rx(0x601,8,0x00,0xDE,0xAD,0xBE,0xEF,5,6,7); dumptx("download segment");
  printf("rod[0..3]=%02X %02X %02X %02X (read-only object!)\n",rod[0],rod[1],rod[2],rod[3]);
  return 0; }
