#include "mini.h"
static uint8_t v8a; static uint32_t v32; static uint32_t tid0=0x40000181, tmap0[1]={0x21000108}; static uint8_t ttype0=254, tnum0=1; static uint16_t tinh0=0, tev0=20;
static uint8_t big[2000]; static CO_OBJ_DOM bigdom={0,2000,big};
int main(int argc,char**argv){ int t=atoi(argv[1]);
  mandatory();
  add(CO_KEY(0x2100,1,CO_OBJ___APRW),CO_TUNSIGNED8,(CO_DATA)&v8a);
  add(CO_KEY(0x2100,2,CO_OBJ_____RW),CO_TUNSIGNED32,(CO_DATA)&v32);
  add(CO_KEY(0x2001,0,CO_OBJ_____RW),CO_TDOMAIN,(CO_DATA)&bigdom);
  add(CO_KEY(0x1800,0,CO_OBJ_D___R_),CO_TUNSIGNED8,5);
  add(CO_KEY(0x1800,1,CO_OBJ_____RW),CO_TPDO_ID,(CO_DATA)&tid0);
  add(CO_KEY(0x1800,2,CO_OBJ_____RW),CO_TPDO_TYPE,(CO_DATA)&ttype0);
  add(CO_KEY(0x1800,3,CO_OBJ_____RW),CO_TUNSIGNED16,(CO_DATA)&tinh0);
  add(CO_KEY(0x1800,5,CO_OBJ_____RW),CO_TPDO_EVENT,(CO_DATA)&tev0);
  add(CO_KEY(0x1A00,0,CO_OBJ_____RW),CO_TPDO_NUM,(CO_DATA)&tnum0);
  add(CO_KEY(0x1A00,1,CO_OBJ_____RW),CO_TPDO_MAP,(CO_DATA)&tmap0[0]);
  start(1000);
  if(t==1){ // D34: OP -> PREOP -> OP within event period (20 ticks)
    rx(0,2,1,1,0,0,0,0,0,0); tick(25); printf("-- preop/op toggle at %ld\n",Tick);
    rx(0,2,128,1,0,0,0,0,0,0); tick(2); rx(0,2,1,1,0,0,0,0,0,0); tick(70);
  }
  if(t==2){ // D32: block download 2 bytes into UNSIGNED32
    v32=0x11223344;
    rx(0x601,8,0xC2,0x00,0x21,2, 2,0,0,0); dumptx("init size=2");
    rx(0x601,8,0x81,0xAA,0xBB,0,0,0,0,0); dumptx("seg");
    rx(0x601,8,0xC1|(5<<2),0,0,0,0,0,0,0); dumptx("end"); printf("v32=%08X err=%d\n",v32,CONodeGetErr(&Node));
  }
  if(t==3){ // D33: A3 without initiate, fresh (poisoned) node
    rx(0x601,8,0xA3,0,0,0,0,0,0,0); printf("frames=%d\n",TxN);
  }
  if(t==4){ // D33 variant: after a completed segmented upload of big domain, A3
    memset(big,0x77,sizeof big);
    rx(0x601,8,0xA0,0x01,0x20,0,127,0,0,0); TxN=0; rx(0x601,8,0xA3,0,0,0,0,0,0,0); TxN=0; rx(0x601,8,0x80,0,0,0,0,0,0,0); TxN=0; // open+abort
    rx(0x601,8,0xA3,0,0,0,0,0,0,0); printf("frames after abort + A3 = %d\n",TxN); if(TxN) dumptx("leak");
  }
  return 0; }
