#include "mini.h"
static uint32_t c1=0x600,c2=0x580; static uint8_t c3=2;
static void done(CO_CSDO*c,uint16_t i,uint8_t s,uint32_t code){printf("  CALLBACK idx=%04X:%d code=%08X at %ld\n",i,s,code,Tick);}
static uint8_t big[600];
static uint8_t domdata[300]; static CO_OBJ_DOM dom={7,300,domdata};
int main(int argc,char**argv){ int t=atoi(argv[1]);
  mandatory();
  add(CO_KEY(0x1280,0,CO_OBJ_D___R_),CO_TUNSIGNED8,3);
  add(CO_KEY(0x1280,1,CO_OBJ_____RW),CO_TUNSIGNED32,(CO_DATA)&c1);
  add(CO_KEY(0x1280,2,CO_OBJ_____RW),CO_TUNSIGNED32,(CO_DATA)&c2);
  add(CO_KEY(0x1280,3,CO_OBJ_____RW),CO_TUNSIGNED8,(CO_DATA)&c3);
  if(t==1){ // stale timeout aborts next transfer
    start(1000); CO_CSDO*c=COCSdoFind(&Node,0); static uint32_t v=0x11223344;
    printf("req=%d\n",COCSdoRequestDownload(c,CO_DEV(0x2000,1),(uint8_t*)&v,4,done,50)); dumptx("req");
    tick(5); rx(0x582,8,0x60,0x00,0x20,1,0,0,0,0);
    tick(20); printf("req2=%d\n",COCSdoRequestDownload(c,CO_DEV(0x2000,2),(uint8_t*)&v,4,done,1000)); dumptx("req2");
    tick(40);
  }
  if(t==2){ // 263 byte segmented download
    start(1000); CO_CSDO*c=COCSdoFind(&Node,0); for(int i=0;i<600;i++)big[i]=i;
    COCSdoRequestDownload(c,CO_DEV(0x2000,1),big,263,done,50); dumptx("req");
    rx(0x582,8,0x60,0x00,0x20,1,0,0,0,0); dumptx("seg");
    rx(0x582,8,0x20,0,0,0,0,0,0,0); dumptx("seg");
  }
  if(t==3){ // first dict entry init skipped: put domain as very first entry (index 0x0FFF)
    DictN=0; memset(Dict,0,sizeof Dict); add(CO_KEY(0x0FFF,0,CO_OBJ_____RW),CO_TDOMAIN,(CO_DATA)&dom); 
    add(CO_KEY(0x1001,0,CO_OBJ____PR_),CO_TUNSIGNED8,(CO_DATA)&errreg);
    start(1000); printf("dom.Offset after init = %u (want 0)\n",dom.Offset);
    static uint8_t buf[300]; for(int i=0;i<300;i++)domdata[i]=i; memset(buf,0xEE,300);
    printf("rdbuf=%d ",CODictRdBuffer(&Node.Dict,CO_DEV(0x0FFF,0),buf,300)); printf("buf[43]=%02X buf[44]=%02X buf[299]=%02X\n",buf[43],buf[44],buf[299]);
  }
  if(t==4){ // ticks
    CO_TMR tm; tm.Freq=300; printf("300Hz 100ms -> %u (exact 30)\n",COTmrGetTicks(&tm,100,1000)); tm.Freq=1500; printf("1500Hz 100ms -> %u (exact 150)\n",COTmrGetTicks(&tm,100,1000));
    tm.Freq=2500; printf("2500Hz 2x100us -> %u (exact 0.5) ; 4x100us -> %u (exact 1)\n",COTmrGetTicks(&tm,2,10000),COTmrGetTicks(&tm,4,10000));
  }
  if(t==5){ // sticky SYNC_RES
    static uint32_t cyc=5000; syncid=0x40000080; add(CO_KEY(0x1006,0,CO_OBJ_____RW),CO_TSYNC_CYCLE,(CO_DATA)&cyc);
    start(1000);
    rx(0x601,8,0x23,0x06,0x10,0, 50,0,0,0); dumptx("wr 50us");
    rx(0x601,8,0x23,0x06,0x10,0, 0x10,0x27,0,0); dumptx("wr 10000us"); printf("cyc=%u\n",cyc);
    tick(25);
  }
  return 0; }
