#include "mini.h"
// scratch: C08 prototype - service injected at lock boundaries, deferred process, interval oracle + pool conservation
#define CAP 4
static int locked; static int inject_budget; static long svc; // svc = number of service calls (ticks)
static int fired[256]; static int lastfire_tag=-1;
struct M { int active; long lo,hi; uint32_t cyc; int id; int deleted; long created; } m[256]; static int tags; static int nact;
static char log[20000]; static int lp; static long c; static int bad;
static void pool_check(const char*where);
static void maybe_service(void){ if(inject_budget>0 && rand()%3==0){ inject_budget--; svc++; Tick++; COTmrService(&Node.Tmr); lp+=sprintf(log+lp,"<svc@%ld> ",svc); pool_check("svc"); } }
void COTmrLock(void){ if(locked){printf("nested lock\n");bad=1;} maybe_service(); locked=1; }
void COTmrUnlock(void){ locked=0; maybe_service(); }
static long proc_start; 
static void cb(void*p){ int t=(int)(long)p; struct M*a=&m[t]; lp+=sprintf(log+lp,"[cb%d@%ld] ",t,svc);
  if(!a->active){ printf("case %ld: callback of inactive/deleted action %d\n%s\n",c,t,log); bad=1; return; }
  if(svc<a->lo){ printf("case %ld: action %d fired early at %ld (lo %ld)\n%s\n",c,t,svc,a->lo,log); bad=1; }
  fired[t]++;
  if(a->cyc){ /* re-armed somewhere between proc_start.. now (before callback) */ a->lo=proc_start + a->cyc; if(a->lo < a->hi) {} a->lo = (a->lo); a->hi=svc+a->cyc; if(a->lo>a->hi) a->lo=a->hi; }
  else { a->active=0; nact--; }
}
static void pool_check(const char*where){ CO_TMR*t=&Node.Tmr; int nf=0,nu=0,ne=0,na=0,nua=0; 
  for(CO_TMR_TIME*x=t->Free;x;x=x->Next){ if(++nf>CAP+1)break; }
  for(CO_TMR_TIME*x=t->Use;x;x=x->Next){ if(++nu>CAP+1)break; if(!x->Action){printf("case %ld: empty event in Use (%s)\n%s\n",c,where,log);bad=1;} for(CO_TMR_ACTION*a=x->Action;a;a=a->Next) if(++nua>CAP+1)break; }
  for(CO_TMR_TIME*x=t->Elapsed;x;x=x->Next){ if(++ne>CAP+1)break; if(!x->Action){printf("case %ld: empty event in Elapsed (%s)\n%s\n",c,where,log);bad=1;} for(CO_TMR_ACTION*a=x->Action;a;a=a->Next) if(++nua>CAP+1)break; }
  for(CO_TMR_ACTION*a=t->Acts;a;a=a->Next){ if(++na>CAP+1)break; }
  if(nf+nu+ne!=CAP){ printf("case %ld: time slots free %d use %d elapsed %d != %d (%s)\n%s\n",c,nf,nu,ne,CAP,where,log); bad=1; }
  if(!locked && na+nua!=CAP && strcmp(where,"svc")){ printf("case %ld: action slots free %d used %d != %d (%s)\n%s\n",c,na,nua,CAP,where,log); bad=1; }
}
int main(int argc,char**argv){ unsigned seed=atoi(argv[1]); long cases=atol(argv[2]);
  memset(&Node,0,sizeof Node); Node.If.Drv=&Drv;
  for(c=0;c<cases && !bad;c++){ srand(seed+c); static CO_TMR_MEM mem[CAP]; lp=0; log[0]=0;
    inject_budget=0; locked=0; COTmrInit(&Node.Tmr,&Node,mem,CAP,1000); TmrCnt=0; Tick=0; svc=0; tags=0; nact=0; memset(m,0,sizeof m); memset(fired,0,sizeof fired);
    for(int step=0;step<40 && !bad;step++){ int op=rand()%12; inject_budget=rand()%3;
      if(op<4 && tags<200){ uint32_t st=rand()%5, cy=rand()%4; long before=svc; int id=COTmrCreate(&Node.Tmr,st,cy,cb,(void*)(long)tags);
        lp+=sprintf(log+lp,"create#%d(%u,%u)=%d; ",tags,st,cy,id);
        int expectfail=(st==0&&cy==0)||nact>=CAP; if((id<0)!=expectfail){ printf("case %ld: create mismatch id %d nact %d\n%s\n",c,id,nact,log); bad=1; }
        if(id>=0){ struct M*a=&m[tags]; a->active=1; a->cyc=cy; a->id=id; a->lo=before+(st?st:cy); a->hi=svc+(st?st:cy); nact++; } tags++; }
      else if(op<6 && tags>0){ int tg=rand()%tags; int holder=-1; for(int k=0;k<tags;k++) if(m[k].active&&m[k].id==m[tg].id) holder=k;
        int r=COTmrDelete(&Node.Tmr,m[tg].id); lp+=sprintf(log+lp,"delete(id%d)=%d; ",m[tg].id,r);
        // holder may have fired (one-shot) during injected service? no: callbacks only in process. so holder stays valid.
        if((r==0)!=(holder>=0)){ printf("case %ld: delete mismatch r %d holder %d\n%s\n",c,r,holder,log); bad=1; }
        if(holder>=0 && r==0){ m[holder].active=0; nact--; } }
      else if(op<9){ svc++; Tick++; COTmrService(&Node.Tmr); lp+=sprintf(log+lp,"svc@%ld; ",svc); }
      else { proc_start=svc; lp+=sprintf(log+lp,"process{ "); COTmrProcess(&Node.Tmr); lp+=sprintf(log+lp,"} ");
        for(int k=0;k<tags;k++) if(m[k].active && m[k].hi<=proc_start && m[k].hi>=0){ /* due before process started: must have fired -> its window must have moved */ printf("case %ld: action %d due hi %ld <= process start %ld not run\n%s\n",c,k,m[k].hi,proc_start,log); bad=1; break; } }
      if(!locked) pool_check("step");
    }
  }
  if(!bad) printf("ok %ld\n",cases); return bad; }
