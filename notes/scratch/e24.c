#include "mini.h"
// scratch: NMT FSM + gating differential (C09 prototype)
static uint8_t v8a; static uint32_t rid0=0x201, rmap0[1]={0x21000108}; static uint8_t rtype0=254, rnum0=1;
static uint32_t tid0=0x40000181, tmap0[1]={0x21000108}; static uint8_t ttype0=254, tnum0=1; static uint16_t tinh0=0, tev0=0;
static uint8_t n1016=1; static CO_HBCONS hc0;
static int appfr, modecb[8], nmodecb, resetreq, hbch;
void COIfCanReceive(CO_IF_FRM*f){ appfr++; } void CONmtModeChange(CO_NMT*n,CO_MODE m){ if(nmodecb<8) modecb[nmodecb]=m; nmodecb++; }
void CONmtResetRequest(CO_NMT*n,CO_NMT_RESET r){ resetreq++; } void CONmtHbConsChange(CO_NMT*n,uint8_t id,CO_MODE m){ hbch++; }
#define FAIL(...) do{printf("case %ld step %d mode %d: ",c,step,mode);printf(__VA_ARGS__);printf("\n%s\n",log);return 1;}while(0)
int main(int argc,char**argv){ unsigned seed=atoi(argv[1]); long cases=atol(argv[2]);
  for(long c=0;c<cases;c++){ srand(seed+c); char log[8000]; int lp=0; log[0]=0; int step=0;
    mandatory(); hbt=0; v8a=0; memset(&hc0,0,sizeof hc0); hc0.Tmr=-1; hc0.Time=50; hc0.NodeId=9;
    add(CO_KEY(0x1016,0,CO_OBJ_____R_),CO_THB_CONS,(CO_DATA)&n1016); add(CO_KEY(0x1016,1,CO_OBJ_____RW),CO_THB_CONS,(CO_DATA)&hc0);
    add(CO_KEY(0x2100,1,CO_OBJ____PRW),CO_TUNSIGNED8,(CO_DATA)&v8a);
    add(CO_KEY(0x1400,0,CO_OBJ_D___R_),CO_TUNSIGNED8,2); add(CO_KEY(0x1400,1,CO_OBJ_____RW),CO_TPDO_ID,(CO_DATA)&rid0); add(CO_KEY(0x1400,2,CO_OBJ_____RW),CO_TPDO_TYPE,(CO_DATA)&rtype0);
    add(CO_KEY(0x1600,0,CO_OBJ_____RW),CO_TPDO_NUM,(CO_DATA)&rnum0); add(CO_KEY(0x1600,1,CO_OBJ_____RW),CO_TPDO_MAP,(CO_DATA)&rmap0[0]);
    add(CO_KEY(0x1800,0,CO_OBJ_D___R_),CO_TUNSIGNED8,5); add(CO_KEY(0x1800,1,CO_OBJ_____RW),CO_TPDO_ID,(CO_DATA)&tid0); add(CO_KEY(0x1800,2,CO_OBJ_____RW),CO_TPDO_TYPE,(CO_DATA)&ttype0);
    add(CO_KEY(0x1800,3,CO_OBJ_____RW),CO_TUNSIGNED16,(CO_DATA)&tinh0); add(CO_KEY(0x1800,5,CO_OBJ_____RW),CO_TPDO_EVENT,(CO_DATA)&tev0); add(CO_KEY(0x1A00,0,CO_OBJ_____RW),CO_TPDO_NUM,(CO_DATA)&tnum0); add(CO_KEY(0x1A00,1,CO_OBJ_____RW),CO_TPDO_MAP,(CO_DATA)&tmap0[0]);
    { CO_NODE_SPEC s; memset(&Node,0xA5,sizeof Node); free(SdoBuf); SdoBuf=malloc(CO_SDO_BUF_BYTE);
      s.NodeId=1;s.Baudrate=250000;s.Dict=Dict;s.DictLen=MAXOBJ;s.EmcyCode=EmTbl;s.TmrMem=TmrMem;s.TmrNum=16;s.TmrFreq=1000;s.Drv=&Drv;s.SdoBuf=SdoBuf;
      RxN=RxR=TxN=0; nmodecb=0; CONodeInit(&Node,&s); }
    int mode=1; int started=rand()%3!=0; if(started){ TxN=0; CONodeStart(&Node); mode=2; if(TxN!=1||TxQ[0].Identifier!=0x701||TxQ[0].DLC!=1||TxQ[0].Data[0]!=0) FAIL("bootup at start"); }
    int emact=0;
    for(step=0;step<50;step++){ int op=rand()%16; TxN=0; appfr=0; nmodecb=0; resetreq=0; hbch=0; int em[4],nem=0; int boot=0;
      if(op<5){ uint8_t cs=(uint8_t[]){1,2,128,129,130,7,0}[rand()%7]; uint8_t tg=(uint8_t[]){1,0,2}[rand()%3]; lp+=sprintf(log+lp,"nmt(%d,%d) ",cs,tg); rx(0,2,cs,tg,0,0,0,0,0,0);
        if(mode==2||mode==3||mode==4){ if(tg!=2){ int nm=mode; if(cs==1)nm=3; else if(cs==2)nm=4; else if(cs==128)nm=2; else if(cs==129||cs==130){ em[nem++]=1; em[nem++]=2; boot=1; nm=2; emact=0; if(resetreq!=1) FAIL("reset request cb %d",resetreq); }
             if(!(cs==129||cs==130) && nm!=mode) em[nem++]=nm; mode=nm; } if(appfr) FAIL("nmt frame to app"); }
        else { /* INIT: nothing allowed */ if(appfr!=1) FAIL("frame in INIT not handed to app (%d)",appfr); } }
      else if(op==5){ int nm=2+rand()%3; if(mode!=1){ lp+=sprintf(log+lp,"api%d ",nm); CONmtSetMode(&Node.Nmt,(CO_MODE)nm); if(nm!=mode) em[nem++]=nm; mode=nm; } }
      else if(op==6){ lp+=sprintf(log+lp,"start "); CONodeStart(&Node); if(mode==1){ mode=2; em[nem++]=2; boot=1; } }
      else if(op==7){ lp+=sprintf(log+lp,"sdo "); rx(0x601,8,0x40,0x00,0x10,0,0,0,0,0); int ans=(mode==2||mode==3); if(TxN!=ans) FAIL("sdo answers %d",TxN); if(appfr!=(ans?0:(mode==0?0:1))) FAIL("sdo frame app %d",appfr); TxN=0; }
      else if(op==8){ uint8_t nv=rand()|1; lp+=sprintf(log+lp,"rpdo "); uint8_t old=v8a; rx(0x201,1,nv^old?nv:nv+2,0,0,0,0,0,0,0); if(mode==3){ if(v8a==old) FAIL("rpdo not applied in OP"); if(appfr) FAIL("rpdo to app in OP"); } else { if(v8a!=old) FAIL("rpdo applied outside OP"); if(appfr!=1) FAIL("rpdo frame not to app outside OP: %d",appfr);} }
      else if(op==9){ lp+=sprintf(log+lp,"sync "); rx(0x80,0,0,0,0,0,0,0,0,0); int cons=(mode==2||mode==3); if(appfr!=(cons?0:1)) FAIL("sync app %d",appfr); }
      else if(op==10){ lp+=sprintf(log+lp,"hb "); uint8_t s=(uint8_t[]){0,127,5,4}[rand()%4]; int prev=hc0.State; rx(0x709,1,s,0,0,0,0,0,0,0); int cons=(mode==2||mode==3||mode==4); if(appfr!=(cons?0:1)) FAIL("hb app %d",appfr); if(!cons&&hbch) FAIL("hb consumed in INIT"); }
      else if(op==11){ lp+=sprintf(log+lp,"foreign "); rx(0x123,8,1,2,3,4,5,6,7,8); if(appfr!=1) FAIL("foreign frame app %d",appfr); if(TxN) FAIL("tx on foreign"); }
      else if(op==12){ lp+=sprintf(log+lp,"lss "); rx(0x7E5,8,4,1,0,0,0,0,0,0); rx(0x7E5,8,94,0,0,0,0,0,0,0); if(TxN!=1||TxQ[0].Identifier!=0x7E4) FAIL("lss answer %d",TxN); if(appfr) FAIL("lss to app"); TxN=0; }
      else if(op==13){ int on=!emact; lp+=sprintf(log+lp,"emcy%d ",on); if(on) COEmcySet(&Node.Emcy,1,0); else COEmcyClr(&Node.Emcy,1); emact=on; int e=(mode==2||mode==3); if(TxN!=e) FAIL("emcy frames %d",TxN); TxN=0; }
      else if(op==14){ lp+=sprintf(log+lp,"trig "); COTPdoTrigPdo(Node.TPdo,0); int e=(mode==3); if(TxN!=e) FAIL("tpdo frames %d",TxN); TxN=0; }
      else { lp+=sprintf(log+lp,"hbprod "); /* set hb time and tick once */ }
      if((int)CONmtGetMode(&Node.Nmt)!=mode) FAIL("mode %d exp %d",CONmtGetMode(&Node.Nmt),mode);
      if(nmodecb!=nem) FAIL("mode callbacks %d exp %d",nmodecb,nem); for(int k=0;k<nem;k++) if(modecb[k]!=em[k]) FAIL("mode cb %d exp %d",modecb[k],em[k]);
      int nb=0; for(int k=0;k<TxN;k++) if(TxQ[k].Identifier==0x701&&TxQ[k].DLC==1&&TxQ[k].Data[0]==0) nb++; if(nb!=boot) FAIL("bootup frames %d exp %d",nb,boot);
    }
  }
  printf("ok %ld\n",cases); return 0; }
