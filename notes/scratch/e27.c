#include "mini.h"
// scratch: heartbeat producer schedule under interference (C10 prototype)
static uint8_t v8a; static uint32_t tid0=0x40000181, tmap0[1]={0x21000108}; static uint8_t ttype0=254, tnum0=1; static uint16_t tinh0, tev0; static uint32_t cyc;
static void appcb(void*p){}
#define FAIL(...) do{printf("case %ld step %d T=%ld: ",c,step,T);printf(__VA_ARGS__);printf("\n%s\n",log);return 1;}while(0)
int main(int argc,char**argv){ unsigned seed=atoi(argv[1]); long cases=atol(argv[2]);
  for(long c=0;c<cases;c++){ srand(seed+c); char log[8000]; int lp=0; log[0]=0; int step=0; long T=0;
    mandatory(); hbt=(uint16_t[]){0,3,7,12}[rand()%4]; syncid=0x80|(rand()%2?0x40000000u:0); cyc=1000*(2+rand()%4); tinh0=rand()%2?30:0; tev0=rand()%2?5:0; v8a=0;
    add(CO_KEY(0x1006,0,CO_OBJ_____RW),CO_TSYNC_CYCLE,(CO_DATA)&cyc); add(CO_KEY(0x2100,1,CO_OBJ___APRW),CO_TUNSIGNED8,(CO_DATA)&v8a);
    add(CO_KEY(0x1800,0,CO_OBJ_D___R_),CO_TUNSIGNED8,5); add(CO_KEY(0x1800,1,CO_OBJ_____RW),CO_TPDO_ID,(CO_DATA)&tid0); add(CO_KEY(0x1800,2,CO_OBJ_____RW),CO_TPDO_TYPE,(CO_DATA)&ttype0);
    add(CO_KEY(0x1800,3,CO_OBJ_____RW),CO_TUNSIGNED16,(CO_DATA)&tinh0); add(CO_KEY(0x1800,5,CO_OBJ_____RW),CO_TPDO_EVENT,(CO_DATA)&tev0); add(CO_KEY(0x1A00,0,CO_OBJ_____RW),CO_TPDO_NUM,(CO_DATA)&tnum0); add(CO_KEY(0x1A00,1,CO_OBJ_____RW),CO_TPDO_MAP,(CO_DATA)&tmap0[0]);
    { CO_NODE_SPEC s; memset(&Node,0xA5,sizeof Node); free(SdoBuf); SdoBuf=malloc(CO_SDO_BUF_BYTE);
      s.NodeId=1;s.Baudrate=250000;s.Dict=Dict;s.DictLen=MAXOBJ;s.EmcyCode=EmTbl;s.TmrMem=TmrMem;s.TmrNum=16;s.TmrFreq=1000;s.Drv=&Drv;s.SdoBuf=SdoBuf; RxN=RxR=TxN=0; CONodeInit(&Node,&s); CONodeStart(&Node); TxN=0; }
    long per=hbt, due= hbt? hbt:-1; int mode=2; int apptm[4]={-1,-1,-1,-1};
    for(step=0;step<150;step++){ int op=rand()%20; TxN=0; if(getenv("V")) printf("  op %d\n",op);
      if(op<9){ if(COTmrService(&Node.Tmr)>0)COTmrProcess(&Node.Tmr); T++; lp+=sprintf(log+lp,"t "); if(getenv("V")) printf("T=%ld txn=%d NmtTmr=%d due=%ld per=%ld mode=%d p0 Ev %d In %d Flags %x\n",T,TxN,Node.Nmt.Tmr,due,per,mode,Node.TPdo[0].EvTmr,Node.TPdo[0].InTmr,Node.TPdo[0].Flags); int e=0; if(due==T){ due=T+per; e=1; }
        int got=0; for(int k=0;k<TxN;k++) if(TxQ[k].Identifier==0x701){ got++; uint8_t st= mode==2?127: mode==3?5:4; if(TxQ[k].DLC!=1||TxQ[k].Data[0]!=st) FAIL("hb content %02X exp %02X",TxQ[k].Data[0],st); } if(got!=e) FAIL("heartbeats %d exp %d (due %ld)",got,e,due); }
      else if(op==9){ uint16_t t=(uint16_t[]){0,3,7,12,25}[rand()%5]; int api=rand()%2; lp+=sprintf(log+lp,"hbt=%d%s ",t,api?"(api)":""); if(api) CODictWrWord(&Node.Dict,CO_DEV(0x1017,0),t); else { if(mode==4) continue; rx(0x601,8,0x2B,0x17,0x10,0,t&0xFF,t>>8,0,0); } per=t; due=t?T+t:-1; }
      else if(op==10){ int m=rand()%3; lp+=sprintf(log+lp,"nmt%d ",m); rx(0,2,m==0?1:m==1?128:2,1,0,0,0,0,0,0); mode= m==0?3: m==1?2:4; }
      else if(op==11){ uint16_t ev=(uint16_t[]){0,4,9}[rand()%3]; lp+=sprintf(log+lp,"ev=%d ",ev); rx(0x601,8,0x2B,0x00,0x18,5,ev&0xFF,ev>>8,0,0); }
      else if(op==12){ lp+=sprintf(log+lp,"trig "); COTPdoTrigPdo(Node.TPdo,0); }
      else if(op==13){ CODictWrByte(&Node.Dict,CO_DEV(0x2100,1),rand()%3); }
      else if(op==14){ uint32_t v=0x80|(rand()%2?0x40000000u:0); rx(0x601,8,0x23,0x05,0x10,0,v&0xFF,0,0,v>>24); }
      else if(op==15){ uint32_t v=1000*(rand()%6); rx(0x601,8,0x23,0x06,0x10,0,v&0xFF,(v>>8)&0xFF,(v>>16)&0xFF,0); }
      else if(op==16){ int k=rand()%4; if(apptm[k]<0) apptm[k]=COTmrCreate(&Node.Tmr,rand()%6,1+rand()%5,appcb,0); else { COTmrDelete(&Node.Tmr,apptm[k]); apptm[k]=-1; } }
      else if(op==17){ rx(0x80,0,0,0,0,0,0,0,0,0); }
      else if(op==18){ uint32_t v= (rand()%2)?0xC0000181:0x40000181; rx(0x601,8,0x23,0x00,0x18,1,v&0xFF,(v>>8)&0xFF,(v>>16)&0xFF,v>>24); }
      else { rx(0x601,8,0x2F,0x00,0x18,2,(uint8_t[]){254,255,1,2}[rand()%4],0,0,0); }
    }
  }
  printf("ok %ld\n",cases); return 0; }
