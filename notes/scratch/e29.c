#include "mini.h"
// scratch: dictionary lookup / typed access / buffer / init-walk (C06 prototype)
static int initcnt[64];
static CO_ERR cinit_(struct CO_OBJ_T*o,struct CO_NODE_T*n){ initcnt[o->Data]++; return CO_ERR_NONE; }
static uint32_t csize(struct CO_OBJ_T*o,struct CO_NODE_T*n,uint32_t w){ return 1; }
static const CO_OBJ_TYPE CntType={csize,cinit_,0,0,0};
#define FAIL(...) do{printf("FAIL: ");printf(__VA_ARGS__);printf("\n");return 1;}while(0)
int main(int argc,char**argv){
  // (i) exhaustive dictionaries over a universe of 8 keys
  uint32_t uni[8]; int k=0; for(int idx=0x2000;idx<0x2003;idx++) for(int sub=0;sub<3&&k<8;sub++) uni[k++]=CO_KEY(idx,sub,0);
  long probes=0,dicts=0; CO_DICT cod; memset(&Node,0,sizeof Node);
  for(int mask=0;mask<256;mask++){ int n=__builtin_popcount(mask); CO_OBJ*arr=malloc(sizeof(CO_OBJ)*(n+1)); int j=0; for(int i=0;i<8;i++) if(mask&(1<<i)){ arr[j].Key=uni[i]|((i*37)&0xFF); arr[j].Type=&CntType; arr[j].Data=j; j++; } arr[n].Key=0;arr[n].Type=0;arr[n].Data=0;
    int r=CODictInit(&cod,&Node,arr,n+1); if(r!=n) FAIL("dict init count %d exp %d",r,n); dicts++;
    memset(initcnt,0,sizeof initcnt); CODictObjInit(&cod,&Node); for(int q=0;q<n;q++) if(initcnt[q]!=1) FAIL("init count of entry %d/%d = %d",q,n,initcnt[q]);
    for(int i=0;i<8;i++) for(int fl=0;fl<4;fl++){ uint32_t key=uni[i]|(uint32_t[]){0,0x01,0x80,0xFF}[fl]; CO_OBJ*f=CODictFind(&cod,key); CO_OBJ*e=0; for(int q=0;q<n;q++) if(CO_GET_DEV(arr[q].Key)==CO_GET_DEV(key)) e=&arr[q]; probes++; if(f!=e) FAIL("lookup mask %02X key %08X",mask,key); }
    uint32_t extra[]={CO_KEY(0x1FFF,0xFF,0),CO_KEY(0x2003,0,0),CO_KEY(0xFFFF,0xFF,0xFF),CO_KEY(0x0001,0,0),CO_KEY(0x2000,3,0),CO_KEY(0x2001,0xFF,0)}; for(int i=0;i<6;i++){ probes++; if(CODictFind(&cod,extra[i])) FAIL("absent key found"); }
    free(arr); }
  // (ii) random large dictionaries
  srand(1); for(int t=0;t<300;t++){ int n=1+rand()%400; CO_OBJ*arr=malloc(sizeof(CO_OBJ)*(n+1)); uint32_t key=0x100000; for(int q=0;q<n;q++){ key+= (1+rand()%5)<<8; arr[q].Key=key|(rand()&0xFF); arr[q].Type=&CntType; arr[q].Data=0; } arr[n].Key=0;arr[n].Type=0;arr[n].Data=0; CODictInit(&cod,&Node,arr,n+1);
    for(int p=0;p<2000;p++){ uint32_t kk= rand()%2? arr[rand()%n].Key : (0x100000+((rand()%(n*6+10))<<8)); CO_OBJ*f=CODictFind(&cod,kk); CO_OBJ*e=0; for(int q=0;q<n;q++) if(CO_GET_DEV(arr[q].Key)==CO_GET_DEV(kk)) e=&arr[q]; probes++; if(f!=e) FAIL("large lookup"); } free(arr); }
  // (iii) typed access
  { static uint8_t r8; static uint16_t r16; static uint32_t r32, n32; CO_OBJ arr[]={{CO_KEY(0x2000,1,CO_OBJ_D___RW),CO_TUNSIGNED8,0},{CO_KEY(0x2000,2,CO_OBJ_____RW),CO_TUNSIGNED8,(CO_DATA)&r8},{CO_KEY(0x2000,3,CO_OBJ_D___RW),CO_TUNSIGNED16,0},{CO_KEY(0x2000,4,CO_OBJ_____RW),CO_TUNSIGNED16,(CO_DATA)&r16},
      {CO_KEY(0x2000,5,CO_OBJ_D___RW),CO_TUNSIGNED32,0},{CO_KEY(0x2000,6,CO_OBJ_____RW),CO_TUNSIGNED32,(CO_DATA)&r32},{CO_KEY(0x2000,7,CO_OBJ__N__RW),CO_TUNSIGNED32,(CO_DATA)&n32},{CO_KEY(0x2000,8,CO_OBJ_DN__RW),CO_TUNSIGNED8,0},{0,0,0}};
    CODictInit(&cod,&Node,arr,9);
    for(int nid=1;nid<=127;nid+=9){ Node.NodeId=nid;
      for(int v=0;v<256;v++){ uint8_t g; for(int s=1;s<=2;s++){ if(CODictWrByte(&cod,CO_DEV(0x2000,s),v)||CODictRdByte(&cod,CO_DEV(0x2000,s),&g)||g!=v) FAIL("byte rt"); } if(CODictWrByte(&cod,CO_DEV(0x2000,8),v)||CODictRdByte(&cod,CO_DEV(0x2000,8),&g)||g!=v||(uint8_t)arr[7].Data!=(uint8_t)(v-nid)) FAIL("nodeid byte"); }
      for(int v=0;v<65536;v+=1){ uint16_t g; for(int s=3;s<=4;s++){ if(CODictWrWord(&cod,CO_DEV(0x2000,s),v)||CODictRdWord(&cod,CO_DEV(0x2000,s),&g)||g!=v) FAIL("word rt"); } }
      for(int t=0;t<20000;t++){ uint32_t v= t<8? (uint32_t[]){0,1,0x7FFFFFFF,0x80000000,0xFFFFFFFF,0xFFFFFFFE,0xFF,0x100}[t] : ((uint32_t)rand()<<16)^rand(); uint32_t g; for(int s=5;s<=6;s++){ if(CODictWrLong(&cod,CO_DEV(0x2000,s),v)||CODictRdLong(&cod,CO_DEV(0x2000,s),&g)||g!=v) FAIL("long rt"); } if(CODictWrLong(&cod,CO_DEV(0x2000,7),v)||CODictRdLong(&cod,CO_DEV(0x2000,7),&g)||g!=v||n32!=v-nid) FAIL("nodeid long"); } }
    uint8_t b; uint16_t w; uint32_t l; r16=0x1234; if(CODictRdByte(&cod,CO_DEV(0x2000,4),&b)==CO_ERR_NONE||CODictRdLong(&cod,CO_DEV(0x2000,4),&l)==CO_ERR_NONE||CODictWrByte(&cod,CO_DEV(0x2000,4),1)==CO_ERR_NONE||CODictWrLong(&cod,CO_DEV(0x2000,4),1)==CO_ERR_NONE||r16!=0x1234) FAIL("width mismatch on 16-bit");
    r8=0x55; if(CODictRdWord(&cod,CO_DEV(0x2000,2),&w)==CO_ERR_NONE||CODictWrWord(&cod,CO_DEV(0x2000,2),7)==CO_ERR_NONE||r8!=0x55) FAIL("width mismatch on 8-bit");
    r32=0x11223344; if(CODictRdWord(&cod,CO_DEV(0x2000,6),&w)==CO_ERR_NONE||CODictWrByte(&cod,CO_DEV(0x2000,6),7)==CO_ERR_NONE||r32!=0x11223344) FAIL("width mismatch on 32-bit"); }
  // (iv) buffer access on domains
  { srand(2); for(int t=0;t<3000;t++){ uint32_t size=1+rand()%4000; uint8_t*store=malloc(size); CO_OBJ_DOM d={0,size,store}; CO_OBJ arr[]={{CO_KEY(0x2000,0,CO_OBJ_____RW),CO_TDOMAIN,(CO_DATA)&d},{0,0,0}}; CODictInit(&cod,&Node,arr,2);
      for(uint32_t i=0;i<size;i++) store[i]=rand(); uint32_t len= rand()%3==0? size : rand()%3==0? 250+rand()%20 : rand()%4001; uint8_t*buf=malloc(len+1); uint8_t*ref=malloc(size); memcpy(ref,store,size); memset(buf,0xEE,len+1); d.Offset=rand()%(size+1);
      if(CODictRdBuffer(&cod,CO_DEV(0x2000,0),buf,len)) FAIL("rdbuf err"); uint32_t m=len<size?len:size; if(memcmp(buf,ref,m)) FAIL("rdbuf data size %u len %u",size,len); for(uint32_t i=m;i<len+1;i++) if(buf[i]!=0xEE) FAIL("rdbuf wrote beyond min(len,size): size %u len %u at %u",size,len,i); if(memcmp(store,ref,size)) FAIL("rdbuf changed object");
      for(uint32_t i=0;i<len;i++) buf[i]=rand(); if(CODictWrBuffer(&cod,CO_DEV(0x2000,0),buf,len)) FAIL("wrbuf err"); if(memcmp(store,buf,m)) FAIL("wrbuf data size %u len %u",size,len); if(memcmp(store+m,ref+m,size-m)) FAIL("wrbuf touched beyond"); free(store);free(buf);free(ref); } }
  printf("ok: %ld dictionaries, %ld probes\n",dicts,probes); return 0; }
