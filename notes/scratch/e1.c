#include "mini.h"
static uint8_t domdata[4]={1,2,3,4}; static CO_OBJ_DOM dom={0,4,domdata};
static uint8_t big[2000]; static CO_OBJ_DOM bigdom={0,2000,big};
int main(int argc,char**argv){ int t=atoi(argv[1]);
  mandatory();
  add(CO_KEY(0x2000,0,CO_OBJ_____RW),CO_TDOMAIN,(CO_DATA)&dom);
  add(CO_KEY(0x2001,0,CO_OBJ_____RW),CO_TDOMAIN,(CO_DATA)&bigdom);
  for(int i=0;i<2000;i++)big[i]=i;
  start(1000);
  if(t==1){ // small domain expedited upload twice
    rx(0x601,8,0x40,0x00,0x20,0,0,0,0,0); dumptx("up1");
    rx(0x601,8,0x40,0x00,0x20,0,0,0,0,0); dumptx("up2");
  }
  if(t==2){ // disable own SDO server via 1200:1
    rx(0x601,8,0x23,0x00,0x12,1,0x01,0x06,0,0x80); dumptx("wr");
  }
  if(t==3){ // download segments without initiate
    for(int i=0;i<200;i++){ rx(0x601,8,(i&1)?0x13:0x03,1,2,3,4,5,6,7); }
    dumptx("seg");
  }
  if(t==4){ // block upload 2000 bytes blksize 127, ack 1
    rx(0x601,8,0xA0,0x01,0x20,0,127,0,0,0); dumptx("ini");
    rx(0x601,8,0xA3,0,0,0,0,0,0,0); printf("sent %d\n",TxN); TxN=0;
    rx(0x601,8,0xA2,1,127,0,0,0,0,0); printf("sent %d\n",TxN);
  }
  if(t==5){ // block upload blksize 4, ack 1 of 4 -> data check
    rx(0x601,8,0xA0,0x01,0x20,0,4,0,0,0); dumptx("ini");
    rx(0x601,8,0xA3,0,0,0,0,0,0,0); dumptx("blk1");
    rx(0x601,8,0xA2,1,4,0,0,0,0,0); dumptx("blk2");
  }
  if(t==6){ // block download repeated last segment on big domain
    rx(0x601,8,0xC0,0x01,0x20,0,0,0,0,0); dumptx("ini");
    for(int i=0;i<200;i++){ rx(0x601,8,0x81,1,2,3,4,5,6,7);} printf("tx %d\n",TxN);
  }
  return 0; }
