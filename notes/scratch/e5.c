#include "mini.h"
static uint8_t v8a; static uint32_t tid0=0xC0000181, tmap0[1]={0x21000108}; static uint8_t ttype0=254, tnum0=1; static uint16_t tinh0=0, tev0=0;
void CONmtModeChange(CO_NMT*n,CO_MODE m){printf("  modechange -> %d\n",m);}
void COIfCanReceive(CO_IF_FRM*f){printf("  app frame id=%X\n",f->Identifier);}
int main(int argc,char**argv){ int t=atoi(argv[1]);
  mandatory();
  add(CO_KEY(0x2100,1,CO_OBJ___APRW),CO_TUNSIGNED8,(CO_DATA)&v8a);
  add(CO_KEY(0x1800,0,CO_OBJ_D___R_),CO_TUNSIGNED8,5);
  add(CO_KEY(0x1800,1,CO_OBJ_____RW),CO_TPDO_ID,(CO_DATA)&tid0);
  add(CO_KEY(0x1800,2,CO_OBJ_____RW),CO_TPDO_TYPE,(CO_DATA)&ttype0);
  add(CO_KEY(0x1800,3,CO_OBJ_____RW),CO_TUNSIGNED16,(CO_DATA)&tinh0);
  add(CO_KEY(0x1800,5,CO_OBJ_____RW),CO_TPDO_EVENT,(CO_DATA)&tev0);
  add(CO_KEY(0x1A00,0,CO_OBJ_____RW),CO_TPDO_NUM,(CO_DATA)&tnum0);
  add(CO_KEY(0x1A00,1,CO_OBJ_____RW),CO_TPDO_MAP,(CO_DATA)&tmap0[0]);
  start(1000);
  if(t==1){ rx(0,2,1,1,0,0,0,0,0,0); COTPdoTrigPdo(Node.TPdo,0); dumptx("trig disabled tpdo0"); COTPdoTrigPdo(Node.TPdo,2); dumptx("trig absent tpdo2");
     CODictWrByte(&Node.Dict,CO_DEV(0x2100,1),7); dumptx("objtrig"); printf("err=%d\n",CONodeGetErr(&Node)); }
  if(t==2){ // NMT probes
    rx(0,2,2,1,0,0,0,0,0,0); printf("mode=%d\n",Node.Nmt.Mode);
    rx(0x123,8,1,2,3,4,5,6,7,8); rx(0x601,8,0x40,0,0x10,0,0,0,0,0); dumptx("sdo in stop");
    rx(0,2,1,2,0,0,0,0,0,0); printf("mode after start other node=%d\n",Node.Nmt.Mode);
    rx(0,2,1,0,0,0,0,0,0,0); printf("mode after start all=%d\n",Node.Nmt.Mode);
    rx(0,2,77,1,0,0,0,0,0,0); printf("mode after unknown cs=%d\n",Node.Nmt.Mode);
    rx(0,2,129,1,0,0,0,0,0,0); dumptx("reset node"); printf("mode=%d\n",Node.Nmt.Mode);
    rx(0x7E5,8,4,1,0,0,0,0,0,0); rx(0x7E5,8,94,0,0,0,0,0,0,0); dumptx("lss inquire");
  }
  return 0; }
