#include "mini.h"
// scratch: parameter store/restore differential with restarts and NVM faults (C17 prototype)
#define NG 3
static uint8_t ram[NG][16], def[NG][16]; static CO_PARA pg[NG+1]; static uint8_t n1010, n1011; static uint8_t allram[1];
static int nvcall, failat; static int defcalls[NG+1];
static uint32_t fnread(uint32_t s,uint8_t*b,uint32_t n){ nvcall++; if(nvcall==failat){ uint32_t k=n/2; memcpy(b,Nvm+s,k); return k; } memcpy(b,Nvm+s,n); return n; }
static uint32_t fnwrite(uint32_t s,uint8_t*b,uint32_t n){ nvcall++; if(nvcall==failat){ uint32_t k=n/2; memcpy(Nvm+s,b,k); return k; } memcpy(Nvm+s,b,n); return n; }
static const CO_IF_NVM_DRV FNDrv={ninit,fnread,fnwrite}; static CO_IF_DRV FDrv={&CanDrv,&TDrv,&FNDrv};
int16_t COParaDefault(CO_PARA*p){ int i=p-pg; defcalls[i]++; if(i>=1&&i<=NG) memcpy(p->Start,p->Default,p->Size); return 0; }
#define FAIL(...) do{printf("case %ld step %d: ",c,step);printf(__VA_ARGS__);printf("\n%s\n",log);return 1;}while(0)
static void initnode(void){ CO_NODE_SPEC s; memset(&Node,0xA5,sizeof Node); free(SdoBuf); SdoBuf=malloc(CO_SDO_BUF_BYTE);
  s.NodeId=1;s.Baudrate=250000;s.Dict=Dict;s.DictLen=MAXOBJ;s.EmcyCode=EmTbl;s.TmrMem=TmrMem;s.TmrNum=16;s.TmrFreq=1000;s.Drv=&FDrv;s.SdoBuf=SdoBuf; RxN=RxR=TxN=0; CONodeInit(&Node,&s); CONodeStart(&Node); TxN=0; }
int main(int argc,char**argv){ unsigned seed=atoi(argv[1]); long cases=atol(argv[2]);
  for(long c=0;c<cases;c++){ srand(seed+c); char log[8000]; int lp=0; log[0]=0; int step=0;
    mandatory(); int ng=1+rand()%NG; n1010=ng+1; n1011=ng+1; uint32_t off=0; int sz[NG+1], en[NG+1], ty[NG+1];
    // sub1 = "all" group (own dummy 1-byte area at the end), sub 2..ng+1 = groups
    for(int g=1;g<=ng;g++){ sz[g]=1+rand()%16; en[g]=rand()%4!=0; ty[g]=1+rand()%2; pg[g].Offset=off; pg[g].Size=sz[g]; pg[g].Start=ram[g-1]; pg[g].Default=def[g-1]; pg[g].Type=ty[g]; pg[g].Ident=0; pg[g].Value=en[g]?CO_PARA___E:0; off+=sz[g]; for(int k=0;k<16;k++){ def[g-1][k]=0xD0+g; ram[g-1][k]=rand(); } }
    pg[0].Offset=off; pg[0].Size=1; pg[0].Start=allram; pg[0].Default=0; pg[0].Type=CO_RESET_NODE; pg[0].Value=CO_PARA___E; pg[0].Ident=0;
    add(CO_KEY(0x1010,0,CO_OBJ_____R_),CO_TPARA_STORE,(CO_DATA)&n1010); add(CO_KEY(0x1011,0,CO_OBJ_____R_),CO_TPARA_RESTORE,(CO_DATA)&n1011);
    add(CO_KEY(0x1010,1,CO_OBJ_____RW),CO_TPARA_STORE,(CO_DATA)&pg[0]); add(CO_KEY(0x1011,1,CO_OBJ_____RW),CO_TPARA_RESTORE,(CO_DATA)&pg[0]);
    for(int g=1;g<=ng;g++){ add(CO_KEY(0x1010,1+g,CO_OBJ_____RW),CO_TPARA_STORE,(CO_DATA)&pg[g]); add(CO_KEY(0x1011,1+g,CO_OBJ_____RW),CO_TPARA_RESTORE,(CO_DATA)&pg[g]); }
    uint8_t mnv[256]; for(int k=0;k<256;k++) Nvm[k]=mnv[k]=rand(); nvcall=0; failat=0; allram[0]=7;
    // expected after init: all groups loaded from nvm (sub1 'all' group too)
    initnode(); for(int g=1;g<=ng;g++){ if(memcmp(ram[g-1],mnv+pg[g].Offset,sz[g])) FAIL("init load group %d",g); } if(CONodeGetErr(&Node)) FAIL("init err");
    for(step=0;step<40;step++){ int op=rand()%10; TxN=0; memset(defcalls,0,sizeof defcalls);
      if(op<2){ int g=1+rand()%ng; for(int k=0;k<sz[g];k++) ram[g-1][k]=rand(); lp+=sprintf(log+lp,"mod%d ",g); }
      else if(op<5){ int sub=1+rand()%(ng+1); int good=rand()%4!=0; uint32_t sig=good?0x65766173:(rand()%2?0x64616F6C:rand()); int dofail=rand()%6==0; nvcall=0; failat=dofail?1+rand()%ng:0;
        lp+=sprintf(log+lp,"save(sub%d,%s%s) ",sub,good?"ok":"badsig",dofail?",fault":""); uint8_t rb[NG][16]; memcpy(rb,ram,sizeof rb); uint8_t nb[256]; memcpy(nb,Nvm,256);
        rx(0x601,8,0x23,0x10,0x10,sub,sig&0xFF,(sig>>8)&0xFF,(sig>>16)&0xFF,sig>>24); if(TxN!=1) FAIL("no resp");
        if(memcmp(rb,ram,sizeof rb)) FAIL("save changed RAM");
        if(!good){ if(TxQ[0].Data[0]!=0x80) FAIL("bad signature accepted"); if(memcmp(nb,Nvm,256)) FAIL("bad signature touched NVM"); }
        else { int faulted=0; int calls=0; // model
          for(int g=1;g<=ng;g++){ int sel= sub==1 || sub==g+1; if(sel&&en[g]){ calls++; if(failat==calls){ faulted=1; break; } memcpy(mnv+pg[g].Offset,rb[g-1],sz[g]); } }
          if(sub==1 && ng+1<=1){} 
          if(faulted){ if(TxQ[0].Data[0]!=0x80) FAIL("NVM short write not reported"); memcpy(mnv,Nvm,256); /* contents unconstrained */ }
          else { if(TxQ[0].Data[0]!=0x60) FAIL("save refused %02X",TxQ[0].Data[0]); if(memcmp(mnv,Nvm,256)) FAIL("NVM image mismatch after save"); } }
        failat=0; }
      else if(op<7){ int sub=1+rand()%(ng+1); int good=rand()%3!=0; uint32_t sig=good?0x64616F6C:0x65766173; lp+=sprintf(log+lp,"load(sub%d,%s) ",sub,good?"ok":"bad"); uint8_t nb[256]; memcpy(nb,Nvm,256); uint8_t rb[NG][16]; memcpy(rb,ram,sizeof rb);
        rx(0x601,8,0x23,0x11,0x10,sub,sig&0xFF,(sig>>8)&0xFF,(sig>>16)&0xFF,sig>>24); if(TxN!=1) FAIL("no resp"); if(memcmp(nb,Nvm,256)) FAIL("restore touched NVM");
        if(!good){ if(TxQ[0].Data[0]!=0x80) FAIL("bad restore signature accepted"); if(memcmp(rb,ram,sizeof rb)) FAIL("bad restore touched RAM"); for(int g=0;g<=ng;g++) if(defcalls[g]) FAIL("default cb on bad sig"); }
        else { if(TxQ[0].Data[0]!=0x60) FAIL("restore refused"); for(int g=1;g<=ng;g++){ int sel=(sub==1||sub==g+1)&&en[g]; if(defcalls[g]!=sel) FAIL("default cb group %d calls %d exp %d",g,defcalls[g],sel); } } }
      else if(op==7){ lp+=sprintf(log+lp,"restart "); for(int g=1;g<=ng;g++) for(int k=0;k<16;k++) ram[g-1][k]=rand(); nvcall=0; failat=0; initnode(); if(CONodeGetErr(&Node)) FAIL("restart err"); for(int g=1;g<=ng;g++) if(memcmp(ram[g-1],mnv+pg[g].Offset,sz[g])) FAIL("after restart group %d != last stored image",g); }
      else if(op==8){ int t=rand()%2; lp+=sprintf(log+lp,"nmtreset%d ",t); uint8_t rb[NG][16]; for(int g=1;g<=ng;g++) for(int k=0;k<16;k++) ram[g-1][k]=rand(); memcpy(rb,ram,sizeof rb); rx(0,2,t?129:130,1,0,0,0,0,0,0);
        for(int g=1;g<=ng;g++){ int reload= t? 1 : ty[g]==CO_RESET_COM; if(reload){ if(memcmp(ram[g-1],mnv+pg[g].Offset,sz[g])) FAIL("reset%d: group %d (type %d) not reloaded",t,g,ty[g]); } else if(memcmp(ram[g-1],rb[g-1],16)) FAIL("reset com reloaded node-type group %d",g); } }
      else { lp+=sprintf(log+lp,"restart+fault "); nvcall=0; failat=1+rand()%ng; initnode(); CO_ERR e=CONodeGetErr(&Node); if(e==CO_ERR_NONE) FAIL("short NVM read at init not reported"); failat=0; nvcall=0; initnode(); (void)CONodeGetErr(&Node); for(int g=1;g<=ng;g++) if(memcmp(ram[g-1],mnv+pg[g].Offset,sz[g])) FAIL("after clean restart group %d",g); }
    }
  }
  printf("ok %ld\n",cases); return 0; }
