#include "mini.h"
// scratch: SDO verdict matrix from idle and from open-transfer states (C04 prototype)
static uint8_t rw8, arr1, arr3; static uint16_t ro16; static uint32_t wo32, rw32; static uint8_t big[100]; static CO_OBJ_DOM dom={0,100,big}; static uint8_t rob[20]; static CO_OBJ_DOM rodom={0,20,rob};
static uint8_t strd[12]="abcdefghijk"; static CO_OBJ_STR str={0,strd};
struct O { uint16_t idx; uint8_t sub; int exists, idxexists, rd, wr, size; void*p; } os[]={
 {0x2000,0,1,1,1,1,1,&rw8},{0x2001,0,1,1,1,0,2,&ro16},{0x2002,0,1,1,0,1,4,&wo32},{0x2003,0,1,1,1,1,4,&rw32},
 {0x2004,1,1,1,1,1,1,&arr1},{0x2004,2,0,1,0,0,0,0},{0x2004,3,1,1,1,1,1,&arr3},{0x2005,0,1,1,1,1,100,big},{0x2006,0,1,1,1,0,20,rob},{0x2007,0,1,1,1,0,11,strd},{0x3000,0,0,0,0,0,0,0},{0x3000,1,0,0,0,0,0,0}};
static uint32_t ac(void){ return TxQ[0].Data[4]|TxQ[0].Data[5]<<8|TxQ[0].Data[6]<<16|(uint32_t)TxQ[0].Data[7]<<24; }
#define FAIL(...) do{printf("case %ld: pre %d req cmd %02X %04X:%d size %u -> ",c,pre,cmd,o->idx,o->sub,lenarg);printf(__VA_ARGS__);printf(" (resp %02X code %08X tx %d)\n",TxQ[0].Data[0],ac(),TxN);return 1;}while(0)
int main(int argc,char**argv){ unsigned seed=atoi(argv[1]); long cases=atol(argv[2]);
  mandatory(); uint8_t four=3; 
  add(CO_KEY(0x2000,0,CO_OBJ_____RW),CO_TUNSIGNED8,(CO_DATA)&rw8); add(CO_KEY(0x2001,0,CO_OBJ_____R_),CO_TUNSIGNED16,(CO_DATA)&ro16); add(CO_KEY(0x2002,0,CO_OBJ______W),CO_TUNSIGNED32,(CO_DATA)&wo32); add(CO_KEY(0x2003,0,CO_OBJ_____RW),CO_TUNSIGNED32,(CO_DATA)&rw32);
  add(CO_KEY(0x2004,0,CO_OBJ_D___R_),CO_TUNSIGNED8,3); add(CO_KEY(0x2004,1,CO_OBJ_____RW),CO_TUNSIGNED8,(CO_DATA)&arr1); add(CO_KEY(0x2004,3,CO_OBJ_____RW),CO_TUNSIGNED8,(CO_DATA)&arr3);
  add(CO_KEY(0x2005,0,CO_OBJ_____RW),CO_TDOMAIN,(CO_DATA)&dom); add(CO_KEY(0x2006,0,CO_OBJ_____R_),CO_TDOMAIN,(CO_DATA)&rodom); add(CO_KEY(0x2007,0,CO_OBJ_____R_),CO_TSTRING,(CO_DATA)&str);
  start(1000);
  for(long c=0;c<cases;c++){ srand(seed+c); for(int i=0;i<100;i++) big[i]=rand(); for(int i=0;i<20;i++) rob[i]=rand(); rw8=rand(); ro16=rand(); wo32=rand(); rw32=rand(); arr1=rand(); arr3=rand();
    // bring server into a pre-state
    int pre=rand()%5; TxN=0; rx(0x601,8,0x80,0,0,0,0,0,0,0);
    if(pre==1){ rx(0x601,8,0x40,0x05,0x20,0,0,0,0,0); } else if(pre==2){ rx(0x601,8,0x21,0x05,0x20,0,100,0,0,0); rx(0x601,8,0x00,1,2,3,4,5,6,7); } else if(pre==3){ rx(0x601,8,0xA0,0x05,0x20,0,4,0,0,0); } else if(pre==4){ rx(0x601,8,0x40,0x07,0x20,0,0,0,0,0); rx(0x601,8,0x60,0,0,0,0,0,0,0); }
    struct O*o=&os[rand()%12]; int kind=rand()%6; uint8_t cmd=0; uint32_t lenarg=0; uint8_t d[4]={(uint8_t)rand(),(uint8_t)rand(),(uint8_t)rand(),(uint8_t)rand()};
    uint8_t snap_rw8=rw8,snap_a1=arr1,snap_a3=arr3; uint16_t snap16=ro16; uint32_t snapwo=wo32,snaprw=rw32; uint8_t sb[100],sr[20]; memcpy(sb,big,100); memcpy(sr,rob,20);
    int isdl= kind==0||kind==2||kind==3; uint32_t okcodes[4]; int nok=0; int mustfail=0;
    if(!o->exists){ mustfail=1; okcodes[nok++]= o->idxexists?0x06090011:0x06020000; }
    else { if(isdl && !o->wr){ mustfail=1; okcodes[nok++]=0x06010002; } if(!isdl && kind!=5 && !o->rd){ mustfail=1; okcodes[nok++]=0x06010001; } }
    if(kind==0){ int s=rand()%2; int n=rand()%4; cmd=0x22|s|(s?(n<<2):0); lenarg= s?4-n:0; if(o->exists&&s&&o->size<=4){ if(lenarg>(uint32_t)o->size){mustfail=1;okcodes[nok++]=0x06070012;} else if(lenarg<(uint32_t)o->size){mustfail=1;okcodes[nok++]=0x06070013;} }
      if(o->exists&&o->size>4){ /* expedited to large object: domain accepts partial (s=1) ; s=0 must fail */ if(!s){mustfail=1;okcodes[nok++]=0x06070010;} else if(!mustfail) goto unconstrained; } }
    else if(kind==1){ cmd=0x40; }
    else if(kind==2){ int s=rand()%2; cmd=0x20|s; lenarg= s? (rand()%3==0? (uint32_t)o->size : (uint32_t)(1+rand()%120)) :0; if(o->exists&&s&&lenarg!=(uint32_t)o->size){ if(lenarg>(uint32_t)o->size){ mustfail=1; okcodes[nok++]=0x06070012; } else if(o->size<=4){ mustfail=1; okcodes[nok++]=0x06070013; } else if(lenarg==0 && !mustfail) goto unconstrained; } d[0]=lenarg;d[1]=d[2]=d[3]=0; }
    else if(kind==3){ int s=rand()%2; cmd=0xC0|(s?2:0); lenarg= s? (rand()%3==0?(uint32_t)o->size:(uint32_t)(1+rand()%120)):0; if(o->exists&&s&&lenarg>(uint32_t)o->size){ mustfail=1; okcodes[nok++]=0x06070012; } if(s&&lenarg==0&&o->exists&&!mustfail) goto unconstrained; d[0]=lenarg;d[1]=d[2]=d[3]=0; }
    else if(kind==4){ cmd=0xA0; d[0]=(uint8_t[]){1,4,127,0,128,255}[rand()%6]; d[1]=d[2]=d[3]=0; if(o->exists&&o->rd&&(d[0]==0||d[0]>127)){ mustfail=1; okcodes[nok++]=0x05040002; } }
    else { cmd=(uint8_t[]){0xE0,0xFF,0x90,0x61,0x41,0xA1,0xA2,0xA3,0xC1,0xE1}[rand()%10]; mustfail=1; nok=0; okcodes[nok++]=0x05040001; if(pre==3&&cmd==0xA3){ goto unconstrained; } }
    TxN=0; rx(0x601,8,cmd,o->idx&0xFF,o->idx>>8,o->sub,d[0],d[1],d[2],d[3]);
    if(TxN!=1) FAIL("response count");
    if(TxQ[0].Identifier!=0x581) FAIL("resp id");
    if(mustfail){ if(TxQ[0].Data[0]!=0x80) FAIL("must fail but positive"); int okc=0; for(int k=0;k<nok;k++) if(ac()==okcodes[k]) okc=1; if(!okc) FAIL("abort code, expected %08X..",okcodes[0]);
      if((TxQ[0].Data[1]|TxQ[0].Data[2]<<8)!=o->idx||TxQ[0].Data[3]!=o->sub){ if(kind!=5) FAIL("abort mux"); }
      if(rw8!=snap_rw8||arr1!=snap_a1||arr3!=snap_a3||ro16!=snap16||wo32!=snapwo||rw32!=snaprw||memcmp(sb,big,100)||memcmp(sr,rob,20)) FAIL("refused request changed storage"); }
    else { if(TxQ[0].Data[0]==0x80) FAIL("refused a valid request"); if((TxQ[0].Data[1]|TxQ[0].Data[2]<<8)!=o->idx||TxQ[0].Data[3]!=o->sub) FAIL("positive mux");
      if(kind==1){ if(o->size<=4){ if(TxQ[0].Data[0]!=(0x43|((4-o->size)<<2))||memcmp(TxQ[0].Data+4,o->p,o->size)) FAIL("expedited upload data of named object"); } else if(TxQ[0].Data[0]!=0x41||ac()!=(uint32_t)o->size) FAIL("seg upload init size"); }
      if(kind==4){ if(TxQ[0].Data[0]!=0xC2||ac()!=(uint32_t)o->size) FAIL("blk upload init size"); }
      if(kind==0){ if(TxQ[0].Data[0]!=0x60) FAIL("exp dl resp"); if(memcmp(o->p,d,o->size)) FAIL("expedited download not performed on named object"); } }
    unconstrained:;
  }
  printf("ok %ld\n",cases); return 0; }
