#!/usr/bin/env python3
# print C sources without comments/blank lines (reading aid)
import re,sys
for f in sys.argv[1:]:
    s=open(f,newline='').read().replace('\r\n','\n')
    s=re.sub(r'/\*.*?\*/','',s,flags=re.S)
    s=re.sub(r'//[^\n]*','',s)
    out=[l.rstrip() for l in s.split('\n') if l.strip()]
    print('=====',f)
    print('\n'.join(out))
