#!/usr/bin/env python3
"""Mutation sweep - development aid that MEASURES the sensitivity of the checks (DESIGN.md 9.5); never run by a registered check.

usage: mutation_sweep.py [--files a.c,b.c] [--per-file N] [--workers K] [--jobs J] [--scale S] [--seed N] [--out FILE]
       mutation_sweep.py --confirm FILE      re-run the survivors of FILE at the full quick budget on every property

For every sampled single-line mutant of a /repo source file (relational / logical operator replacement, negated condition,
deleted assignment or call statement, off-by-one on '+ 1' / '- 1'):
  1. the mutant is applied in a scratch worktree of /repo HEAD under /tmp (removed at the end),
  2. the repository's own suite is built and run: a mutant that does not compile or fails one of the 250 tests is of no
     interest (the brief asks for changes that still compile and pass the existing tests),
  3. the quick checks of the properties anchored in that file (then C01, C20) run against it at a reduced budget until the
     first one reports a violation.
The result lines (JSON) say for each mutant: noncompiling / killed-by-suite / detected (by which check, which clause) / survived.
Survivors are then inspected by hand: equivalent mutant, behaviour outside the 20 statements, or a gap in a check.
"""
import json, os, random, re, shutil, subprocess, sys, time, collections
from multiprocessing import Pool

VERIF = os.path.dirname(os.path.dirname(os.path.abspath(__file__)))
REPO = "/repo"

def anchors():
    m = collections.defaultdict(list)
    for l in open(os.path.join(VERIF, "properties.jsonl")):
        d = json.loads(l)
        for f in d["anchors"]["files"]:
            m[f].append(d["id"])
    return m

REL = [(r'(?<![=!<>\-])==(?!=)', '!='), (r'!=', '=='), (r'(?<![<\-])<(?![<=])', '<='), (r'(?<![<])<=', '<'),
       (r'(?<![>\-])>(?![>=])', '>='), (r'(?<![>])>=', '>'), (r'&&', '||'), (r'\|\|', '&&')]

def mutants_of(path):
    """yield (lineno, newline, description) for one-line mutants of a C file"""
    raw = open(path, 'rb').read().decode('latin-1')
    lines = raw.replace('\r\n', '\n').split('\n')
    out = []
    incomment = False
    depth = 0
    for i, l in enumerate(lines):
        s = l.strip()
        code = l
        if incomment:
            if '*/' in l: incomment = False
            continue
        if s.startswith('/*') and '*/' not in s:
            incomment = True; continue
        if s.startswith('/*') or s.startswith('*') or s.startswith('//') or s.startswith('#') or not s:
            continue
        code = re.sub(r'/\*.*?\*/', lambda m: ' ' * len(m.group(0)), l)
        d0 = depth
        depth += code.count('{') - code.count('}')
        if d0 < 1: continue                      # only inside function bodies
        if 'ASSERT_' in code or s.startswith('case ') or s.startswith('const ') or 'static ' in code: continue
        for pat, rep in REL:
            for m in re.finditer(pat, code):
                if "'" in code or '"' in code: continue
                nl = code[:m.start()] + rep + code[m.end():]
                out.append((i, nl, "%s -> %s" % (m.group(0), rep)))
        m = re.match(r'^(\s*)(if|while)\s*\((.*)\)\s*\{\s*$', code)
        if m and code.count('(') == code.count(')'):
            out.append((i, "%s%s (!(%s)) {" % (m.group(1), m.group(2), m.group(3)), "negated condition"))
        if re.match(r'^\s+[A-Za-z_\(\*][\w\->\.\[\]\(\)\* ]*?\s*(\|=|&=|\+=|-=|\^=|=)\s*[^=].*;\s*$', code) and not re.match(r'^\s*(return|if|for|while|else)\b', s) \
                and not re.match(r'^\s*(u?int\d+_t|CO_\w+|const|struct|void|char)\b[\s\*]', s):
            out.append((i, re.match(r'^\s*', code).group(0) + ";", "deleted assignment: " + s[:60]))
        if re.match(r'^\s+(\(void\)\s*)?[A-Za-z_]\w*\s*\(.*\);\s*$', code) and not re.match(r'^\s*(return|if|for|while|else|sizeof)\b', s):
            out.append((i, re.match(r'^\s*', code).group(0) + ";", "deleted call: " + s[:60]))
        for m in re.finditer(r'([+\-]) 1u?\b(?!\.)', code):
            out.append((i, code[:m.start()] + code[m.end():], "dropped '%s'" % m.group(0)))
        m = re.search(r'\+\+', code)
        if m and 'for' not in code:
            out.append((i, code.replace('++', '--', 1), "++ -> --"))
    return lines, ('\r\n' in raw), out

def write_mutant(dst, lines, crlf, lineno, newline):
    ls = list(lines); ls[lineno] = newline
    text = '\n'.join(ls)
    if crlf: text = text.replace('\n', '\r\n')
    open(dst, 'wb').write(text.encode('latin-1'))

W = None
def worker_dir():
    global W
    if W is None:
        W = "/tmp/vfms.%d" % os.getpid()
        os.makedirs(W, exist_ok=True)
        subprocess.run(["git", "-C", REPO, "worktree", "add", "-q", "--detach", W + "/tree", "HEAD"], check=True, stdout=subprocess.DEVNULL, stderr=subprocess.DEVNULL)
        subprocess.run("cmake -G Ninja -S %s/tree -B %s/b -DCMAKE_BUILD_TYPE=RelWithDebInfo -DCMAKE_C_FLAGS=-Wno-error >/dev/null 2>&1; cmake --build %s/b -- -k 0 >/dev/null 2>&1" % (W, W, W), shell=True)
        os.makedirs(W + "/out", exist_ok=True); os.makedirs(W + "/evidence", exist_ok=True)
    return W

def suite(Wd):
    r = subprocess.run("cmake --build %s/b -- -k 0 2>&1 | grep -c 'error:'; ctest --test-dir %s/b -j4 2>&1 | grep -c ' Passed '" % (Wd, Wd), shell=True, stdout=subprocess.PIPE, text=True)
    try:
        errs, passed = [int(x) for x in r.stdout.split()[:2]]
    except Exception:
        return -1, 0
    return errs, passed

def run_one(job):
    rel, lineno, newline, desc, props, scale, jobs, base_pass = job
    Wd = worker_dir()
    src = os.path.join(REPO, rel)
    lines, crlf, _ = mutants_of(src)
    dst = os.path.join(Wd, "tree", rel)
    write_mutant(dst, lines, crlf, lineno, newline)
    res = {"file": rel, "line": lineno + 1, "mutation": desc, "old": lines[lineno].strip()[:120], "new": newline.strip()[:120]}
    try:
        errs, passed = suite(Wd)
        # does the library itself compile? (the suite's unit executables may not link for unrelated reasons)
        cc = subprocess.run(["clang", "-std=c99", "-fsyntax-only", "-w"] + ["-I%s/tree/src/%s" % (Wd, d) for d in ("config", "core", "hal", "object/basic", "object/cia301", "service/cia301", "service/cia305")] + [dst],
                            stdout=subprocess.PIPE, stderr=subprocess.STDOUT, text=True)
        if cc.returncode != 0:
            res["result"] = "noncompiling"; return res
        if passed < base_pass:
            res["result"] = "killed-by-suite"; res["suite_passed"] = passed; return res
        res["result"] = "survived"; res["checked"] = []
        for p in props:
            t0 = time.time()
            env = dict(os.environ, VF_REPO=Wd + "/tree", VF_BUILD=Wd + "/build", VF_EVIDENCE=Wd + "/evidence", VF_OUT=Wd + "/out")
            cmd = [os.path.join(VERIF, "check"), p, "--tier", "quick", "--jobs", str(jobs)]
            if scale: cmd += ["--scale", str(scale)]
            r = subprocess.run(cmd, env=env, stdout=subprocess.PIPE, stderr=subprocess.STDOUT, text=True)
            res["checked"].append(p)
            if r.returncode == 1:
                cl = [l for l in r.stdout.splitlines() if l.startswith("[check] ") and "quick seed" not in l]
                res["result"] = "detected"; res["by"] = p; res["clause"] = (cl[0][8:180] if cl else "?"); res["secs"] = round(time.time() - t0, 1)
                break
            if r.returncode != 0:
                res["result"] = "check-error"; res["by"] = p; res["tail"] = r.stdout[-400:]; break
        return res
    finally:
        subprocess.run(["git", "-C", Wd + "/tree", "checkout", "-q", "--", "."])
        shutil.rmtree(Wd + "/out/replay", ignore_errors=True); shutil.rmtree(Wd + "/out/tmp", ignore_errors=True)

def cleanup_worker(_):
    global W
    if W:
        subprocess.run(["git", "-C", REPO, "worktree", "remove", "--force", W + "/tree"], stdout=subprocess.DEVNULL, stderr=subprocess.DEVNULL)
        shutil.rmtree(W, ignore_errors=True)
        W = None
    time.sleep(1)
    return os.getpid()

def main():
    a = sys.argv[1:]
    opt = {"--per-file": "12", "--workers": "4", "--jobs": "4", "--scale": "0.1", "--seed": "1", "--out": os.path.join(VERIF, "out", "mutation", "results.jsonl"), "--files": "", "--confirm": "", "--rerun-errors": ""}
    i = 0
    while i < len(a):
        opt[a[i]] = a[i + 1]; i += 2
    anc = anchors()
    os.makedirs(os.path.dirname(opt["--out"]), exist_ok=True)
    jobs = []
    allprops = ["C%02d" % k for k in range(1, 21)]
    if opt.get("--rerun-errors"):
        for l in open(opt["--rerun-errors"]):
            r = json.loads(l)
            if r.get("result") != "check-error": continue
            src = os.path.join(REPO, r["file"]); lines, crlf, muts = mutants_of(src)
            for (ln, nl, d) in muts:
                if ln + 1 == r["line"] and d == r["mutation"] and nl.strip()[:120] == r["new"]:
                    props = list(anc.get(r["file"], []))
                    for extra in ("C01", "C20"):
                        if extra not in props: props.append(extra)
                    jobs.append((r["file"], ln, nl, d, props, opt["--scale"], int(opt["--jobs"]), 250)); break
    elif opt["--confirm"]:
        for l in open(opt["--confirm"]):
            r = json.loads(l)
            if r.get("result") != "survived": continue
            src = os.path.join(REPO, r["file"]); lines, crlf, muts = mutants_of(src)
            for (ln, nl, d) in muts:
                if ln + 1 == r["line"] and d == r["mutation"] and nl.strip()[:120] == r["new"]:
                    props = anc.get(r["file"], []) + [p for p in allprops if p not in anc.get(r["file"], [])]
                    jobs.append((r["file"], ln, nl, d, props, None, int(opt["--jobs"]), 250)); break
    else:
        files = [f for f in opt["--files"].split(",") if f] or sorted(f for f in anc if f.endswith(".c"))
        rnd = random.Random(int(opt["--seed"]))
        for rel in files:
            lines, crlf, muts = mutants_of(os.path.join(REPO, rel))
            rnd.shuffle(muts)
            props = list(anc.get(rel, []))
            for extra in ("C01", "C20"):
                if extra not in props: props.append(extra)
            for (ln, nl, d) in muts[:int(opt["--per-file"])]:
                jobs.append((rel, ln, nl, d, props, opt["--scale"], int(opt["--jobs"]), 250))
    print("%d mutants" % len(jobs), flush=True)
    nw = int(opt["--workers"])
    tally = collections.Counter()
    with Pool(nw) as pool, open(opt["--out"], "a") as out:
        for r in pool.imap_unordered(run_one, jobs):
            out.write(json.dumps(r) + "\n"); out.flush()
            tally[r["result"]] += 1
            print("%-14s %s:%d %s %s" % (r["result"], r["file"], r["line"], r["mutation"][:50], r.get("by", "")), flush=True)
        pool.map(cleanup_worker, range(nw * 4), chunksize=1)
    print(dict(tally))

if __name__ == "__main__":
    main()
