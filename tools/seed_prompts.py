#!/usr/bin/env python3
"""Development aid: writes the task text handed to an independent sub-agent that seeds a regression for one property
(DESIGN.md 9.5).  The agent gets the property text and a scratch worktree only - nothing from /verif.
usage: seed_prompts.py <round> [<prop> ...]   -> /tmp/agentprompts/<prop>_<round>.txt"""
import json, os, re, sys
props={json.loads(l)['id']:json.loads(l) for l in open('/verif/properties.jsonl')}
T='''You are helping to evaluate a verification suite for the open-source C library embedded-office/canopen-stack (a CANopen slave stack: SDO server/client, PDO, NMT/heartbeat, EMCY, SYNC, LSS, object dictionary, software timer manager). Your job is to play the role of a developer who introduces a SUBTLE REGRESSION.

Set up your own scratch git worktree first (do not touch /repo itself, and do NOT read anything under /verif - it is off limits for this task):

    git -C /repo worktree add --detach /tmp/seed_{ID}_{N}/tree HEAD
    mkdir -p /tmp/seed_{ID}_{N}/out

Work only inside /tmp/seed_{ID}_{N}/. The library sources are under tree/src, its own tests under tree/tests. The repository's test suite is built and run like this (about 10 s; 250 tests must pass, ~84 are reported "Not Run" because their executables do not link in this tree - that is expected and unrelated):

    cmake -G Ninja -S /tmp/seed_{ID}_{N}/tree -B /tmp/seed_{ID}_{N}/b -DCMAKE_BUILD_TYPE=RelWithDebInfo -DCMAKE_C_FLAGS=-Wno-error >/dev/null
    cmake --build /tmp/seed_{ID}_{N}/b -- -k 0 >/dev/null 2>&1 ; ctest --test-dir /tmp/seed_{ID}_{N}/b -j8 2>&1 | tail -5

This is the property that the library is supposed to satisfy:

    TITLE: {TITLE}
    STATEMENT: {STATEMENT}
    QUANTIFIED OVER: {QUANT}
    RELEVANT FILES: {FILES}

TASK: make a small change to the library sources (tree/src only, typically 1-10 lines, possibly at two cooperating sites that each look fine alone) that BREAKS this property, while the library still compiles and ALL 250 tests of the existing suite still pass. The breakage must NOT be something ordinary use would expose at once: it must need something specific to manifest - {HINT} Make it look like a plausible mistake or an innocent-looking "optimisation"/refactoring a real developer could make, not like sabotage; do not add dead code, magic constants that single out one input for no reason, or comments that explain the bug.

Then write a DEMONSTRATION: a small standalone C program (tree-external, in /tmp/seed_{ID}_{N}/out/demo.c) that links against the library sources (compile all tree/src/**/*.c except src/driver/** together with your program, include paths: src/config src/core src/hal src/object/basic src/object/cia301 src/service/cia301 src/service/cia305), supplies its own minimal CAN/timer/NVM driver tables (see examples/quickstart/driver/*.c and tests/integration for how; the application callbacks in src/config/callbacks.c are weak and may be overridden), drives the node with the specific inputs, and exits with status 1 and a message when the property is violated and 0 when it holds. It must FAIL (exit 1) on your modified tree and PASS (exit 0) on the unmodified tree (check the latter with a second worktree or with `git stash`). Put a build+run script in /tmp/seed_{ID}_{N}/out/run_demo.sh that takes the tree directory as its only argument.

Deliverables, all in /tmp/seed_{ID}_{N}/out/:
  - patch.diff   (output of `git -C /tmp/seed_{ID}_{N}/tree diff`, must apply with `git apply` to a clean checkout of /repo HEAD)
  - demo.c, run_demo.sh
  - meta.json with keys: property ("{ID}"), summary (what was changed, one or two sentences), needs_to_manifest (what specific interleaving / sequence / input / state is needed), files (list), confirmed (object with: tests_pass_with_patch (bool), demo_fails_with_patch (bool), demo_passes_without_patch (bool)), commands (list of the commands you ran to confirm this)

When you are done, remove the build directory /tmp/seed_{ID}_{N}/b and any second worktree you created (git -C /repo worktree remove --force <dir>), but leave /tmp/seed_{ID}_{N}/tree and /tmp/seed_{ID}_{N}/out in place. Finish with a short plain-text report: what you changed, what it needs to manifest, and the three confirmations. Do not commit anything in /repo.'''
HINTS={
'C01':'e.g. a particular multi-frame sequence, an unusual length/size at a boundary (4, 7, 127, 889 bytes, 8 mapping entries, last timer slot), an optional dictionary object that is absent, a driver call that fails at a particular moment, or a second SDO server/client.',
'C02':'e.g. a particular transfer mode x size boundary (7, 889, multiples of 889 bytes), a retransmission after a lost block segment, size indicated vs not, node-id relative objects, or traffic on a second SDO server.',
'C03':'e.g. a particular acknowledge position in a block upload (ack 0, 1, n-1 of n), a block-size change between blocks, sizes at 7/889 byte boundaries, a second upload after a first one, strings vs domains.',
'C04':'e.g. a request arriving in a particular protocol state (segmented transfer open, between block initiate and start, inside a block), a particular combination of access flags and lengths, sub-index gaps, a refused request that nevertheless has a side effect.',
'C05':'e.g. a particular junk history (truncated block transfer, wrong toggle, end frame without segments) after which a client abort or NMT reset does not fully restore the server, so that a LATER clean transfer fails or returns stale data.',
'C06':'e.g. a dictionary of a particular length/shape (odd/even length, key at the last position, keys differing only in sub-index), node-id relative entries with particular values, buffer lengths above 255 or beyond the object size.',
'C07':'e.g. a particular combination of pending timers (two actions due on the same tick, deleting the first/last of several, a cyclic action re-armed while another is inserted, zero start delay), or particular time/frequency values in the conversion.',
'C08':'e.g. the tick service (interrupt) running between a particular unlock and the next lock, deleting an action that has elapsed but is not processed yet, processing deferred over several ticks, pool nearly exhausted.',
'C09':'e.g. a particular sequence of NMT commands / API mode changes / resets followed by a particular service probe (SDO, PDO, SYNC, EMCY, heartbeat, LSS) in a state where it must or must not react, or boot-up frames after particular transitions.',
'C10':'e.g. a heartbeat time written while other timers (TPDO event/inhibit, SYNC producer, consumers, application timers) are pending or deleted, an NMT transition at a particular moment, a reset.',
'C11':'e.g. several consumer entries with a write to one of them while another is being monitored, re-targeting an active entry, the event counter near 255, heartbeats arriving exactly on the expiry tick.',
'C12':'e.g. inhibit time and event time interacting (equal values, trigger while inhibited, trigger exactly at expiry), SYNC counting across NMT changes, 24-bit mappings, re-validating a PDO while operational.',
'C13':'e.g. mappings with dummy entries at particular positions, synchronous RPDOs with several SYNCs and NMT changes between reception and SYNC, colliding COB-IDs, a particular RPDO number.',
'C14':'e.g. a particular ORDER of writes to COB-ID / type / count / mapping entries (count written before entries, 8 entries summing to exactly 8 or 9 bytes, wrong-access objects), so that an invalid configuration is accepted or a valid one refused, possibly only visible when the PDO is activated later.',
'C15':'e.g. several errors sharing one error-register bit being set and cleared in a particular order, history wrap-around at a particular depth, clearing while frames are gated by NMT state or by an invalid COB-ID.',
'C16':'e.g. a particular sequence of 1005h/1006h writes (start, stop, re-time, refused write followed by a valid one), SYNC reception around NMT changes, cycle periods at the timer resolution.',
'C17':'e.g. a particular group layout (sub-index 1 = all groups vs single groups, a disabled group between enabled ones, reset type node vs communication), a restart or NMT reset after a particular store, or an NVM driver call that returns a short count at a particular position.',
'C18':'e.g. a particular ORDER of LSS frames (selective sequence interrupted by another service, identify ranges at their boundaries, store after a refused configure, node id 255), or state carried over a reset communication.',
'C19':'e.g. transfers of particular sizes (multiples of 7, around 256), a server that aborts / goes silent / answers late at a particular step, back-to-back transfers where something of the first one (timer, toggle, buffer index) affects the second.',
'C20':'e.g. a particular service left in a particular state by the history (open SDO transfer, busy SDO client, running inhibit timer, heartbeat consumer armed, LSS in configuration state, SYNC producer re-timed) that the NMT reset does not bring back to the state of a fresh start, visible only through a particular later probe.',
}

THEMES={
 9: "Assume the verification suite you are up against drives the node through simulated CAN / timer / NVM drivers, has a reference model for this property, generates long random operation sequences, runs with memory sanitizers, varies timer-pool sizes, issues API calls from inside callbacks, injects driver faults and builds unusual dictionary shapes. Think about what it would STILL most naturally miss: legal but extreme parameter values (times of 65535 ms, identifiers 7FFh or 001h, node id 127, sub-index 255, exactly 8 mapped entries, a counter that wraps after 255 or 65535 events), an effect that becomes visible only MANY operations after its cause, a value that is written through one path (SDO / API / PDO / NVM load) and read back through another, or two legal operations separated by exactly zero ticks - and seed a regression whose ONLY symptom lies there",
 10: "Assume the verification suite you are up against drives the node through simulated CAN / timer / NVM drivers, has a reference model for this property, generates long random operation sequences (including bursts of several hundred frames, tick counts near 2^31, transfers beyond 64 KiB), runs with memory sanitizers, varies timer-pool sizes, issues API calls from inside callbacks and injects driver faults. Think about what it would STILL most naturally miss: a PAIR of configuration options nobody combines (a feature enabled together with another that is usually off; the last legal value of one parameter with the first of another), a public API function or macro of the library that is documented but rarely called (look through the headers for the ones the tests never use), the behaviour of the SECOND call of something that is normally called once (a second CONodeInit / CONodeStart / COxxxInit, a repeated identical write, a repeated identical request), or a data-dependent path (a payload byte pattern, a value with the top bit set, a signed object holding a negative value, a string containing a NUL) - and seed a regression whose ONLY symptom lies there",
 11: "Assume the verification suite you are up against drives the node through simulated CAN / timer / NVM drivers, has a reference model for this property, generates long random operation sequences (bursts of hundreds of frames, tick counts near 2^31, transfers beyond 64 KiB, dictionaries spanning the whole index range), runs with memory sanitizers, varies timer-pool sizes, issues API calls from inside callbacks, injects driver faults, initialises a node a second time on the same memory, changes the node id through LSS, activates LSS bit timing and changes the NMT state while other services are busy. Think about what it would STILL most naturally miss: behaviour that depends on WHICH optional objects or sub-indices are absent or in which order entries sit in the dictionary; a chain of three or more dependent steps (configure A, then B which depends on A, then undo or repeat A); an error path whose only effect is a wrong return value, a wrong node error code (CONodeGetErr) or a wrong abort code on a request that is refused anyway; arithmetic at type boundaries inside the object types and services (values with the top bit set, FFFFFFFFh, value plus node id overflowing, signed against unsigned comparison); or the second and later instances of something the library keeps in arrays (TPDO/RPDO number 3, the last EMCY table row, the last heartbeat consumer, the second SDO client) - and seed a regression whose ONLY symptom lies there",
 12: "Assume the verification suite you are up against drives the node through simulated CAN / timer / NVM drivers, has a reference model for this property, generates long random operation sequences (bursts of hundreds of frames, tick counts near 2^31, transfers beyond 64 KiB, dictionaries spanning the whole index range, identifiers and values at the edges of their ranges), runs with memory sanitizers, varies timer-pool sizes, issues API calls from inside callbacks, injects driver faults, initialises a node a second time on the same memory, changes the node id through LSS, activates LSS bit timing, changes the NMT state or resets the node while other services are busy, and builds with two SDO servers and clients. This time do NOT touch the files listed as relevant for the property: seed the regression in a SHARED layer that this property merely depends on - the hardware abstraction (src/hal/co_if*.c), the frame dispatch and node life cycle (src/core/co_core.c), the object access layer (src/core/co_obj.c, src/core/co_dict.c), a basic object type (src/object/basic/*.c), a macro or struct in a header (src/core/*.h, src/config/*.h), or another service whose state this one reads - ideally as TWO cooperating edits in different files that each look fine alone, so that the property breaks only for a specific combination of circumstances",
}
def main():
    rnd=int(sys.argv[1]); ids=sys.argv[2:] or sorted(props)
    os.makedirs('/tmp/agentprompts',exist_ok=True)
    for pid in ids:
        p=props[pid]
        t=T.replace('{ID}',pid).replace('{N}',str(rnd)).replace('{TITLE}',p['title']).replace('{STATEMENT}',p['statement']).replace('{QUANT}',p['quantifier']['text']).replace('{FILES}',', '.join(p['anchors']['files'])).replace('{HINT}',HINTS[pid])
        notes=[]
        for r in range(1,rnd+1):
            d='/verif/seeded/%s_%d/patch.diff'%(pid,r)
            if not os.path.exists(d): continue
            diff=open(d).read()
            files=sorted(set(re.findall(r'^\+\+\+ b/(\S+)',diff,re.M)))
            funcs=sorted(set(re.findall(r'^@@.*@@.*?([A-Za-z_0-9]+)\(',diff,re.M)))
            notes.append("%s (%s)"%(", ".join(funcs) if funcs else "a function", ", ".join(files)))
        if notes:
            extra="\n\nDIVERSITY NOTE: %d other developers have already seeded regressions for this property, in: "%len(notes)+"; in: ".join(notes)+". Choose a DIFFERENT function and a different mechanism so that your regression has nothing in common with theirs. "+THEMES.get(rnd,THEMES[max(THEMES)])+", while still being a violation of THIS property's statement that you can demonstrate against the unmodified library.\n"
            t=t.replace("\n\nThen write a DEMONSTRATION", extra+"\nThen write a DEMONSTRATION",1)
        open('/tmp/agentprompts/%s_%d.txt'%(pid,rnd),'w').write(t)
        print('/tmp/agentprompts/%s_%d.txt'%(pid,rnd), len(t))
main()
