#!/usr/bin/env python3
"""Regenerates MANIFEST.json's checks / not_applicable from tools/claims.json (one place to edit)."""
import json, os
R = os.path.dirname(os.path.dirname(os.path.abspath(__file__)))
man = json.load(open(os.path.join(R, 'MANIFEST.json')))
claims = json.load(open(os.path.join(R, 'tools', 'claims.json')))
props = [json.loads(l) for l in open(os.path.join(R, 'properties.jsonl'))]
checks, na = [], []
for p in props:
    c = claims.get(p['id'])
    if not c or c.get('not_applicable'):
        na.append({"property_id": p['id'], "reason": (c or {}).get('not_applicable', 'check not built yet (work in progress; the design in DESIGN.md section 5 covers it)')})
        continue
    checks.append({
        "property_id": p['id'],
        "quick_cmd": "./check %s --tier quick" % p['id'],
        "thorough_cmd": "./check %s --tier thorough" % p['id'],
        "evidence_file": "/verif/evidence/%s.json" % p['id'],
        "replay_cmd_template": "./check %s --replay {path}" % p['id'],
        "engine": "vf choice-tape engine",
        "level_claimed": {"category": c['level'], "text": c['text'], "design_ref": c.get('design_ref', 'DESIGN.md section 5 ' + p['id'])},
        "level_note": c['note'],
        "technique": c['technique'],
    })
man['checks'] = checks
man['not_applicable'] = na
man['engines'][0]['serves_properties'] = [c['property_id'] for c in checks]
json.dump(man, open(os.path.join(R, 'MANIFEST.json'), 'w'), indent=1)
print("claimed:", [c['property_id'] for c in checks])
