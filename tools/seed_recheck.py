#!/usr/bin/env python3
"""Development aid: re-run the quick checks against every stored seeded change (seeded/<name>/patch.diff) with the CURRENT
harness and refresh meta.json: 'quick_checks' = what the checks report now, 'first_delivery_quick_checks' = what they
reported when the change was delivered (kept from the first run).  usage: seed_recheck.py [name ...]"""
import glob, json, os, subprocess, sys, shutil
V = os.path.dirname(os.path.dirname(os.path.abspath(__file__)))
names = sys.argv[1:] or sorted(os.path.basename(d) for d in glob.glob(os.path.join(V, 'seeded', '*')))
for name in names:
    d = os.path.join(V, 'seeded', name); mp = os.path.join(d, 'meta.json')
    try: m = json.load(open(mp))
    except Exception: m = {}
    props = list(m.get('quick_checks', {}).keys()) or [name[:3]]
    W = "/tmp/vfrc.%s.%d" % (name, os.getpid())
    if subprocess.run(["git", "-C", "/repo", "worktree", "add", "-q", "--detach", W + "/tree", "HEAD"], stdout=subprocess.DEVNULL, stderr=subprocess.DEVNULL).returncode != 0:
        print(name, "cannot create worktree"); continue
    try:
        if subprocess.run(["git", "-C", W + "/tree", "apply", os.path.join(d, "patch.diff")]).returncode != 0:
            print(name, "patch does not apply to /repo HEAD any more"); m['applies_to_head'] = False; json.dump(m, open(mp, 'w'), indent=1); continue
        m['applies_to_head'] = True
        res = {}
        for p in props:
            env = dict(os.environ, VF_REPO=W + "/tree", VF_BUILD=W + "/build", VF_EVIDENCE=W + "/evidence", VF_OUT=W + "/out")
            r = subprocess.run([os.path.join(V, "check"), p, "--tier", "quick"], env=env, stdout=subprocess.PIPE, stderr=subprocess.STDOUT, text=True)
            res[p] = "DETECTED" if r.returncode == 1 else "missed" if r.returncode == 0 else "ERROR(%d)" % r.returncode
        if 'first_delivery_quick_checks' not in m: m['first_delivery_quick_checks'] = m.get('quick_checks', {})
        m['quick_checks'] = res
        json.dump(m, open(mp, 'w'), indent=1)
        print(name, res, flush=True)
    finally:
        subprocess.run(["git", "-C", "/repo", "worktree", "remove", "--force", W + "/tree"], stdout=subprocess.DEVNULL, stderr=subprocess.DEVNULL)
        shutil.rmtree(W, ignore_errors=True)
