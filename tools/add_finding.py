#!/usr/bin/env python3
"""usage: add_finding.py <id> <fixed|known> <commit|-> "<what>" <prop>:<witness file>:<clause> ...   (development aid; never run by a check)"""
import json, sys, os
R = os.path.dirname(os.path.dirname(os.path.abspath(__file__)))
fid, status, commit, what = sys.argv[1:5]
wit = []
for w in sys.argv[5:]:
    p, f, c = w.split(':', 2)
    wit.append({"property": p, "file": f, "clause": c})
path = os.path.join(R, 'findings', 'known_findings.json')
kf = json.load(open(path))
props = sorted(set(w['property'] for w in wit))
ent = None
for f in kf['findings']:
    if f['id'] == fid:
        ent = f
if ent is None:
    ent = {"id": fid}
    kf['findings'].append(ent)
ent.update({"status": status, "properties": sorted(set(ent.get('properties', []) + props)), "what": what})
if status == 'fixed':
    ent['commit'] = commit
    ent['record'] = "; ".join("fixed: property=%s %s %s" % (p, commit, what) for p in ent['properties'])
else:
    ent['record'] = "; ".join("known: property=%s %s" % (p, what) for p in ent['properties'])
have = {(w['property'], w['file']) for w in ent.get('witnesses', [])}
ent.setdefault('witnesses', [])
for w in wit:
    if (w['property'], w['file']) not in have:
        ent['witnesses'].append(w)
json.dump(kf, open(path, 'w'), indent=1)
print("recorded", fid, status, ent['properties'])
