#!/bin/sh
# Runs the repository's own test suite with the verification guard OFF (the guard is only ever defined by
# /verif/Makefile) from /repo's current working tree, in a scratch build directory that is removed afterwards,
# and compares the result with /root/.vp/BASELINE.json: every test listed in stable_pass must pass.
set -u
BD=$(mktemp -d /tmp/co-baseline.XXXXXX)
trap 'rm -rf "$BD"' EXIT
cmake -G Ninja -S /repo -B "$BD" -DCMAKE_BUILD_TYPE=RelWithDebInfo -DCMAKE_C_FLAGS=-Wno-error >"$BD/configure.log" 2>&1 || { tail -20 "$BD/configure.log"; echo "BASELINE configure failed"; exit 2; }
cmake --build "$BD" -- -k 0 >"$BD/build.log" 2>&1   # some unit-test executables do not link in the pinned tree (expected, "Not Run")
ctest --test-dir "$BD" -j8 --timeout 900 --output-junit "$BD/junit.xml" >"$BD/ctest.log" 2>&1
python3 - "$BD/junit.xml" <<'PY'
import json, sys, xml.etree.ElementTree as ET
base = json.load(open('/root/.vp/BASELINE.json'))
want = set(x.split('::')[0] for x in base['stable_pass'])
passed = set()
for tc in ET.parse(sys.argv[1]).getroot().iter('testcase'):
    ok = tc.get('status') == 'run' and tc.find('failure') is None and tc.find('error') is None and tc.find('skipped') is None
    if ok:
        passed.add(tc.get('name'))
missing = sorted(want - passed)
print("baseline (guard off): %d of %d stable tests pass" % (len(want & passed), len(want)))
for m in missing[:40]:
    print("  NOT PASSING:", m)
sys.exit(1 if missing else 0)
PY
