"""Edit helper for /repo sources that preserves the file's line endings (47 files use CRLF). Development aid only."""
import sys
def sub(path, old, new, count=1):
    raw = open(path, 'rb').read().decode('latin-1')
    crlf = '\r\n' in raw
    text = raw.replace('\r\n', '\n')
    assert text.count(old) == count, "%s: expected %d occurrence(s), found %d of:\n%s" % (path, count, text.count(old), old)
    text = text.replace(old, new)
    if crlf:
        text = text.replace('\n', '\r\n')
    open(path, 'wb').write(text.encode('latin-1'))
