#!/bin/sh
# usage: verify_batch.sh name:props ...
cd /verif
for a in "$@"; do n=${a%%:*}; p=$(echo ${a#*:} | tr , ' ');
  tools/seed_verify.sh $n $p 2>&1 | grep -v "^WARNING"; git -C /repo worktree remove --force /tmp/seed_$n/tree 2>/dev/null; rm -rf /tmp/seed_$n; done
