#!/usr/bin/env python3
"""Development aid: confirm that every saved witness of a FIXED finding still reproduces its defect on the tree just
before the fix (parent of the fix commit) with the CURRENT harness - a witness is a choice tape, so it silently loses its
meaning when the case function that decodes it draws its choices differently.  Never run by a registered check.

usage: witness_validate.py [finding-id ...]
For every (finding, witness): scratch worktree of /repo at <fix commit>^ under /tmp, harness built from it, the witness
replayed: expected 'fail' (ideally with the recorded clause).  Worktrees and build output are removed afterwards.
"""
import json, os, subprocess, sys, shutil

VERIF = os.path.dirname(os.path.dirname(os.path.abspath(__file__)))
kf = json.load(open(os.path.join(VERIF, "findings", "known_findings.json")))
only = set(sys.argv[1:])
bad = 0
for f in kf["findings"]:
    if f["status"] != "fixed" or (only and f["id"] not in only):
        continue
    W = "/tmp/vfwit.%s.%d" % (f["id"], os.getpid())
    os.makedirs(W, exist_ok=True)
    r = subprocess.run(["git", "-C", "/repo", "worktree", "add", "-q", "--detach", W + "/tree", f["commit"] + "^"], stdout=subprocess.PIPE, stderr=subprocess.STDOUT, text=True)
    if r.returncode != 0:
        print("%-8s cannot create worktree: %s" % (f["id"], r.stdout.strip())); bad += 1; continue
    try:
        for w in f["witnesses"]:
            path = os.path.join(VERIF, w["file"])
            meta = json.load(open(path))
            env = dict(os.environ, VF_REPO=W + "/tree", VF_BUILD=W + "/build", VF_EVIDENCE=W + "/evidence", VF_OUT=W + "/out")
            r = subprocess.run([os.path.join(VERIF, "check"), w["property"], "--replay", path], env=env, stdout=subprocess.PIPE, stderr=subprocess.STDOUT, text=True)
            res = [l for l in r.stdout.splitlines() if l.startswith("RESULT")]
            res = res[-1] if res else "no RESULT line (rc %d) %s" % (r.returncode, r.stdout[-200:].replace("\n", " "))
            ok = res.startswith("RESULT fail")
            same = ("clause=" + w["clause"]) in res
            if not ok: bad += 1
            print("%-8s %-4s %-62s %s %s" % (f["id"], w["property"], os.path.basename(w["file"]), "reproduces" if ok else "DOES NOT REPRODUCE", "" if same else "[" + res[:120] + "]"), flush=True)
    finally:
        subprocess.run(["git", "-C", "/repo", "worktree", "remove", "--force", W + "/tree"], stdout=subprocess.DEVNULL, stderr=subprocess.DEVNULL)
        shutil.rmtree(W, ignore_errors=True)
print("%d witness(es) do not reproduce" % bad)
sys.exit(1 if bad else 0)
