#!/bin/sh
# Development aid: one-line hand mutant.  usage: mutant_line.sh <repo-relative file> <line> '<replacement line>' <prop> [<prop> ...]
f=$1; ln=$2; new=$3; shift 3
T=$(mktemp -d /tmp/vfml.XXXXXX)
python3 - "$f" "$ln" "$new" "$T/x" <<'PY'
import sys
f, ln, new, out = sys.argv[1], int(sys.argv[2]), sys.argv[3], sys.argv[4]
raw = open('/repo/' + f, 'rb').read().decode('latin-1'); crlf = '\r\n' in raw
ls = raw.replace('\r\n', '\n').split('\n'); ls[ln - 1] = new
t = '\n'.join(ls); t = t.replace('\n', '\r\n') if crlf else t
open(out, 'wb').write(t.encode('latin-1'))
PY
( cd /repo && git diff --no-index -- "$f" "$T/x" | sed "s#a$T/x#a/$f#g; s#b$T/x#b/$f#g; s#^--- a/.*#--- a/$f#; s#^+++ b/.*#+++ b/$f#; /^diff --git/d; /^index /d" ) > "$T/p.diff"
/verif/tools/mutant_run.sh "ml$ln" "$T/p.diff" "$@"
rm -rf "$T"
