#!/bin/sh
# usage: fixcommit.sh "<commit message>"   -- commits the working-tree change of /repo as one fix: commit and runs the baseline (development aid)
set -e
cd /repo
git -c user.name=builder -c user.email=builder@example.com commit -qam "$1"
git log --oneline | head -1
/verif/tools/baseline_off.sh
