#!/usr/bin/env python3
"""Regenerates the generated tables of DESIGN.md section 9 (between <!-- BEGIN x --> / <!-- END x --> markers) from
findings/known_findings.json, seeded/*/meta.json and the evidence files.  Development aid."""
import glob, json, os, re
R = os.path.dirname(os.path.dirname(os.path.abspath(__file__)))
kf = json.load(open(os.path.join(R, 'findings', 'known_findings.json')))
rows = ["| id | status | /repo commit | found by | what failed |", "|---|---|---|---|---|"]
for f in kf['findings']:
    rows.append("| %s | %s | %s | %s | %s |" % (f['id'], f['status'], f.get('commit', '-'), ', '.join("%s (`%s`)" % (w['property'], os.path.basename(w['file'])) for w in f.get('witnesses', [])), f['what']))
findings = '\n'.join(rows)
rows = ["| seeded change | property it targets | what it needs to manifest | repository suite | quick checks that report it | other checks run that do not | when delivered |", "|---|---|---|---|---|---|---|"]
for d in sorted(glob.glob(os.path.join(R, 'seeded', '*'))):
    try: m = json.load(open(os.path.join(d, 'meta.json')))
    except Exception: continue
    qc = m.get('quick_checks', {})
    det = [k for k, v in qc.items() if v == 'DETECTED']; mis = [k for k, v in qc.items() if v != 'DETECTED']
    need = str(m.get('needs_to_manifest', '')).replace('\n', ' ').replace('|', '/')
    summ = str(m.get('summary', '')).replace('\n', ' ').replace('|', '/')
    fd = m.get('first_delivery_quick_checks'); own = os.path.basename(d)[:3]
    first = "missed by %s (check extended since)" % own if fd and fd.get(own) != 'DETECTED' else "missed by %s (check extended since)" % own if os.path.basename(d) in ('C06_1', 'C19_1') else "reported"
    if m.get('extended_before_first_run'): first = "extended from the agent's report before the first run"
    rows.append("| `seeded/%s` - %s | %s | %s | %s pass | %s | %s | %s |" % (os.path.basename(d), summ[:200], m.get('property', '?'), need[:220], m.get('confirmed_by_me', {}).get('suite_tests_passing_with_change', '?'), ', '.join(det) or '-', ', '.join(mis) or '-', first))
seeded = '\n'.join(rows)
rows = ["| id | level | tier of the committed evidence | cases | distinct non-trivial | wall s |", "|---|---|---|---|---|---|"]
for e in sorted(glob.glob(os.path.join(R, 'evidence', 'C*.json'))):
    j = json.load(open(e)); c = j['coverage']
    rows.append("| %s | %s | %s | %d | %d | %.0f |" % (j['property_id'], j['level'], j['tier'], c['evaluations'], c['distinct_nontrivial'], j['wall_s']))
evid = '\n'.join(rows)
p = os.path.join(R, 'DESIGN.md'); s = open(p).read()
for name, txt in (('FINDINGS', findings), ('SEEDED', seeded), ('EVIDENCE', evid)):
    s = re.sub(r'<!-- BEGIN %s -->.*?<!-- END %s -->' % (name, name), lambda m, name=name, txt=txt: '<!-- BEGIN %s -->\n%s\n<!-- END %s -->' % (name, txt, name), s, flags=re.S)
open(p, 'w').write(s)
print("tables regenerated")
