#!/bin/sh
# Development aid (sensitivity measurement, DESIGN.md section 7) - never called by a registered check.
# usage: mutant_run.sh <name> <patch-file | revert:<commit>> <prop> [<prop> ...]
# Applies the change to a scratch git worktree of /repo (outside /repo and /verif), runs the quick tier of the given
# properties against it with a private build/evidence/out directory, prints one line per property, and removes
# the worktree together with its build output.
name=$1; what=$2; shift 2
W=/tmp/vfmut.$name.$$
git -C /repo worktree add -q --detach "$W/tree" HEAD >/dev/null 2>&1 || { echo "$name: cannot create worktree"; exit 2; }
trap 'git -C /repo worktree remove --force "$W/tree" >/dev/null 2>&1; rm -rf "$W"' EXIT
case "$what" in
  revert:*) c=${what#revert:}; ( cd "$W/tree" && git revert -n "$c" >/dev/null 2>&1 ) || { echo "$name: revert of $c does not apply cleanly"; exit 3; } ;;
  *) ( cd "$W/tree" && git apply "$what" ) || { echo "$name: patch does not apply"; exit 3; } ;;
esac
mkdir -p "$W/out" "$W/evidence"
for p in "$@"; do
  VF_REPO="$W/tree" VF_BUILD="$W/build" VF_EVIDENCE="$W/evidence" VF_OUT="$W/out" /verif/check "$p" --tier quick > "$W/log.$p" 2>&1
  rc=$?
  clause=$(grep -m1 "^\[check\] .*: " "$W/log.$p" | grep -v "quick seed" | cut -c1-200)
  if [ $rc -eq 1 ]; then echo "$name $p DETECTED  $clause"; elif [ $rc -eq 0 ]; then echo "$name $p missed"; else echo "$name $p ERROR rc=$rc $(tail -3 "$W/log.$p" | tr '\n' ' ' | cut -c1-300)"; fi
done
