#!/bin/sh
# Runs every claimed check (quick by default) against /repo and rewrites all evidence files. usage: run_all.sh [quick|thorough]
tier=${1:-quick}
cd "$(dirname "$0")/.."
mkdir -p out
rc=0
for p in $(python3 -c "import json; print(' '.join(c['property_id'] for c in json.load(open('MANIFEST.json'))['checks']))"); do
  ./check $p --tier $tier > out/last-$p.log 2>&1; r=$?
  tail -1 out/last-$p.log
  grep -E "^(VIOLATION|KNOWN-FINDING)" out/last-$p.log | cut -c1-200
  [ $r -ne 0 ] && rc=1
done
exit $rc
