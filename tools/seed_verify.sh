#!/bin/sh
# Development aid: confirm a seeded change delivered by a sub-agent (DESIGN.md section 7), run the quick checks against it
# and keep it under /verif/seeded/<name>/.   usage: seed_verify.sh <name e.g. C07_1> <prop> [<prop> ...]
name=$1; shift
S=/tmp/seed_$name/out
[ -f "$S/patch.diff" ] || { echo "$name: no patch.diff"; exit 2; }
W=/tmp/vfseed.$name.$$
mkdir -p "$W"
trap 'git -C /repo worktree remove --force "$W/mut" >/dev/null 2>&1; git -C /repo worktree remove --force "$W/clean" >/dev/null 2>&1; rm -rf "$W"' EXIT
git -C /repo worktree add -q --detach "$W/mut" HEAD >/dev/null 2>&1; git -C /repo worktree add -q --detach "$W/clean" HEAD >/dev/null 2>&1
( cd "$W/mut" && git apply "$S/patch.diff" ) || { echo "$name: patch does not apply to /repo HEAD"; exit 3; }
# 1. the existing suite still passes with the change
cmake -G Ninja -S "$W/mut" -B "$W/b" -DCMAKE_BUILD_TYPE=RelWithDebInfo -DCMAKE_C_FLAGS=-Wno-error >/dev/null 2>&1
cmake --build "$W/b" -- -k 0 >/dev/null 2>&1
tests=$(ctest --test-dir "$W/b" -j8 2>&1 | grep -E "tests passed|tests failed" | head -1)
npass=$(ctest --test-dir "$W/b" -j8 2>&1 | grep -c " Passed ")
rm -rf "$W/b"
# 2. the demonstration fails with the change and passes without it
sh "$S/run_demo.sh" "$W/mut" >"$W/demo_mut.log" 2>&1; dm=$?
sh "$S/run_demo.sh" "$W/clean" >"$W/demo_clean.log" 2>&1; dc=$?
echo "$name: suite with change: $npass passed ($tests); demo with change: exit $dm; demo without: exit $dc"
# 3. the checks
res=""
for p in "$@"; do
  mkdir -p "$W/out" "$W/evidence"
  VF_REPO="$W/mut" VF_BUILD="$W/build" VF_EVIDENCE="$W/evidence" VF_OUT="$W/out" /verif/check "$p" --tier quick > "$W/log.$p" 2>&1; rc=$?
  clause=$(grep "^\[check\] " "$W/log.$p" | grep -v "quick seed" | head -1 | cut -c1-220)
  if [ $rc -eq 1 ]; then r="DETECTED"; elif [ $rc -eq 0 ]; then r="missed"; else r="ERROR($rc)"; fi
  echo "   $p: $r $clause"
  res="$res $p:$r"
done
D=/verif/seeded/$name; mkdir -p "$D"
cp "$S/patch.diff" "$D/patch.diff"; cp "$S/demo.c" "$S/run_demo.sh" "$D/" 2>/dev/null
python3 - "$S/meta.json" "$D/meta.json" "$npass" "$dm" "$dc" "$res" <<'PY'
import json, sys
src, dst, npass, dm, dc, res = sys.argv[1:7]
try: m = json.load(open(src))
except Exception: m = {}
m['confirmed_by_me'] = {"suite_tests_passing_with_change": int(npass), "demo_exit_with_change": int(dm), "demo_exit_without_change": int(dc),
                        "how": "tools/seed_verify.sh: patch applied to a scratch worktree of /repo HEAD, repository suite built and run (250 expected), run_demo.sh on the changed and on a clean worktree"}
m['quick_checks'] = {x.split(':')[0]: x.split(':')[1] for x in res.split()}
json.dump(m, open(dst, 'w'), indent=1)
PY
