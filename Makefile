# Builds the verification binaries from /repo's CURRENT working tree (sources are compiled in place,
# nothing is copied) plus the harness.  Dependency files (-MMD) make every edit under /repo/src rebuild
# exactly what depends on it; new .c files are picked up by the wildcard on every invocation.
MAKEFLAGS += -rR
.SUFFIXES:
REPO ?= /repo
B    ?= /verif/build
CC   := clang
CXX  := clang++
GUARD := -DCANOPEN_STACK_VERIF
Q ?= @

INC := $(addprefix -I$(REPO)/src/,config core hal object/basic object/cia301 service/cia301 service/cia305)
STACK_SRC := $(filter-out $(REPO)/src/driver/%,$(shell find $(REPO)/src -name '*.c' | sort))
SAN  := -fsanitize=address,undefined -fno-sanitize=alignment -fno-sanitize-recover=undefined -fno-omit-frame-pointer
COPT := -g -O1 $(SAN) $(GUARD)
HARN_SRC := $(wildcard engine/*.cpp sim/*.cpp model/*.cpp props/*.cpp)
HDRS := $(wildcard engine/*.h sim/*.h model/*.h props/*.h fuzz/*.h)

DEF_n1 := -DVF_BUILD=1
DEF_n2 := -DVF_BUILD=2 -DCO_SSDO_N=2 -DCO_CSDO_N=2 -DCO_TPDO_N=6 -DCO_RPDO_N=5 -DCO_EMCY_N=41
DEF_f1 := -DVF_BUILD=1 -DVF_FUZZ
DEF_f2 := -DVF_BUILD=2 -DCO_SSDO_N=2 -DCO_CSDO_N=2 -DCO_TPDO_N=6 -DCO_RPDO_N=5 -DCO_EMCY_N=41 -DVF_FUZZ
INS_n1 := -fsanitize-coverage=trace-pc-guard
INS_n2 := -fsanitize-coverage=trace-pc-guard
INS_f1 := -fsanitize=fuzzer-no-link
INS_f2 := -fsanitize=fuzzer-no-link
FUZZ_SRC := $(filter-out engine/main.cpp,$(HARN_SRC)) fuzz/fuzz_main.cpp

# $(1) build, $(2) stack source
define STACKRULE
$(B)/$(1)/stack/$(basename $(notdir $(2))).o: $(2)
	@mkdir -p $$(dir $$@)
	$(Q)$(CC) -std=c99 $(COPT) $(DEF_$(1)) $(INS_$(1)) $(INC) -MMD -MP -c $(2) -o $$@
OBJ_$(1) += $(B)/$(1)/stack/$(basename $(notdir $(2))).o
endef
# $(1) build, $(2) harness source
define HARNRULE
$(B)/$(1)/h/$(subst /,_,$(basename $(2))).o: $(2) $(HDRS)
	@mkdir -p $$(dir $$@)
	$(Q)$(CXX) -std=gnu++17 $(COPT) $(DEF_$(1)) $(HINS_$(1)) $(INC) -I. -MMD -MP -c $(2) -o $$@
OBJ_$(1) += $(B)/$(1)/h/$(subst /,_,$(basename $(2))).o
endef
define BINRULE
$(B)/$(1)/vf: $$(OBJ_$(1))
	$(Q)$(CXX) $(SAN) -o $$@ $$^
endef

HINS_f1 := -fsanitize=fuzzer-no-link
HINS_f2 := -fsanitize=fuzzer-no-link
define FUZZBIN
$(B)/$(1)/fz: $$(OBJ_$(1))
	$(Q)$(CXX) $(SAN) -fsanitize=fuzzer -o $$@ $$^
endef
$(foreach b,n1 n2 f1 f2,$(foreach s,$(STACK_SRC),$(eval $(call STACKRULE,$(b),$(s)))))
$(foreach b,n1 n2,$(foreach s,$(HARN_SRC),$(eval $(call HARNRULE,$(b),$(s)))))
$(foreach b,f1 f2,$(foreach s,$(FUZZ_SRC),$(eval $(call HARNRULE,$(b),$(s)))))
$(foreach b,n1 n2,$(eval $(call BINRULE,$(b))))
$(foreach b,f1 f2,$(eval $(call FUZZBIN,$(b))))

.PHONY: all n1 n2 f1 f2 fuzz clean
all: n1 n2
fuzz: f1 f2
n1: $(B)/n1/vf
n2: $(B)/n2/vf
f1: $(B)/f1/fz
f2: $(B)/f2/fz
clean:
	rm -rf $(B)

-include $(OBJ_n1:.o=.d) $(OBJ_n2:.o=.d) $(OBJ_f1:.o=.d) $(OBJ_f2:.o=.d)
