// libFuzzer entry point: the fuzzer's byte string IS the choice tape of the property's case function, so the corpus,
// the crash artifacts and the replay files of the deterministic driver share one encoding (DESIGN.md §2.1).
// The semantic oracle lives inside the case function; an oracle failure aborts, which libFuzzer records as a crash.
#include "engine/engine.h"
#include <cstdio>
#include <cstdlib>
#include <cstring>
#include <map>
#include <unistd.h>

namespace vf { extern void (*g_fail_hook)(const char *clause, const char *msg); }

static const vf::Prop *P = nullptr;
static const vf::Mode *M = nullptr;
static bool g_thorough = false;

static void on_fail(const char *clause, const char *msg) {
  fprintf(stderr, "\nVF-ORACLE-FAILURE clause=%s: %s\n", clause, msg);
  fflush(stderr);
  abort();
}

extern "C" int LLVMFuzzerInitialize(int *argc, char ***argv) {
  (void)argc; (void)argv;
  const char *p = getenv("VF_FUZZ_PROP"), *m = getenv("VF_FUZZ_MODE");
  P = vf::find_prop(p ? p : "C01");
  if (!P) { fprintf(stderr, "unknown property\n"); exit(2); }
  for (auto &x : P->modes) if ((!m && !x.enumerate) || (m && !strcmp(m, x.name))) { M = &x; break; }
  if (!M) { fprintf(stderr, "unknown mode\n"); exit(2); }
  g_thorough = getenv("VF_FUZZ_THOROUGH") != nullptr;
  vf::g_fail_hook = on_fail;
  return 0;
}

extern "C" int LLVMFuzzerTestOneInput(const uint8_t *data, size_t size) {
  static std::map<std::string, uint64_t> classes;
  if (classes.size() > 4096) classes.clear();
  vf::Ctx c; c.classes = &classes;
#ifdef VF_BUILD
  c.build = VF_BUILD;
#endif
  c.t.reset(data, size);
  c.param = g_thorough ? M->thorough_param : M->quick_param;
  c.thorough = g_thorough;
  M->fn(c);
  return 0;
}
