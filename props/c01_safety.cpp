// C01 - no frame, tick or driver-fault sequence can corrupt memory or crash the node (DESIGN.md §5 C01)
// The oracle is the build itself (ASan red zones around every block handed to the stack, UBSan incl. bounds of the
// fixed arrays inside CO_NODE, no fatal-error callback, per-call control-flow edge budget, bounded transmissions per
// processed frame) plus a structural walk of the timer lists after every step.
#include "model/node.h"
using namespace vf;

namespace {

uint32_t ut_size(CO_OBJ *o, CO_NODE *n, uint32_t w) { (void)o; (void)n; (void)w; return 4; }
CO_ERR ut_read(CO_OBJ *o, CO_NODE *n, void *b, uint32_t s) { (void)n; if (s != 4) return CO_ERR_BAD_ARG; memcpy(b, (void *)o->Data, 4); return CO_ERR_NONE; }
CO_ERR ut_write(CO_OBJ *o, CO_NODE *n, void *b, uint32_t s) { if (s != 4) return CO_ERR_BAD_ARG; uint32_t v; memcpy(&v, b, 4); if (v & 1) { COObjTypeUserSDOAbort(o, n, 0x0A0B0C0D); return CO_ERR_TYPE_WR; } memcpy((void *)o->Data, &v, 4); return CO_ERR_NONE; }
const CO_OBJ_TYPE UserType = {ut_size, 0, ut_read, ut_write, 0};

void cs_done(CO_CSDO *c, uint16_t i, uint8_t s, uint32_t code) { (void)c; (void)i; (void)s; if (g_sim) { Event e; e.k = EV_CSDO; e.tick = g_sim->tick; e.a = code; e.b = 0; g_sim->ev.push_back(e); } }
void app_cb(void *p) { if (g_sim) { Event e; e.k = EV_APPTMR; e.tick = g_sim->tick; e.a = (uint32_t)(uintptr_t)p; e.b = 0; g_sim->ev.push_back(e); } }

const uint8_t ALPHA[] = {0x20, 0x21, 0x22, 0x23, 0x2F, 0x2B, 0x27, 0x40, 0x00, 0x10, 0x01, 0x11, 0x03, 0x13, 0x0D, 0x1D, 0x60, 0x70, 0xC0, 0xC2, 0xC4, 0xC6, 0xC1, 0xC5, 0xDD, 0xA0, 0xA4, 0xA3, 0xA2, 0xA1, 0x80, 0x81, 0x02, 0x7F, 0xFF, 0xE0, 0x41};

}  // namespace

namespace vf {

void c01_case(Ctx &c) {
  Sim s(c); World w(s);
  // ---------------------------------------------------------------- configuration
  bool lss_unconfigured = c.t.chance(12);
  s.nodeid = lss_unconfigured ? 255 : (uint8_t)(1 + c.t.below(127));
  static const uint32_t FREQ[8] = {1000, 100, 10000, 1000000, 300, 1500, 2500, 1};
  s.freq = FREQ[c.t.weighted((const uint16_t[]){20, 6, 6, 3, 3, 3, 3, 1}, 8)];
  s.ntmr = (uint16_t)(1 + c.t.below(16));
  uint32_t OPT = c.t.u32();
  if (c.t.chance(200)) OPT |= 0x0003FFFFu;          // mostly keep the standard objects
  auto HAS = [&](int b) { return (OPT >> b) & 1u; };
  uint8_t nid = s.nodeid;
  std::vector<std::pair<uint16_t, uint8_t>> mux;   // multiplexers worth addressing
  auto M = [&](uint16_t i, uint8_t sb) { mux.push_back({i, sb}); };
  if (HAS(0)) { s.add(CO_KEY(0x1000, 0, CO_OBJ_D___R_), CO_TUNSIGNED32, 0x191); M(0x1000, 0); }
  if (HAS(1)) { s.add(CO_KEY(0x1001, 0, CO_OBJ____PR_), CO_TUNSIGNED8, (CO_DATA)s.var<uint8_t>("1001", 0)); M(0x1001, 0); }
  if (HAS(2)) { int depth = (int)c.t.below(9); if (depth) { add_emcy_hist(w, depth); M(0x1003, 0); M(0x1003, 1); M(0x1003, (uint8_t)depth); } }
  uint32_t syncid = (c.t.coin() ? 0x80u : 0x80u + c.t.below(3)) | (c.t.coin() ? 0x40000000u : 0) | (c.t.chance(10) ? 0x20000000u : 0);
  if (HAS(3)) { add_sync(w, syncid, c.t.coin() ? 1000u * c.t.below(8) : c.t.u32() % 100000, HAS(4)); M(0x1005, 0); M(0x1006, 0); }
  int npara = 0; std::vector<CO_PARA *> paras;
  if (HAS(5)) {
    npara = 1 + (int)c.t.below(4); uint32_t off = 0;
    for (int i = 0; i < npara; i++) {
      CO_PARA *p = (CO_PARA *)s.alloc(sizeof(CO_PARA), "para-ctl", false); uint32_t sz = 1 + c.t.below(64);
      p->Offset = off; p->Size = sz; p->Start = s.alloc(sz, "para-ram"); p->Default = s.alloc(sz, "para-def", false); p->Type = (CO_NMT_RESET)(1 + c.t.below(2)); p->Ident = 0; p->Value = c.t.coin() ? CO_PARA___E : 0; off += sz; paras.push_back(p);
      if (HAS(25) && npara >= 3 && i + 1 == 2) { c.cls("parameter-object-with-a-missing-sub-index"); continue; }   // an optional sub-index in the middle is absent (sub-index 0 still names the highest one)
      s.add(CO_KEY(0x1010, i + 1, CO_OBJ_____RW), CO_TPARA_STORE, (CO_DATA)p);
      if (HAS(6)) s.add(CO_KEY(0x1011, i + 1, CO_OBJ_____RW), CO_TPARA_RESTORE, (CO_DATA)p);
    }
    s.add(CO_KEY(0x1010, 0, CO_OBJ_D___R_), CO_TPARA_STORE, (CO_DATA)npara); if (HAS(6)) s.add(CO_KEY(0x1011, 0, CO_OBJ_D___R_), CO_TPARA_RESTORE, (CO_DATA)npara);
    s.nvm.assign(off + 4, 0x5A); M(0x1010, 1); M(0x1011, 1); M(0x1010, (uint8_t)npara);
  }
  if (HAS(7)) { s.add(CO_KEY(0x1014, 0, CO_OBJ__N__RW), CO_TEMCY_ID, (CO_DATA)s.var<uint32_t>("1014", c.t.chance(30) ? 0x80000080u : 0x80)); M(0x1014, 0); }
  std::vector<CO_HBCONS *> hbc;
  if (HAS(8)) { int n = (int)c.t.below(5); std::vector<std::pair<uint8_t, uint16_t>> e; for (int i = 0; i < n; i++) { bool on = c.t.coin(); e.push_back({(uint8_t)(on ? 5 + i : 0), (uint16_t)(on ? 1 + c.t.below(40) : 0)}); } hbc = add_hbcons(w, e); M(0x1016, 0); if (n) { M(0x1016, 1); M(0x1016, (uint8_t)n); } }
  if (HAS(9)) { s.add(CO_KEY(0x1017, 0, CO_OBJ_____RW), CO_THB_PROD, (CO_DATA)s.var<uint16_t>("1017", c.t.coin() ? 0 : (uint16_t)(1 + c.t.below(50)))); M(0x1017, 0); }
  if (HAS(10)) { int subs = HAS(11) ? 4 : (int)c.t.below(4); s.add(CO_KEY(0x1018, 0, CO_OBJ_D___R_), CO_TUNSIGNED8, (CO_DATA)subs); for (int i = 1; i <= subs; i++) s.add(CO_KEY(0x1018, i, CO_OBJ_D___R_), CO_TUNSIGNED32, 0x11111111u * i); M(0x1018, 1); }
  bool sdo_rw = c.t.coin(); uint32_t req[2] = {0, 0}, rsp[2] = {0, 0};
  for (int n = 0; n < CO_SSDO_N; n++) if (HAS(12 + n)) {
    uint32_t rq = n ? 0x640 : 0x600, rs = n ? 0x5C0 : 0x580; req[n] = rq + nid; rsp[n] = rs + nid;
    s.add(CO_KEY(0x1200 + n, 0, CO_OBJ_D___R_), CO_TUNSIGNED8, 2);
    if (sdo_rw) { s.add(CO_KEY(0x1200 + n, 1, CO_OBJ__N__RW), CO_TSDO_ID, (CO_DATA)s.var<uint32_t>("120x:1", rq)); s.add(CO_KEY(0x1200 + n, 2, CO_OBJ__N__RW), CO_TSDO_ID, (CO_DATA)s.var<uint32_t>("120x:2", rs)); }
    else { s.add(CO_KEY(0x1200 + n, 1, CO_OBJ_DN__R_), CO_TUNSIGNED32, rq); s.add(CO_KEY(0x1200 + n, 2, CO_OBJ_DN__R_), CO_TUNSIGNED32, rs); }
    M((uint16_t)(0x1200 + n), 1); M((uint16_t)(0x1200 + n), 2);
  }
  uint32_t ctx[2] = {0, 0}, crx[2] = {0, 0};
  for (int n = 0; n < CO_CSDO_N; n++) if (HAS(14 + n)) {
    uint8_t sn = (uint8_t)(0x20 + n); ctx[n] = 0x600u + sn; crx[n] = 0x580u + sn;
    s.add(CO_KEY(0x1280 + n, 0, CO_OBJ_D___R_), CO_TUNSIGNED8, 3);
    s.add(CO_KEY(0x1280 + n, 1, CO_OBJ_____RW), CO_TUNSIGNED32, (CO_DATA)s.var<uint32_t>("128x:1", 0x600 | (c.t.chance(20) ? 0x80000000u : 0)));
    s.add(CO_KEY(0x1280 + n, 2, CO_OBJ_____RW), CO_TUNSIGNED32, (CO_DATA)s.var<uint32_t>("128x:2", 0x580));
    s.add(CO_KEY(0x1280 + n, 3, CO_OBJ_____RW), CO_TUNSIGNED8, (CO_DATA)s.var<uint8_t>("128x:3", sn));
    M((uint16_t)(0x1280 + n), 1);
  }
  // application objects of every basic kind
  int sub = 1;
  for (int width : {1, 2, 4}) for (int k = 0; k < 3; k++) { w.add_int(0x2100, (uint8_t)sub, width, k == 1, k == 2, true, true, c.t.u16(), true, k != 1 && c.t.coin()); M(0x2100, (uint8_t)sub); sub++; }
  w.add_int(0x2100, 10, 4, false, false, true, false, 7, true); w.add_int(0x2100, 11, 4, false, false, false, true, 7, true); M(0x2100, 10); M(0x2100, 11); M(0x2100, 12);
  s.add(CO_KEY(0x2100, 0, CO_OBJ_D___R_), CO_TUNSIGNED8, 11);
  static const uint32_t DM[6] = {4, 7, 889, 890, 1778, 3000};
  uint32_t dsz = c.t.biased(1, 4000, DM, 6); w.add_domain(0x2001, 0, dsz, true, true, 3); M(0x2001, 0);
  w.add_domain(0x2007, 0, 1 + c.t.below(4), true, true, 4); M(0x2007, 0);
  w.add_string(0x2008, 0, c.t.below(60), 5); M(0x2008, 0);
  { uint8_t *st = s.alloc(4, "user-type"); s.add(CO_KEY(0x2300, 0, CO_OBJ_____RW), &UserType, (CO_DATA)st); M(0x2300, 0); }
  if (HAS(16)) { s.add(CO_KEY(0x0005, 0, CO_OBJ____PRW), CO_TUNSIGNED8, (CO_DATA)s.var<uint8_t>("0005", 0)); s.add(CO_KEY(0x0006, 0, CO_OBJ____PRW), CO_TUNSIGNED16, (CO_DATA)s.var<uint16_t>("0006", 0)); s.add(CO_KEY(0x0007, 0, CO_OBJ____PRW), CO_TUNSIGNED32, (CO_DATA)s.var<uint32_t>("0007", 0)); M(0x0005, 0); }
  M(0x3000, 0); M(0x2001, 1);
  // PDO channels with arbitrary stored parameters
  static const uint32_t MV[16] = {0x21000108, 0x21000408, 0x21000510, 0x21000720, 0x21000818, 0x00050008, 0x00020008, 0x00070020, 0x00060010, 0x00030010, 0x21000100, 0x21000340, 0x30000108, 0x20010008, 0x21000A20, 0x21000B20};
  uint32_t tpid[4] = {0, 0, 0, 0}, rpid[4] = {0, 0, 0, 0};
  for (int p = 0; p < CO_TPDO_N && p < 4; p++) if (HAS(17 + p) || c.t.chance(60)) {   // (build n2 has room for 6 TPDOs / 5 RPDOs: the pre-defined connection set names four of each)
    bool wild = c.t.chance(90); std::vector<uint32_t> maps; int n = wild ? (int)c.t.below(10) : 1 + (int)c.t.below(3); int slots = wild ? (int)c.t.below(9) : 8;
    for (int i = 0; i < n && i < 8; i++) maps.push_back(wild ? MV[c.t.below(16)] : MV[c.t.below(5)]);
    tpid[p] = 0x180u + 0x100u * p + (nid & 0x7F);
    uint32_t id = 0x40000000u | tpid[p]; if (c.t.chance(40)) id |= 0x80000000u; if (wild && c.t.chance(40)) id ^= 0x40000000u; if (wild && c.t.chance(20)) id |= 0x20000000u;
    TpdoCfg t = add_tpdo(w, p, id, wild ? c.t.byte() : (uint8_t)(c.t.coin() ? 254 : 1 + c.t.below(3)), c.t.coin() ? (uint16_t)(10 * c.t.below(6)) : c.t.u16(), c.t.coin() ? (uint16_t)c.t.below(12) : c.t.u16(), maps, slots, c.t.chance(230), c.t.chance(230));
    if (wild) *t.num = (uint8_t)n;
    M((uint16_t)(0x1800 + p), 1); M((uint16_t)(0x1800 + p), 2); M((uint16_t)(0x1800 + p), 3); M((uint16_t)(0x1800 + p), 5); M((uint16_t)(0x1A00 + p), 0); M((uint16_t)(0x1A00 + p), 1);
  }
  for (int p = 0; p < CO_RPDO_N && p < 4; p++) if (HAS(21 + p) || c.t.chance(60)) {
    bool wild = c.t.chance(90); std::vector<uint32_t> maps; int n = wild ? (int)c.t.below(10) : 1 + (int)c.t.below(3); int slots = wild ? (int)c.t.below(9) : 8;
    for (int i = 0; i < n && i < 8; i++) maps.push_back(wild ? MV[c.t.below(16)] : MV[c.t.below(10)]);
    rpid[p] = c.t.chance(30) ? 0x200u + (nid & 0x7F) : 0x200u + 0x100u * p + (nid & 0x7F);
    uint32_t id = rpid[p]; if (c.t.chance(40)) id |= 0x80000000u; if (wild && c.t.chance(20)) id |= 0x20000000u;
    RpdoCfg r = add_rpdo(w, p, id, wild ? c.t.byte() : (uint8_t)(c.t.coin() ? 254 : c.t.below(3)), maps, slots);
    if (wild) *r.num = (uint8_t)n;
    M((uint16_t)(0x1400 + p), 1); M((uint16_t)(0x1400 + p), 2); M((uint16_t)(0x1600 + p), 0); M((uint16_t)(0x1600 + p), 1);
  }
  s.with_emcy_tbl = !c.t.chance(16);
  if (c.t.chance(30)) { s.lss_have = true; s.lss_node = (uint8_t)(1 + c.t.below(127)); s.lss_baud = 125000; }
  bool well_formed_only = true; (void)well_formed_only;
  s.init();
  if (s.init_err == CO_ERR_OBJ_INIT || s.init_err == CO_ERR_DICT_INIT) { c.cls("discarded-dictionary-contradicts-itself"); return; }   // the stack told the application so at initialisation
  if (c.t.chance(240)) s.start();
  s.clear_tx(); s.clear_ev();
  nid = s.node->NodeId;
  VLOG(c, "node %u, %u Hz, %u timer slots, options %08X, %zu dictionary entries, init error %d", nid, s.freq, s.ntmr, OPT, s.ndict, s.init_err);
  // ---------------------------------------------------------------- history
  std::vector<uint8_t *> userbufs; int apptm[3] = {-1, -1, -1}; bool appcyc[3] = {false, false, false};
  struct { uint16_t idx; uint8_t sub; uint32_t size; bool up; uint8_t tgl; } creq[2] = {{0x2000, 0, 4, true, 0}, {0x2000, 0, 4, true, 0}};
  uint64_t tx0 = s.tx_total; size_t evcount = 0; bool fault_used = false; bool pending_process = false;
  auto after = [&](const char *what) {
    std::string e = s.tmr_check(false);
    CHECK(c, e.empty(), "timer-lists-consistent", "after %s: %s", what, e.c_str());
    for (auto &ev : s.ev) if (ev.k == EV_APPTMR) { int k = (int)ev.a; if (k >= 0 && k < 3 && !appcyc[k]) apptm[k] = -1; }
    evcount += s.ev.size(); s.clear_ev(); s.clear_tx();
  };
  auto rxf = [&](const Frame &f) { VLOG(c, "rx %s", f.str().c_str()); s.rx(f); };
  auto sdoframe = [&](int n, uint8_t cmd, uint16_t idx, uint8_t sb, uint32_t d) { Frame f; f.id = req[n] ? req[n] : (n ? 0x640u : 0x600u) + nid; f.dlc = 8; f.d[0] = cmd; f.d[1] = (uint8_t)idx; f.d[2] = (uint8_t)(idx >> 8); f.d[3] = sb; for (int i = 0; i < 4; i++) f.d[4 + i] = (uint8_t)(d >> (8 * i)); return f; };
  int nops = 0, maxops = c.thorough ? 400 : 300;
  while (!c.t.exhausted() && nops++ < maxops) {
    c.ops++;
    static const uint16_t W[18] = {40, 10, 14, 22, 6, 16, 10, 8, 8, 8, 10, 8, 6, 4, 6, 6, 3, 2};
    uint32_t op = c.t.weighted(W);
    int sn = CO_SSDO_N > 1 ? (int)c.t.below(2) : 0;
    switch (op) {
      case 0: {   // structured SDO request: each field from its grammar, independently perturbed
        auto m = mux[c.t.below((uint32_t)mux.size())]; uint8_t cmd = c.t.chance(230) ? ALPHA[c.t.below(sizeof ALPHA)] : c.t.byte();
        uint32_t d; uint32_t how = c.t.below(5);
        if (how == 0) d = 0; else if (how == 1) { static const uint32_t SZ[10] = {1, 2, 4, 5, 7, 8, 127, 889, 890, 4000}; d = SZ[c.t.below(10)]; } else if (how == 2) d = c.t.byte(); else if (how == 3) d = 0x65766173u ^ (c.t.coin() ? 0 : 0x01170E1Fu); else d = c.t.u32();
        Frame f = sdoframe(sn, cmd, c.t.chance(240) ? m.first : c.t.u16(), c.t.chance(230) ? m.second : c.t.byte(), d); if (c.t.chance(8)) f.dlc = (uint8_t)c.t.below(16);
        rxf(f); after("an SDO request"); break;
      }
      case 1: { Frame f = sdoframe(sn, 0, 0, 0, 0); for (int i = 0; i < 8; i++) f.d[i] = c.t.byte(); rxf(f); after("a raw SDO frame"); break; }
      case 2: {   // any identifier, any DLC (incl. 9..15), any payload
        static const uint32_t IDS[20] = {0x000, 0x080, 0x081, 0x100, 0x180, 0x200, 0x300, 0x400, 0x500, 0x580, 0x600, 0x640, 0x700, 0x705, 0x706, 0x7E4, 0x7E5, 0x7FF, 0x5A0, 0x5A1};
        Frame f; uint32_t k = c.t.below(5); f.id = k == 0 ? c.t.below(0x800) : k == 1 ? c.t.u32() : IDS[c.t.below(20)] + (c.t.coin() ? (nid & 0x7F) : 0); f.dlc = (uint8_t)(c.t.chance(20) ? 9 + c.t.below(7) : c.t.below(9)); for (int i = 0; i < 8; i++) f.d[i] = c.t.byte();
        rxf(f); after("a raw frame"); break;
      }
      case 3: {   // timer: ticks with processing, or service only (processing deferred)
        uint32_t n = c.t.coin() ? 1 : 1 + c.t.below(c.t.coin() ? 16 : 400); bool defer = c.t.chance(40);
        if (n > 20 && s.freq > 100000) n = 20 + n % 50;
        VLOG(c, "%u tick(s)%s", n, defer ? ", processing deferred" : "");
        for (uint32_t i = 0; i < n; i++) { s.service(); if (!defer) s.process_timers(); } pending_process = defer;
        after("timer ticks"); break;
      }
      case 4: { VLOG(c, "COTmrProcess"); s.process_timers(); pending_process = false; after("deferred timer processing"); break; }
      case 5: {   // conforming SDO dialogue (5 kinds), cut or corrupted at a generated step
        uint32_t kind = c.t.below(7); int cut = 1 + (int)c.t.below(c.t.coin() ? 6 : 140); int corrupt = c.t.chance(80) ? (int)c.t.below(cut) : -1;
        static const uint16_t OBJ[5] = {0x2001, 0x2007, 0x2008, 0x2100, 0x2300}; uint16_t idx = OBJ[c.t.below(5)]; uint8_t sb = idx == 0x2100 ? (uint8_t)(1 + c.t.below(11)) : 0;
        VLOG(c, "SDO dialogue kind %u on %04X:%02X, cut after %d frames, corrupt at %d", kind, idx, sb, cut, corrupt);
        std::vector<Frame> dlg;
        if (kind == 0) { dlg.push_back(sdoframe(sn, 0x40, idx, sb, 0)); for (int i = 0; i < cut; i++) dlg.push_back(sdoframe(sn, (uint8_t)(0x60 | ((i & 1) << 4)), 0, 0, 0)); }
        else if (kind == 1) { dlg.push_back(sdoframe(sn, 0x21, idx, sb, c.t.coin() ? dsz : 1 + c.t.below(4000))); for (int i = 0; i < cut; i++) { Frame f = sdoframe(sn, (uint8_t)(((i & 1) << 4) | (i + 2 >= cut ? 1 : 0)), 0, 0, 0); for (int k = 1; k < 8; k++) f.d[k] = (uint8_t)(i + k); dlg.push_back(f); } }
        else if (kind == 2) { dlg.push_back(sdoframe(sn, c.t.coin() ? 0xC2 : 0xC0, idx, sb, c.t.coin() ? dsz : 1 + c.t.below(4000))); for (int i = 1; i <= cut; i++) { Frame f = sdoframe(sn, (uint8_t)(((i - 1) % 127 + 1) | (i >= cut ? 0x80 : 0)), 0, 0, 0); for (int k = 1; k < 8; k++) f.d[k] = (uint8_t)(i * k); dlg.push_back(f); if (f.d[0] & 0x80) { dlg.push_back(sdoframe(sn, (uint8_t)(0xC1 | (c.t.below(8) << 2)), 0, 0, 0)); break; } } }
        else if (kind == 3) { dlg.push_back(sdoframe(sn, 0xA0, idx, sb, 1 + c.t.below(127))); dlg.push_back(sdoframe(sn, 0xA3, 0, 0, 0)); for (int i = 0; i < cut; i++) { Frame f = sdoframe(sn, 0xA2, 0, 0, 0); f.d[1] = (uint8_t)c.t.below(128); f.d[2] = (uint8_t)(c.t.chance(230) ? 1 + c.t.below(127) : c.t.byte()); f.d[3] = 0; dlg.push_back(f); } dlg.push_back(sdoframe(sn, 0xA1, 0, 0, 0)); }
        else if (kind == 4) { uint32_t v = c.t.u32(); dlg.push_back(sdoframe(sn, (uint8_t)(0x23 | (c.t.below(4) << 2)), idx, sb, v)); dlg.push_back(sdoframe(sn, 0x40, idx, sb, 0)); }
        else if (kind == 6) {   // block download: full sub-blocks of 127 segments without a last flag, then the end frame
          dlg.push_back(sdoframe(sn, c.t.coin() ? 0xC2 : 0xC0, idx, sb, c.t.coin() ? dsz : 1 + c.t.below(4000))); int blocks = 1 + (int)c.t.below(3);
          for (int i = 0; i < blocks * 127; i++) { Frame f = sdoframe(sn, (uint8_t)(i % 127 + 1), 0, 0, 0); for (int k = 1; k < 8; k++) f.d[k] = (uint8_t)(i + k); dlg.push_back(f); }
          dlg.push_back(sdoframe(sn, (uint8_t)(0xC1 | (c.t.below(8) << 2)), 0, 0, 0)); cut = (int)dlg.size(); corrupt = -1;
        }
        else { dlg.push_back(sdoframe(sn, 0xC2, 0x2007, 0, 2)); Frame f = sdoframe(sn, 0x81, 1, 2, 3); dlg.push_back(f); dlg.push_back(f); dlg.push_back(sdoframe(sn, (uint8_t)(0xC1 | (5 << 2)), 0, 0, 0)); }
        // a quarter of the block-upload dialogues are played by a conforming client to their regular end - every sub-block acknowledged in full, the end
        // confirmed - and followed at once by a segmented download to a small object (the transfer buffer a finished transfer leaves behind is the next
        // transfer's starting point); decided from the cut position, no tape choice
        if (kind == 3 && cut % 4 == 0) {
          VLOG(c, "  (conforming block upload to its end, then a segmented download to a small object)");
          s.clear_tx(); s.rx(dlg[0]); bool ok = !s.tx.empty() && (s.tx.back().d[0] & 0xE0) == 0xC0; s.clear_tx();
          if (ok) { s.rx(dlg[1]);
            for (int guard = 0; guard < 40; guard++) {
              int nseg = 0; bool last = false; for (auto &t : s.tx) if (t.id == (sn ? 0x5C0u : 0x580u) + (nid & 0x7F)) { nseg++; if (t.d[0] & 0x80) last = true; }
              if (nseg == 0) break;
              s.clear_tx(); Frame a = sdoframe(sn, 0xA2, 0, 0, 0); a.d[1] = (uint8_t)nseg; a.d[2] = 127; a.d[3] = 0; s.rx(a);
              if (last) { s.clear_tx(); s.rx(sdoframe(sn, 0xA1, 0, 0, 0)); break; }
            }
            s.clear_tx(); uint8_t ssb = (uint8_t)(1 + c.t.below(11)); s.rx(sdoframe(sn, 0x21, 0x2100, ssb, 1 + c.t.below(4))); Frame g = sdoframe(sn, (uint8_t)(0x01 | (c.t.below(8) << 1)), 0, 0, 0); for (int k = 1; k < 8; k++) g.d[k] = c.t.byte(); s.rx(g);
            c.cls("block-upload-to-its-end-then-segmented-download-to-a-small-object");
          }
          after("an SDO dialogue"); break;
        }
        bool docut = c.t.coin();
        int cnt = 0; for (auto &f : dlg) { if (docut && cnt >= cut) break; if (cnt == corrupt) { f.d[c.t.below(8)] ^= (uint8_t)(1u << c.t.below(8)); } s.rx(f); cnt++; }
        after("an SDO dialogue"); break;
      }
      case 6: {   // run of block segments
        uint32_t len = 1 + c.t.below(140), start = c.t.coin() ? 1 : 1 + c.t.below(127); bool lastf = c.t.coin();
        VLOG(c, "run of %u block segments from sequence number %u", len, start);
        for (uint32_t q = 0; q < len; q++) { Frame f = sdoframe(sn, (uint8_t)(((start + q - 1) % 127 + 1) | ((q + 1 == len && lastf) ? 0x80 : 0)), 0, 0, 0); for (int i = 1; i < 8; i++) f.d[i] = (uint8_t)(q * 7 + i); s.rx(f); }
        after("a run of block segments"); break;
      }
      case 7: {   // NMT command
        static const uint8_t CS[7] = {1, 2, 128, 129, 130, 0, 99}; Frame f = Frame::mk(0, (uint8_t)(c.t.chance(230) ? 2 : c.t.below(9)), {CS[c.t.below(7)], (uint8_t)(c.t.coin() ? 0 : c.t.coin() ? nid : c.t.byte())});
        rxf(f); nid = s.node->NodeId; after("an NMT command"); break;
      }
      case 8: {   // LSS frame (all services incl. activate bit timing)
        static const uint8_t LC[22] = {4, 64, 65, 66, 67, 21, 19, 17, 23, 90, 91, 92, 93, 94, 70, 71, 72, 73, 74, 75, 76, 99};
        Frame f; f.id = 0x7E5; f.dlc = 8; f.d[0] = LC[c.t.below(22)]; uint32_t a = c.t.coin() ? 0x11111111u * (1 + c.t.below(4)) : c.t.u32(); for (int i = 0; i < 4; i++) f.d[1 + i] = (uint8_t)(a >> (8 * i));
        if (f.d[0] == 4 || f.d[0] == 17 || f.d[0] == 19) { f.d[1] = (uint8_t)(c.t.coin() ? c.t.below(2) : c.t.byte()); f.d[2] = (uint8_t)c.t.below(12); }
        if (f.d[0] == 21) { f.d[1] = (uint8_t)c.t.below(20); f.d[2] = 0; }
        if (c.t.chance(50)) {   // a complete selective or identify sequence with the identity of 1018h, at most one argument perturbed
          bool sel = c.t.coin(); int nfr = sel ? 4 : 6; int pert = c.t.coin() ? (int)c.t.below(nfr) : -1; static const int IW[6] = {0, 1, 2, 2, 3, 3};
          for (int i = 0; i < nfr; i++) { Frame g; g.id = 0x7E5; g.dlc = 8; g.d[0] = (uint8_t)((sel ? 64 : 70) + i); uint32_t v = 0x11111111u * (uint32_t)(1 + (sel ? i : IW[i])); if (i == pert) v += c.t.coin() ? 1 : (uint32_t)-1; for (int k = 0; k < 4; k++) g.d[1 + k] = (uint8_t)(v >> (8 * k)); s.rx(g); }
          after("an LSS sequence"); break;
        }
        rxf(f); after("an LSS frame"); break;
      }
      case 9: {   // heartbeat / SYNC / RPDO traffic with identifiers from the configuration
        uint32_t k = c.t.below(4); Frame f;
        if (k == 0) f = Frame::mk(0x700u + 5 + c.t.below(5), (uint8_t)c.t.below(3), {(uint8_t[]){0, 127, 5, 4, 9}[c.t.below(5)]});
        else if (k == 1) f = Frame::mk(syncid & 0x7FF, (uint8_t)c.t.below(2), {1});
        else { int p = (int)c.t.below(4); f.id = rpid[p] ? rpid[p] : 0x200u + nid; f.dlc = (uint8_t)c.t.below(9); for (int i = 0; i < 8; i++) f.d[i] = c.t.byte(); }
        rxf(f); after("heartbeat/SYNC/RPDO traffic"); break;
      }
      case 10: {  // application calls
        uint32_t a = c.t.below(16); s.api_begin();
        VLOG(c, "application call %u", a);
        switch (a) {
          case 0: { CO_EMCY_USR u; u.Hist = c.t.u16(); for (int i = 0; i < 5; i++) u.Emcy[i] = c.t.byte(); COEmcySet(&s.node->Emcy, c.t.chance(240) ? (uint8_t)c.t.below(CO_EMCY_N) : c.t.byte(), c.t.coin() ? &u : 0); break; }
          case 1: COEmcyClr(&s.node->Emcy, c.t.chance(240) ? (uint8_t)c.t.below(CO_EMCY_N) : c.t.byte()); break;
          case 2: COEmcyReset(&s.node->Emcy, (uint8_t)c.t.below(2)); break;
          case 3: COTPdoTrigPdo(s.node->TPdo, (uint16_t)c.t.below(6)); break;
          case 4: { auto m = mux[c.t.below((uint32_t)mux.size())]; CO_OBJ *o = s.find(m.first, m.second); if (o) COTPdoTrigObj(s.node->TPdo, o); break; }
          case 5: { auto m = mux[c.t.below((uint32_t)mux.size())]; uint32_t key = CO_DEV(m.first, m.second); uint32_t v = c.t.u32(); uint32_t k = c.t.below(6); uint8_t b8; uint16_t b16; uint32_t b32;
            // constants (direct read-only entries such as sub-index 0 of the array objects) live in ROM: an application cannot change them, and the
            // assumption 'sub-index 0 equals the highest sub-index present' would not survive the write
            { CO_OBJ *o = s.find(m.first, m.second); if (k <= 2 && o && CO_IS_DIRECT(o->Key) && !CO_IS_WRITE(o->Key)) { k += 3; c.cls("api-write-to-constant-turned-into-read"); } }
            if (k == 0) CODictWrByte(&s.node->Dict, key, (uint8_t)v); else if (k == 1) CODictWrWord(&s.node->Dict, key, (uint16_t)v); else if (k == 2) CODictWrLong(&s.node->Dict, key, v); else if (k == 3) CODictRdByte(&s.node->Dict, key, &b8); else if (k == 4) CODictRdWord(&s.node->Dict, key, &b16); else CODictRdLong(&s.node->Dict, key, &b32); break; }
          case 6: { uint32_t len = c.t.biased(0, 4100, DM, 6); uint8_t *buf = (uint8_t *)malloc(len ? len : 1); memset(buf, 0x3C, len ? len : 1); static const uint16_t BO[4] = {0x2001, 0x2007, 0x2008, 0x2100}; uint16_t bi = BO[c.t.below(4)];
            if (c.t.coin()) CODictRdBuffer(&s.node->Dict, CO_DEV(bi, bi == 0x2100 ? 1 : 0), buf, len); else CODictWrBuffer(&s.node->Dict, CO_DEV(bi, bi == 0x2100 ? 1 : 0), buf, len); free(buf); break; }
          case 7: if (s.node->Nmt.Mode != CO_INIT) CONmtSetMode(&s.node->Nmt, (CO_MODE)(2 + c.t.below(3))); break;
          case 8: CONmtReset(&s.node->Nmt, (CO_NMT_RESET)(1 + c.t.below(2))); break;
          case 9: { int n = (int)c.t.below(CO_CSDO_N); CO_CSDO *cl = COCSdoFind(s.node, (uint8_t)n); if (cl) { uint32_t sz = c.t.biased(1, 600, DM, 2); uint8_t *ub = (uint8_t *)malloc(sz); memset(ub, 0x77, sz); userbufs.push_back(ub);
              uint16_t ci = (uint16_t)(0x2000 + c.t.below(4)); uint8_t cs2 = (uint8_t)c.t.below(3); bool cu = c.t.coin(); creq[n].idx = ci; creq[n].sub = cs2; creq[n].size = sz; creq[n].up = cu; creq[n].tgl = 0;
              if (cu) COCSdoRequestUpload(cl, CO_DEV(ci, cs2), ub, sz, cs_done, 1 + c.t.below(30)); else COCSdoRequestDownload(cl, CO_DEV(ci, cs2), ub, sz, cs_done, 1 + c.t.below(30)); } break; }
          case 10: { int k = (int)c.t.below(3); if (apptm[k] < 0) { uint32_t st = c.t.below(6), cy = c.t.below(5); apptm[k] = COTmrCreate(&s.node->Tmr, st, cy, app_cb, (void *)(uintptr_t)k); appcyc[k] = cy != 0; } else { COTmrDelete(&s.node->Tmr, (int16_t)apptm[k]); apptm[k] = -1; } break; }
          case 11: (void)CONmtGetHbEvents(&s.node->Nmt, (uint8_t)(5 + c.t.below(5))); (void)CONmtLastHbState(&s.node->Nmt, (uint8_t)(5 + c.t.below(5))); break;
          case 12: (void)CONodeGetErr(s.node); (void)COEmcyCnt(&s.node->Emcy); (void)COEmcyGet(&s.node->Emcy, c.t.byte()); (void)CONmtGetMode(&s.node->Nmt); (void)CONmtGetNodeId(&s.node->Nmt); break;
          case 13: CONodeStart(s.node); break;
          case 14: { CO_OBJ *o = s.find(0x2001, 0); if (o) { uint8_t tmp[16]; uint32_t k = c.t.below(4); if (k == 0) COObjRdBufStart(o, s.node, tmp, (uint32_t)c.t.below(17)); else if (k == 1) COObjRdBufCont(o, s.node, tmp, (uint32_t)c.t.below(17)); else if (k == 2) COObjWrBufStart(o, s.node, tmp, (uint32_t)c.t.below(17)); else COObjWrBufCont(o, s.node, tmp, (uint32_t)c.t.below(17)); } break; }
          default: (void)COTmrGetTicks(&s.node->Tmr, c.t.u16(), c.t.coin() ? CO_TMR_UNIT_1MS : CO_TMR_UNIT_100US); (void)COTmrGetMinTime(&s.node->Tmr, c.t.coin() ? CO_TMR_UNIT_1MS : CO_TMR_UNIT_100US); break;
        }
        s.api_end("an application call"); nid = s.node->NodeId; after("an application call"); break;
      }
      case 11: {  // answers of a remote server to the SDO client(s)
        int n = (int)c.t.below(CO_CSDO_N); Frame f; f.id = crx[n] ? crx[n] : 0x5A0u + n; f.dlc = 8; for (int i = 0; i < 8; i++) f.d[i] = c.t.byte();
        static const uint8_t RC[12] = {0x60, 0x43, 0x4F, 0x41, 0x00, 0x10, 0x01, 0x11, 0x20, 0x30, 0x80, 0x47}; if (c.t.chance(220)) f.d[0] = RC[c.t.below(12)];
        if (c.t.chance(200)) { f.d[1] = (uint8_t)c.t.below(4); f.d[2] = 0x20; f.d[3] = (uint8_t)c.t.below(3); } if (f.d[0] == 0x41 && c.t.coin()) { f.d[5] = (uint8_t)c.t.below(3); f.d[6] = f.d[7] = 0; }
        if (c.t.chance(150)) {   // an answer that fits the client's last request (so that transfers get past the first step)
          uint32_t k = c.t.below(3);
          if (k == 0) { f.d[0] = creq[n].up ? (creq[n].size <= 4 ? (uint8_t)(0x43 | ((4 - creq[n].size) << 2)) : 0x41) : 0x60; f.d[1] = (uint8_t)creq[n].idx; f.d[2] = (uint8_t)(creq[n].idx >> 8); f.d[3] = creq[n].sub; if (f.d[0] == 0x41) for (int i = 0; i < 4; i++) f.d[4 + i] = (uint8_t)(creq[n].size >> (8 * i)); creq[n].tgl = 0; }
          else { f.d[0] = creq[n].up ? (uint8_t)((creq[n].tgl << 4) | (c.t.chance(30) ? 1 : 0) | (c.t.below(8) << 1)) : (uint8_t)(0x20 | (creq[n].tgl << 4)); if (c.t.chance(235)) creq[n].tgl ^= 1; }
        }
        rxf(f); after("a server answer to the SDO client"); break;
      }
      case 12: {  // driver faults
        uint32_t k = c.t.below(4); fault_used = true;
        if (k == 0) { s.can_send_fail = (int)c.t.below(6); VLOG(c, "next %d CAN send calls fail", s.can_send_fail); }
        else if (k == 1) { s.can_read_fail = true; VLOG(c, "next CAN read fails"); s.process_empty(); }
        else if (k == 2) { s.nvm_calls = 0; s.nvm_fault_at = 1 + (long)c.t.below(4); s.nvm_short = c.t.coin() ? 0 : 0xFFFFFFFEu; VLOG(c, "NVM call %ld will be short", s.nvm_fault_at); }
        else { s.lss_store_result = c.t.coin() ? CO_ERR_LSS_STORE : CO_ERR_NONE; s.lss_load_result = c.t.chance(60) ? CO_ERR_LSS_LOAD : CO_ERR_NONE; }
        after("a driver fault setting"); break;
      }
      case 13: { s.process_empty(); after("CONodeProcess without a frame"); break; }
      case 14: {  // expedited SDO writes that reconfigure services (valid-looking values)
        static const uint16_t CI[10] = {0x1017, 0x1005, 0x1006, 0x1016, 0x1014, 0x1800, 0x1400, 0x1A00, 0x1600, 0x1200}; uint16_t idx = CI[c.t.below(10)]; uint8_t sb = 0; uint32_t v = 0; uint8_t cmd = 0x23;
        if (idx == 0x1017) { v = c.t.below(60); cmd = 0x2B; } else if (idx == 0x1005) v = (0x80u + c.t.below(2)) | (c.t.coin() ? 0x40000000u : 0); else if (idx == 0x1006) v = 1000u * c.t.below(8);
        else if (idx == 0x1016) { sb = (uint8_t)(1 + c.t.below(4)); v = c.t.below(40) | (uint32_t)(5 + c.t.below(5)) << 16; } else if (idx == 0x1014) v = (0x80u + nid) | (c.t.coin() ? 0x80000000u : 0);
        else if (idx == 0x1800 || idx == 0x1400) { idx = (uint16_t)(idx + c.t.below(4)); uint32_t k = c.t.below(4); if (k == 0) { sb = 1; v = ((idx & 0x1F00) == 0x1800 ? 0x40000180u : 0x200u) + 0x100u * (idx & 3) + nid; if (c.t.coin()) v |= 0x80000000u; } else if (k == 1) { sb = 2; v = c.t.coin() ? 254 : c.t.below(5); cmd = 0x2F; } else if (k == 2) { sb = 3; v = 10 * c.t.below(8); cmd = 0x2B; } else { sb = 5; v = c.t.below(12); cmd = 0x2B; } }
        else if (idx == 0x1A00 || idx == 0x1600) { idx = (uint16_t)(idx + c.t.below(4)); if (c.t.coin()) { sb = 0; v = c.t.below(10); cmd = 0x2F; } else { sb = (uint8_t)(1 + c.t.below(8)); v = MV[c.t.below(16)]; } }
        else { idx = (uint16_t)(0x1200 + c.t.below(2)); sb = (uint8_t)(1 + c.t.below(2)); v = (sb == 1 ? 0x600u : 0x580u) | (c.t.coin() ? 0x80000000u : 0); }
        rxf(sdoframe(sn, cmd, idx, sb, v)); after("a reconfiguring SDO write"); break;
      }
      case 15: {  // TPDO triggers and value changes through the API
        s.api_begin(); uint32_t k = c.t.below(3); if (k == 0) COTPdoTrigPdo(s.node->TPdo, (uint16_t)c.t.below(4)); else if (k == 1) CODictWrByte(&s.node->Dict, CO_DEV(0x2100, 1), c.t.byte()); else CODictWrLong(&s.node->Dict, CO_DEV(0x2100, 7), c.t.u32()); s.api_end("a trigger"); after("a TPDO trigger"); break;
      }
      case 16: { VLOG(c, "CONodeStop"); s.api_begin(); CONodeStop(s.node); s.api_end("CONodeStop"); after("CONodeStop"); break; }
      default: {  // restart: RAM lost (re-poisoned), NVM, LSS store and object storage kept
        VLOG(c, "restart");
        for (int i = 0; i < 3; i++) apptm[i] = -1;
        for (auto h : hbc) { h->Tmr = -1; h->Next = nullptr; h->Node = nullptr; h->Event = 0; h->State = CO_INVALID; }
        // a third of the restarts are no power cycle: the application initialises the stack a second time on the memory as it is (decided from the
        // traffic so far, no tape choice) - with or without CONodeStop before, the hardware timer of the node's previous life possibly still armed
        if ((s.tx_total + (uint64_t)s.tick) % 3 == 0) { if ((s.tx_total + (uint64_t)s.tick) % 2) { s.api_begin(); CONodeStop(s.node); s.api_end("CONodeStop"); } s.reinit(); c.cls("second-initialisation-on-the-same-memory"); }
        else
        s.init(); if (s.init_err == CO_ERR_OBJ_INIT || s.init_err == CO_ERR_DICT_INIT) { c.cls("restart-with-contradicting-dictionary"); goto done; } if (c.t.chance(230)) s.start(); nid = s.node->NodeId; after("a restart"); break;
      }
    }
  }
done:
  (void)pending_process;
  if (s.tx_total > tx0 || evcount > 0 || fault_used) c.nontrivial = true;
  c.cls(CO_SSDO_N > 1 ? "build-two-servers" : "build-one-server");
  if (fault_used) c.cls("driver-fault-injected");
  if (s.init_err != CO_ERR_NONE) c.cls("optional-objects-missing-at-init");
  for (auto b : userbufs) free(b);
}

}  // namespace vf

namespace {
Registrar reg(Prop{
    "C01",
    "Cases: (configuration) build n1/n2 (CO_SSDO_N/CO_CSDO_N = 1 or 2), node id 1..127 or 255, timer frequency from {1000,100,10000,1000000,300,1500,2500,1} Hz, timer pool 1..16, a random subset of every optional object (1000h, 1001h, 1003h depth 0..8, 1005h/1006h, 1010h/1011h with 1..4 groups, 1014h, 1016h with 0..4 entries, 1017h, 1018h complete/incomplete, 1200h/1201h read-only or writable, 1280h/1281h, dummy objects), "
    "every TPDO/RPDO channel present or not with tame or arbitrary stored parameters (types 0..255, counts 0..9, dummy / zero-length / 64-bit / absent-object mapping entries, invalid, RTR, extended and colliding COB-IDs, missing mapping/inhibit/event sub-indices), integers of every kind, domains 1..4000, strings, a user type with an application abort code, with/without emergency table, stored LSS configuration; "
    "(history) up to 300 (400) ops from 18 kinds: structured SDO requests (command alphabet x multiplexers of existing/absent objects x data grammar, each field independently perturbed, DLC 0..15), raw SDO frames, raw frames with any 11/29-bit identifier and DLC 0..15, ticks with immediate or deferred processing, conforming SDO dialogues of 6 kinds cut or bit-flipped at a generated step, runs of block segments, NMT commands, all LSS services incl. activate-bit-timing, "
    "heartbeat/SYNC/RPDO traffic, 16 kinds of application calls (EMCY, triggers, typed and buffer dictionary access, NMT mode/reset, SDO client requests with exact-size buffers, application timers, queries), server answers to the SDO client(s), CAN send/read failures, NVM short counts, LSS callback failures, empty CONodeProcess, reconfiguring SDO writes, CONodeStop, restarts with re-poisoned RAM. "
    "Oracle: no ASan/UBSan report (every block handed to the stack is an exact-size heap block; CO_NODE and timer memory are poisoned with A5h before initialisation), no CONodeFatalError, at most 4 000 000 control-flow edges inside one stack call, at most 128 frames sent per processed frame, timer lists acyclic and conserved after every step. "
    "A case whose initialisation reports CO_ERR_OBJ_INIT / CO_ERR_DICT_INIT (dictionary contradicts itself) is counted and discarded. Non-trivial: the history made the node transmit, invoke a callback, or hit an injected fault. Distinct = distinct decoded choice sequence.",
    {Mode{"random", c01_case, false, 300000, 12000000, 0, 0, 2000, 4000}},
    {"special object types only at their standard indices; PDO parameter objects only for PDO numbers below CO_RPDO_N/CO_TPDO_N; sub-index 0 of array objects equals the highest sub-index present; static heartbeat consumer entries name distinct nodes",
     "misaligned typed stores into byte buffers are by design (-fsanitize=alignment is off, alignment is not part of the statement)", "uninitialised reads are made deterministic by poisoning, not detected as such (no MSan)",
     "an application timer id is deleted only while the application owns it; CONmtSetMode is not called in INIT"}});
}  // namespace
