// C05 - no history can wedge an SDO server (DESIGN.md §5 C05)
#include "model/sdo.h"
using namespace vf;

namespace {

const uint32_t MARKS[6] = {4, 7, 8, 14, 889, 890};

// mode after-refusing-type: a DOMAIN whose application-side read / write refuses on demand with an application abort code that is different for every
// refusal (COObjTypeUserSDOAbort), so that a code the server hands out later can be told from the one that belongs to the request at hand
struct Refuser { bool rd = false, wr = false; uint32_t count = 0, last = 0; bool issued = false; } g_ref;
CO_ERR ref_read(CO_OBJ *o, CO_NODE *n, void *b, uint32_t sz) {
  if (g_ref.rd) { g_ref.last = 0x0A000000u | ++g_ref.count; g_ref.issued = true; COObjTypeUserSDOAbort(o, n, g_ref.last); return CO_ERR_TYPE_RD; }
  return CO_TDOMAIN->Read(o, n, b, sz);
}
CO_ERR ref_write(CO_OBJ *o, CO_NODE *n, void *b, uint32_t sz) {
  if (g_ref.wr) { g_ref.last = 0x0A000000u | ++g_ref.count; g_ref.issued = true; COObjTypeUserSDOAbort(o, n, g_ref.last); return CO_ERR_TYPE_WR; }
  return CO_TDOMAIN->Write(o, n, b, sz);
}
uint32_t ref_size(CO_OBJ *o, CO_NODE *n, uint32_t w) { return CO_TDOMAIN->Size(o, n, w); }
CO_ERR ref_init(CO_OBJ *o, CO_NODE *n) { return CO_TDOMAIN->Init(o, n); }
CO_ERR ref_reset(CO_OBJ *o, CO_NODE *n, uint32_t p) { return CO_TDOMAIN->Reset(o, n, p); }
const CO_OBJ_TYPE RefType = {ref_size, ref_init, ref_read, ref_write, ref_reset};

void case_impl(Ctx &c, bool clientrec, bool refusing = false) {
  const size_t tape0 = c.t.pos; uint32_t refsize = 0; g_ref = Refuser();
  auto build = [&](Sim &s, World &w) {
  s.nodeid = (uint8_t)(1 + c.t.below(127));
  w.mandatory(false);     // 1200h/1201h read-only: junk must not be able to switch a server off legitimately
  SplitMix iv(c.t.u16());
  w.add_domain(0x2001, 0, c.t.chance(90) ? 890 + c.t.below(1200) : c.t.biased(1, 1500, MARKS, 6), true, true, (uint32_t)iv.next());
  w.add_int(0x2002, 0, 4, false, false, true, true, (uint32_t)iv.next());
  w.add_domain(0x2006, 0, 5 + c.t.below(40), true, false, (uint32_t)iv.next());
  w.add_domain(0x2007, 0, 1 + c.t.below(4), true, true, (uint32_t)iv.next());
  w.add_int(0x2008, 0, 2, true, true, true, true, (uint32_t)iv.next());
  w.add_string(0x2009, 0, 1 + c.t.below(30), (uint32_t)iv.next());
  // mode with-client-records: the dictionary also holds the SDO client parameter records 1280h.. with COB-ID entries of type CO_TSDO_ID (as the
  // repository's own test dictionaries declare them); nothing a client does to them may take an SDO server out of service
  if (clientrec) for (int k = 0; k < CO_SSDO_N; k++) {
    s.add(CO_KEY(0x1280 + k, 0, CO_OBJ_D___R_), CO_TUNSIGNED8, 3);
    s.add(CO_KEY(0x1280 + k, 1, CO_OBJ_____RW), CO_TSDO_ID, (CO_DATA)s.var<uint32_t>("128x:1", 0x600u + 0x20 + k));
    s.add(CO_KEY(0x1280 + k, 2, CO_OBJ_____RW), CO_TSDO_ID, (CO_DATA)s.var<uint32_t>("128x:2", 0x580u + 0x20 + k));
    s.add(CO_KEY(0x1280 + k, 3, CO_OBJ_____RW), CO_TUNSIGNED8, (CO_DATA)s.var<uint8_t>("128x:3", (uint8_t)(0x20 + k)));
  }
  if (refusing) {
    refsize = c.t.coin() ? 5 + c.t.below(40) : 880 + c.t.below(900);
    TObj o; o.idx = 0x2300; o.sub = 0; o.kind = TObj::OTHER; o.size = refsize; CO_OBJ_DOM *d = s.domain(refsize, "refusing-domain"); o.store = d->Start;
    for (uint32_t i = 0; i < refsize; i++) o.store[i] = (uint8_t)iv.next();
    s.add(CO_KEY(0x2300, 0, CO_OBJ_____RW), &RefType, (CO_DATA)d); w.objs.push_back(o);
    { uint8_t *h0 = s.alloc(1, "1003:0"); s.add(CO_KEY(0x1003, 0, CO_OBJ_____RW), CO_TEMCY_HIST, (CO_DATA)h0); for (int i = 1; i <= 2; i++) s.add(CO_KEY(0x1003, i, CO_OBJ_____R_), CO_TEMCY_HIST, (CO_DATA)s.alloc(4, "1003:n")); }
  }
  };
  Sim s(c); World w(s); build(s, w); int recwrites = 0;
  int refusals = 0;
  w.finish();
  std::vector<std::pair<uint16_t, uint8_t>> mux = {{0x2001, 0}, {0x2002, 0}, {0x2006, 0}, {0x2007, 0}, {0x2008, 0}, {0x2009, 0}, {0x1000, 0}, {0x1018, 1}, {0x3000, 0}, {0x2001, 1}};
  if (refusing) { mux.push_back({0x2300, 0}); mux.push_back({0x2300, 0}); mux.push_back({0x1003, 0}); }
  int nsrv = CO_SSDO_N;
  int target = nsrv > 1 ? (int)c.t.below(2) : 0;
  SdoClient cl(s, w.req[target], w.rsp[target]);
  // the recovery step and the probes are planned first, so that a long junk history cannot eat their choices
  SplitMix plan(c.t.u32());
  bool by_reset = plan.next() % 4 == 0;
  int nprobes = 1 + (int)(plan.next() % 2);
  uint32_t probe_kind[2] = {(uint32_t)(plan.next() % 9), (uint32_t)(plan.next() % 9)};
  if (refusing) for (auto &k : probe_kind) if (plan.next() % 3) k = 9 + (uint32_t)(plan.next() % 4);   // a request that has to be refused with its own code
  bool end_with_open_transfer = plan.next() % 2 == 0;
  // ---- junk history
  int maxjunk = c.thorough ? 400 : 200; int nj = 0;
  uint32_t junkbudget = c.t.below(4) == 0 ? c.t.below(12) : c.t.below(maxjunk);
  VLOG(c, "junk history (up to %u frames) on %d server(s), probe server %d", junkbudget, nsrv, target);
  bool final_round = false;
  while ((nj < (int)junkbudget && !c.t.exhausted()) || (end_with_open_transfer && !final_round)) {
    if (!(nj < (int)junkbudget && !c.t.exhausted())) final_round = true;
    int n = nsrv > 1 ? (c.t.chance(190) ? target : 1 - target) : 0;
    uint32_t how = c.t.below(refusing ? 16 : clientrec ? 12 : 10);
    if (final_round) { n = target; how = 1; }
    if (refusing && how >= 10) {
      if (how == 10) { g_ref.rd = c.t.coin(); g_ref.wr = c.t.coin(); VLOG(c, " the application makes 2300h %s reads and %s writes", g_ref.rd ? "refuse" : "serve", g_ref.wr ? "refuse" : "accept"); continue; }
      // a conforming transfer of the refusing object, cut after a generated number of requests
      SdoClient jc(s, w.req[n], w.rsp[n]); uint32_t kind = c.t.below(5); int cut = 1 + (int)c.t.below(8), cnt = 0; std::vector<Frame> dlg;
      if (kind == 0) { dlg.push_back(jc.mk(0x40, 0x2300, 0, 0)); for (int i = 0; i < 8; i++) dlg.push_back(jc.mk((uint8_t)(0x60 | ((i & 1) << 4)), 0, 0, 0)); }
      else if (kind == 1) { dlg.push_back(jc.mk(0x21, 0x2300, 0, refsize)); for (int i = 0; i < 8; i++) { Frame f = jc.mk((uint8_t)(((i & 1) << 4) | (((uint32_t)(i + 1) * 7 >= refsize) ? 1 : 0)), 0, 0, 0); for (int k = 1; k < 8; k++) f.d[k] = (uint8_t)(i + k); dlg.push_back(f); } }
      else if (kind == 2) { dlg.push_back(jc.mk(0xC2, 0x2300, 0, refsize)); for (int i = 1; i <= 6; i++) { bool last = (uint32_t)i * 7 >= refsize; Frame f = jc.mk((uint8_t)(i | (last ? 0x80 : 0)), 0, 0, 0); for (int k = 1; k < 8; k++) f.d[k] = (uint8_t)(i * k); dlg.push_back(f); if (last) { dlg.push_back(jc.mk((uint8_t)(0xC1 | (((7 - refsize % 7) % 7) << 2)), 0, 0, 0)); break; } } }
      else if (kind == 3) { dlg.push_back(jc.mk(0xA0, 0x2300, 0, 1 + c.t.below(127))); dlg.push_back(jc.mk(0xA3, 0, 0, 0)); for (int i = 0; i < 6; i++) { Frame f = jc.mk(0xA2, 0, 0, 0); f.d[1] = (uint8_t)c.t.below(128); f.d[2] = (uint8_t)(1 + c.t.below(127)); f.d[3] = 0; dlg.push_back(f); } dlg.push_back(jc.mk(0xA1, 0, 0, 0)); }
      else { Frame f = jc.mk(0x23, 0x2300, 0, c.t.u32()); if (refsize > 4) f = jc.mk(0x22, 0x2300, 0, c.t.u32()); dlg.push_back(f); }
      VLOG(c, " [srv%d] conforming transfer kind %u of the refusing object 2300h (reads %s, writes %s), truncated after %d requests", n, kind, g_ref.rd ? "refused" : "served", g_ref.wr ? "refused" : "accepted", cut);
      uint32_t c0 = g_ref.count;
      for (auto &f : dlg) { if (cnt++ >= cut) break; s.clear_tx(); s.rx(f); nj++; }
      if (g_ref.count != c0) refusals++;
      c.ops++; continue;
    }
    if (how >= 10) {         // a conforming expedited write to a COB-ID of an SDO client record: switched off, on again, or moved while off
      int k = CO_SSDO_N > 1 ? (int)c.t.below(2) : 0; uint8_t sub = (uint8_t)(1 + c.t.below(2));
      uint32_t v = (sub == 1 ? 0x600u : 0x580u) + 0x20 + c.t.below(4); if (c.t.below(3) != 0) v |= 0x80000000u;
      Frame f; f.id = w.req[n]; f.dlc = 8; f.d[0] = 0x23; f.d[1] = (uint8_t)(0x80 + k); f.d[2] = 0x12; f.d[3] = sub; for (int i = 0; i < 4; i++) f.d[4 + i] = (uint8_t)(v >> (8 * i));
      VLOG(c, " [srv%d] write %08X to %04X:%u", n, v, 0x1280 + k, sub);
      s.clear_tx(); s.rx(f); nj++; recwrites++; c.ops++; continue;
    }
    if (how == 0) {          // a run of block segments
      uint32_t len = 1 + c.t.below(130), start = c.t.coin() ? 1 : 1 + c.t.below(127);
      VLOG(c, " [srv%d] run of %u block segments from seq %u", n, len, start);
      for (uint32_t q = 0; q < len; q++) { Frame f; f.id = w.req[n]; f.dlc = 8; f.d[0] = (uint8_t)(((start + q - 1) % 127 + 1) | ((q + 1 == len && c.t.coin()) ? 0x80 : 0)); for (int i = 1; i < 8; i++) f.d[i] = (uint8_t)(q * 7 + i); s.clear_tx(); s.rx(f); nj++; }
    } else if (how == 1) {   // a conforming transfer, cut after a generated number of requests
      SdoClient jc(s, w.req[n], w.rsp[n]);
      int cut = 1 + (int)(final_round ? plan.next() % 12 : c.t.below(12)), cnt = 0;
      uint32_t kind = final_round ? (uint32_t)(plan.next() % 5) : c.t.below(5);
      VLOG(c, " [srv%d] conforming transfer kind %u truncated after %d requests", n, kind, cut);
      // truncated transfers are produced by sending the first `cut` frames of the conforming dialogue
      std::vector<Frame> dlg;
      TObj &d = w.objs[0];
      if (kind == 0) { dlg.push_back(jc.mk(0x40, 0x2001, 0, 0)); for (int i = 0; i < 12; i++) dlg.push_back(jc.mk((uint8_t)(0x60 | ((i & 1) << 4)), 0, 0, 0)); }
      else if (kind == 1) { dlg.push_back(jc.mk(0x21, 0x2001, 0, d.size)); for (int i = 0; i < 12; i++) { Frame f = jc.mk((uint8_t)((i & 1) << 4), 0, 0, 0); for (int k = 1; k < 8; k++) f.d[k] = (uint8_t)(i + k); dlg.push_back(f); } }
      else if (kind == 2) { dlg.push_back(jc.mk(0xC2, 0x2001, 0, d.size)); for (int i = 1; i <= 12; i++) { Frame f = jc.mk((uint8_t)i, 0, 0, 0); for (int k = 1; k < 8; k++) f.d[k] = (uint8_t)(i * k); dlg.push_back(f); } }
      else if (kind == 3) { dlg.push_back(jc.mk(0xA0, 0x2001, 0, 1 + c.t.below(127))); dlg.push_back(jc.mk(0xA3, 0, 0, 0)); for (int i = 0; i < 10; i++) { Frame f = jc.mk(0xA2, 0, 0, 0); f.d[1] = (uint8_t)c.t.below(128); f.d[2] = (uint8_t)(1 + c.t.below(127)); f.d[3] = 0; dlg.push_back(f); } }
      else { dlg.push_back(jc.mk(0xC2, 0x2007, 0, 2)); Frame f = jc.mk(0x81, 1, 2, 3); dlg.push_back(f); dlg.push_back(f); dlg.push_back(jc.mk(0xC1 | (5 << 2), 0, 0, 0)); }
      for (auto &f : dlg) { if (cnt++ >= cut) break; s.clear_tx(); s.rx(f); nj++; }
    } else {
      Frame f = sdo_junk(c, w.req[n], mux);
      VLOG(c, " [srv%d] %s", n, f.str().c_str());
      s.clear_tx(); s.rx(f); nj++;
    }
    c.ops++;
  }
  // abstract server state from which recovery is checked (public struct read for classification only)
  CO_SDO *sv = &s.node->Sdo[target];
  int blkstate; memcpy(&blkstate, &sv->Blk.State, sizeof blkstate);   // read as raw int: a server whose state was never initialised holds poison, not an enumerator
  bool nonidle = blkstate != (int)BLK_IDLE || sv->Obj != 0 || sv->Buf.Num != 0;
  char key[96]; snprintf(key, sizeof key, "recover-from:blk%d,obj%d,tbit%d,buf%s", blkstate > 15 || blkstate < 0 ? 99 : blkstate, sv->Obj != 0, sv->Seg.TBit & 1, sv->Buf.Num == 0 ? "0" : sv->Buf.Num < 8 ? "<8" : sv->Buf.Num < 889 ? "<889" : "full");
  c.cls(key);
  // ---- recovery
  if (by_reset) {
    VLOG(c, "NMT reset communication");
    s.clear_tx(); s.rx(Frame::mk(0, 2, {130, (uint8_t)(c.t.coin() ? 0 : s.nodeid)}));
    bool boot = false; for (auto &t : s.tx) if (t.id == 0x700u + s.nodeid && t.dlc == 1 && t.d[0] == 0) boot = true;
    CHECK(c, boot, "reset-bootup", "no boot-up frame after NMT reset communication");
  } else {
    VLOG(c, "client abort on server %d", target);
    cl.abort_transfer(0x2001, 0);
  }
  s.clear_tx();
  // ---- clean probes from a covering set, judged against the storage as it is NOW
  for (int p = 0; p < nprobes; p++) {
    uint32_t pr = probe_kind[p];
    if (pr >= 9) {  // mode after-refusing-type: a request that must be refused, with the code that belongs to it, and change nothing
      std::vector<uint8_t> before = s.snapshot(); uint32_t code = 0, want = 0; const char *what = "";
      g_ref.issued = false;
      if (pr == 9) { what = "write of 1 to 1003h:00"; want = 0x06090030u; code = cl.write(0x1003, 0, 1, 1); }
      else if (pr == 10) { what = "write to the read-only object 2006h:00"; want = 0x06010002u; code = cl.write(0x2006, 0, 0x11223344u, 4); }
      else if (pr == 11) { what = "read of the absent object 3000h:00"; want = 0x06020000u; uint32_t v; code = cl.read(0x3000, 0, &v); }
      else { what = "write to 2300h:00 which the application refuses"; g_ref.wr = true; std::vector<uint8_t> pay(refsize <= 4 ? refsize : 4, 0x5A); SdoRes r = refsize <= 4 ? cl.download_exp(0x2300, 0, pay, true, 0) : cl.download_seg(0x2300, 0, std::vector<uint8_t>(refsize, 0x5A), true, 1); code = r.aborted ? (r.code ? r.code : 0xFFFFFFFFu) : 0; want = g_ref.issued ? g_ref.last : 0xFFFFFFFFu; g_ref.wr = false; }
      VLOG(c, "probe %u: %s -> %08X (expected %08X)", pr, what, code, want);
      if (pr == 12 && refsize > 4) CHECK(c, code != 0, "recovery-refusal-code", "after the junk history and %s, a %s was confirmed", by_reset ? "an NMT reset communication" : "a client abort", what);   // how a refusal in the data phase of a segmented transfer is coded is not listed
      else CHECK(c, code == want, "recovery-refusal-code", "after the junk history and %s, a %s was answered with %08X, expected the abort code %08X that belongs to this request (%u refusal(s) with application codes of their own earlier in the history)", by_reset ? "an NMT reset communication" : "a client abort", what, code, want, g_ref.count);
      std::string d = s.diff_snapshot(before, s.snapshot());
      CHECK(c, d.empty(), "recovery-refusal-changes-nothing", "a refused %s changed: %s", what, d.c_str());
      c.cls("probe-that-must-be-refused"); continue;
    }
    static const uint16_t PO[9] = {0x2001, 0x2001, 0x2002, 0x2007, 0x2009, 0x2001, 0x2001, 0x2002, 0x2007};
    TObj &o = *w.lookup(PO[pr], 0);
    VLOG(c, "probe %u on %04X:00", pr, o.idx);
    if (pr < 5) {   // uploads: segmented/expedited (0,2,3,4) and block (1)
      std::vector<uint8_t> want = w.content(o);
      uint8_t pbs = (uint8_t)(1 + plan.next() % 127); std::vector<Frame> fa, fb; cl.rsplog = &fa; const size_t ppos = c.t.pos;
      SdoRes r = pr == 1 ? cl.upload_blk(o.idx, o.sub, pbs, 2, true, &want) : cl.upload(o.idx, o.sub);
      cl.rsplog = nullptr;
      CHECK(c, !r.aborted, "recovery-upload-served", "after the junk history and %s, a clean upload of %04X:00 was refused with %08X", by_reset ? "an NMT reset communication" : "a client abort", o.idx, r.code);
      CHECK(c, r.announced == want.size() && r.data == want, "recovery-upload-data", "after the junk history and %s, a clean upload of %04X:00 delivered %zu bytes (announced %u) that differ from the object's %zu bytes%s", by_reset ? "an NMT reset communication" : "a client abort",
            o.idx, r.data.size(), r.announced, want.size(), r.data.size() == want.size() ? " (data left over from an earlier transfer?)" : "");
      c.ops += r.requests;
      // "data left over from an earlier one" also means the bytes a client does not look at: the same clean upload from a node that has no history - same
      // dictionary, same object contents, freshly initialised - must be answered with the same frames, byte for byte
      if (!r.aborted && p == 0) {
        size_t keep = c.t.pos; c.t.pos = tape0; Refuser keepref = g_ref;
        { Sim sb(c); World wb(sb); build(sb, wb);
          for (size_t i = 0; i < s.blocks.size() && i < sb.blocks.size(); i++) if (s.blocks[i].storage && s.blocks[i].n == sb.blocks[i].n) memcpy(sb.blocks[i].p, s.blocks[i].p, s.blocks[i].n);
          bool lg = c.logging; c.logging = false; wb.finish(); sb.nodeid = s.nodeid;
          SdoClient cb(sb, wb.req[target], wb.rsp[target]); cb.rsplog = &fb; c.t.pos = ppos;   // the client takes the same decisions (acknowledge positions, block sizes) as in the first run
          std::vector<uint8_t> want2 = wb.content(*wb.lookup(o.idx, 0));
          SdoRes rb = pr == 1 ? cb.upload_blk(o.idx, o.sub, pbs, 2, true, &want2) : cb.upload(o.idx, o.sub); (void)rb;
          c.logging = lg; }
        g_sim = &s; c.t.pos = keep; g_ref = keepref;
        bool same = fa.size() == fb.size(); size_t at = 0; for (; same && at < fa.size(); at++) if (fa[at].dlc != fb[at].dlc || memcmp(fa[at].d, fb[at].d, 8)) { same = false; break; }
        CHECK(c, same, "recovery-upload-data", "after the junk history and %s, the clean upload of %04X:00 was answered with other frames than the same upload from a node without history (same dictionary and contents): response %zu is %s, there %s - bytes left over from an earlier transfer", by_reset ? "an NMT reset communication" : "a client abort",
              o.idx, at, at < fa.size() ? fa[at].str().c_str() : "missing", at < fb.size() ? fb[at].str().c_str() : "missing");
        c.cls("upload-compared-with-a-node-without-history");
      }
    } else {        // downloads: segmented (5), block (6), expedited int (7), expedited/segmented small domain (8)
      uint32_t plen = pr == 7 ? 4 : pr == 8 ? 1 + (uint32_t)(plan.next() % o.size) : (plan.next() % 2 ? o.size : 1 + (uint32_t)(plan.next() % o.size));
      std::vector<uint8_t> pay(plen); SplitMix r(plan.next()); for (auto &b : pay) b = (uint8_t)r.next();
      std::vector<uint8_t> before = s.snapshot();
      SdoRes res = pr == 5 ? cl.download_seg(o.idx, 0, pay, plan.next() % 2, 1) : pr == 6 ? cl.download_blk(o.idx, 0, pay, plan.next() % 2, 1, 2) : pr == 7 ? cl.download_exp(o.idx, 0, pay, true, 0) : (plan.next() % 2 ? cl.download_exp(o.idx, 0, pay, true, 0) : cl.download_seg(o.idx, 0, pay, true, 3));
      CHECK(c, !res.aborted, "recovery-download-served", "after the junk history and %s, a clean download of %u bytes to %04X:00 was refused with %08X", by_reset ? "an NMT reset communication" : "a client abort", plen, o.idx, res.code);
      std::vector<uint8_t> exp = before; w.expect_write(exp, o, pay.data(), plen);
      std::string d = s.diff_snapshot(exp, s.snapshot());
      CHECK(c, d.empty(), "recovery-download-data", "after the junk history and %s, a confirmed clean download of %u bytes to %04X:00: %s", by_reset ? "an NMT reset communication" : "a client abort", plen, o.idx, d.c_str());
      c.ops += res.requests;
    }
  }
  if (nonidle) c.nontrivial = true;
  c.cls(nonidle ? "recovery-from-non-idle-state" : "recovery-from-idle-state");
  c.cls(by_reset ? "recovery-by-nmt-reset" : "recovery-by-client-abort");
  if (recwrites) c.cls("client-record-cob-id-written");
  if (refusals) c.cls("application-refused-a-read-or-write-with-its-own-code");
}

void one_case(Ctx &c) { case_impl(c, false); }
void rec_case(Ctx &c) { case_impl(c, true); }
void ref_case(Ctx &c) { case_impl(c, false, true); }

Registrar reg(Prop{
    "C05",
    "Cases: node id 1..127; dictionary with a large domain (1..2100 bytes), integers, small/read-only domains and a string, SDO server parameters read-only; a junk history of 0..200 (400) frames on the server ids drawn from the full command alphabet "
    "(weighted meaningful commands and reserved-bit variants, random bytes, runs of block segments, conforming transfers of 5 kinds truncated after 1..12 requests, random DLC), in build n2 on both servers; then [client abort] or [NMT reset communication]; "
    "Mode with-client-records: the dictionary also holds the SDO client records 1280h.. with COB-ID entries of type CO_TSDO_ID, and the history includes conforming expedited writes that switch a client COB-ID off, on, or move it. "
    "Mode after-refusing-type: the dictionary also holds a DOMAIN-like user type 2300h (5..44 or 880..1779 bytes) whose reads / writes the application refuses on demand with an application abort code that differs for every refusal, the history contains truncated conforming transfers of it in all five transfer kinds, and two thirds of the probes are requests that must be refused (write of 1 to 1003h:00 -> 0609 0030h, write to a read-only object -> 0601 0002h, read of an absent object -> 0602 0000h, a write the application refuses -> the code it supplies for this very request): the abort code is the one that belongs to the request and nothing changes. "
    "then 1..2 clean probe transfers from a covering set {expedited, segmented, block} x {upload, download} x {small, large object} run by the reference client. "
    "Oracle: the probe's outcome equals the reference outcome computed from the storage as it is when the probe starts (uploads return those bytes, downloads are confirmed and land exactly; every probe request is answered). "
    "Non-trivial: the server was not idle (block state, attached object or buffered bytes) when the recovery step started; the class histogram reports every distinct abstract server state (block state, object attached, toggle, buffer fill bucket, segment direction) from which recovery was checked. Distinct = distinct decoded choice sequence.",
    {Mode{"random", one_case, false, 900000, 20000000, 0, 0, 320, 640},
     Mode{"with-client-records", rec_case, false, 250000, 5000000, 0, 0, 320, 640},
     Mode{"after-refusing-type", ref_case, false, 400000, 8000000, 0, 0, 320, 640}},
    {"1200h/1201h are read-only (otherwise junk could legitimately disable a server)", "the abstract state is read from the public CO_SDO structure for classification only"}});

}  // namespace
