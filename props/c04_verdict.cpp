// C04 - every SDO request is answered once, for the named object, with the right verdict (DESIGN.md §5 C04)
// Validity predicate driven by a small protocol-state model per server: exact where the statement is exact
// (response count, multiplexer, listed abort codes, no side effect of a refusal), tolerant where it is silent.
#include "model/sdo.h"
namespace vf { void c14_case(Ctx &c); void c16_case(Ctx &c); }
using namespace vf;

namespace {

const uint32_t APP_CODE = 0x0A0B0C0Du;

// user type: UNSIGNED32 whose write rejects values with bit 31 set, with an application abort code
uint32_t usr_size(CO_OBJ *o, CO_NODE *n, uint32_t w) { (void)o; (void)n; (void)w; return 4; }
CO_ERR usr_read(CO_OBJ *o, CO_NODE *n, void *b, uint32_t s) { (void)n; if (s != 4) return CO_ERR_BAD_ARG; memcpy(b, (void *)o->Data, 4); return CO_ERR_NONE; }
CO_ERR usr_write(CO_OBJ *o, CO_NODE *n, void *b, uint32_t s) {
  if (s != 4) return CO_ERR_BAD_ARG;
  uint32_t v; memcpy(&v, b, 4);
  if (v & 0x80000000u) { COObjTypeUserSDOAbort(o, n, APP_CODE); static const CO_ERR RV[4] = {CO_ERR_TYPE_WR, CO_ERR_OBJ_RANGE, CO_ERR_OBJ_ACC, CO_ERR_OBJ_INCOMPATIBLE}; return RV[(v >> 28) & 3]; }   // the code the application supplies is the abort code, whichever error value the type function returns with it
  memcpy((void *)o->Data, &v, 4); return CO_ERR_NONE;
}
const CO_OBJ_TYPE UsrType = {usr_size, 0, usr_read, usr_write, 0};

enum St { IDLE, SEGUP, SEGDN, BLKDN, BLKDNEND, BLKUPINIT, BLKUP, BLKUPEND, LOOSE, UNTRACKED };
const char *STN[] = {"idle", "seg-upload", "seg-download", "blk-download", "blk-download-end", "blk-upload-init", "blk-upload", "blk-upload-end", "loose", "untracked"};

struct Srv {
  St st = IDLE;
  uint8_t toggle = 0;
  uint32_t seq = 1; bool seqerr = false; uint32_t dnblk = 127;   // block download (dnblk: block size the server announced)
  uint32_t total = 0, acked = 0, sent = 0, blksize = 0;  // block upload (segments)
  TObj *obj = nullptr;
  int visited = 0;
};

struct C04 {
  Ctx &c; Sim s; World w;
  Srv m[2];
  TObj *hist0 = nullptr, *hb1 = nullptr, *hb2 = nullptr, *usr = nullptr;
  CO_HBCONS *hbc[2] = {nullptr, nullptr};
  std::vector<TObj *> pool;
  int verdict_classes = 0; uint32_t seen_mask = 0; bool init_while_open = false; uint32_t pre_tv = 0;
  explicit C04(Ctx &cx) : c(cx), s(cx), w(s) {}

  void build(bool wide = false) {
    s.nodeid = (uint8_t)(1 + c.t.below(127));
    w.mandatory();
    SplitMix iv(c.t.u16());
    // mode wide-dictionary: objects in the network-variable area, more than 7FFFh indices away from the communication objects
    if (wide) { w.add_int(0xA100, 0, 4, false, false, true, true, 0xA1000000u); w.add_int(0xA100, 1, 2, true, false, true, true, 0xA101); w.add_int(0xFFFE, 0, 1, false, false, true, false, 0xFE); }
    w.add_int(0x2000, 0, 1, false, false, true, true, (uint32_t)iv.next());
    w.add_int(0x2001, 0, 2, false, false, true, false, (uint32_t)iv.next());   // read-only
    w.add_int(0x2002, 0, 4, false, false, false, true, (uint32_t)iv.next());   // write-only
    w.add_int(0x2003, 0, 4, true, false, true, true, (uint32_t)iv.next());
    w.add_int(0x2004, 0, 1, true, false, true, false, 3);                      // array with a gap at sub 2
    w.add_int(0x2004, 1, 1, false, false, true, true, (uint32_t)iv.next());
    w.add_int(0x2004, 3, 2, false, false, true, true, (uint32_t)iv.next());
    w.add_domain(0x2005, 0, 8 + c.t.below(120), true, true, (uint32_t)iv.next());
    w.add_domain(0x2006, 0, 5 + c.t.below(30), true, false, (uint32_t)iv.next());   // read-only domain
    w.add_string(0x2007, 0, 1 + c.t.below(20), (uint32_t)iv.next());
    w.add_domain(0x2008, 0, 1 + c.t.below(4), true, true, (uint32_t)iv.next());     // domain of <= 4 bytes
    w.add_int(0x2009, 0, 4, false, true, true, true, (uint32_t)iv.next());          // node-id relative
    w.add_domain(0x200A, 0, 10, false, true, (uint32_t)iv.next());                  // write-only domain
    // objects whose type rejects values
    { TObj o; o.idx = 0x1003; o.sub = 0; o.kind = TObj::OTHER; o.width = 1; o.size = 1; o.store = s.alloc(1, "1003:0"); s.add(CO_KEY(0x1003, 0, CO_OBJ_____RW), CO_TEMCY_HIST, (CO_DATA)o.store); w.objs.push_back(o);
      for (int i = 1; i <= 2; i++) s.add(CO_KEY(0x1003, i, CO_OBJ_____R_), CO_TEMCY_HIST, (CO_DATA)s.alloc(4, "1003:n")); }
    s.add(CO_KEY(0x1016, 0, CO_OBJ_D___R_), CO_THB_CONS, 2);
    for (int i = 0; i < 2; i++) {
      hbc[i] = (CO_HBCONS *)s.alloc(sizeof(CO_HBCONS), "hbcons", false); memset(hbc[i], 0, sizeof(CO_HBCONS));
      hbc[i]->NodeId = (uint8_t)(10 + i); hbc[i]->Time = i == 0 ? 100 : 0; hbc[i]->Tmr = -1;
      TObj o; o.idx = 0x1016; o.sub = (uint8_t)(i + 1); o.kind = TObj::OTHER; o.width = 4; o.size = 4; w.objs.push_back(o);
      s.add(CO_KEY(0x1016, i + 1, CO_OBJ_____RW), CO_THB_CONS, (CO_DATA)hbc[i]);
    }
    { TObj o; o.idx = 0x2300; o.sub = 0; o.kind = TObj::OTHER; o.width = 4; o.size = 4; o.store = s.alloc(4, "user-type"); s.add(CO_KEY(0x2300, 0, CO_OBJ_____RW), &UsrType, (CO_DATA)o.store); w.objs.push_back(o); }
    w.finish();
    for (auto &o : w.objs) pool.push_back(&o);
    hist0 = w.lookup(0x1003, 0); hb1 = w.lookup(0x1016, 1); hb2 = w.lookup(0x1016, 2); usr = w.lookup(0x2300, 0);
  }
  // what a client must read from an OTHER object
  std::vector<uint8_t> content(TObj &o) {
    if (o.kind != TObj::OTHER) return w.content(o);
    std::vector<uint8_t> v;
    if (o.idx == 0x1016) { CO_HBCONS *h = hbc[o.sub - 1]; uint32_t x = h->Time | (uint32_t)h->NodeId << 16; for (int i = 0; i < 4; i++) v.push_back((uint8_t)(x >> (8 * i))); }
    else v.assign(o.store, o.store + o.size);
    return v;
  }
  // verdict of the object's type for an (otherwise acceptable) write of `bytes`; 0 = accepted
  uint32_t type_verdict(TObj &o, const std::vector<uint8_t> &b) {
    uint32_t v = 0; for (size_t i = 0; i < b.size() && i < 4; i++) v |= (uint32_t)b[i] << (8 * i);
    if (o.idx == 0x1003) return v == 0 ? 0 : 0x06090030u;
    if (o.idx == 0x2300) return (v & 0x80000000u) ? APP_CODE : 0;
    if (o.idx == 0x1016) {
      uint8_t node = (uint8_t)(v >> 16); uint16_t time = (uint16_t)v;
      bool monitored = false; for (int i = 0; i < 2; i++) if (hbc[i]->Time > 0 && hbc[i]->NodeId == node) monitored = true;
      if (monitored && time > 0) return 0x06040043u;
      return 0xFFFFFFFEu;   // accepted, but the effect on the consumer table is C11's business: no storage compare
    }
    return 0;
  }

  Frame mk(int n, uint8_t cmd, uint16_t idx, uint8_t sub, uint32_t d) { Frame f; f.id = w.req[n]; f.dlc = 8; f.d[0] = cmd; f.d[1] = (uint8_t)idx; f.d[2] = (uint8_t)(idx >> 8); f.d[3] = sub; for (int i = 0; i < 4; i++) f.d[4 + i] = (uint8_t)(d >> (8 * i)); return f; }

  void seen(int cls) { if (!(seen_mask & (1u << cls))) { seen_mask |= 1u << cls; verdict_classes++; } }

  // send one request to server n and judge the reaction
  void request(int n, const Frame &f, const char *what) {
    Srv &x = m[n];
    std::vector<uint8_t> before = s.snapshot();
    // verdict of the object's type, judged on the state BEFORE the request is executed
    pre_tv = 0;
    if ((f.d[0] & 0xF2) == 0x22) {
      TObj *po = w.lookup(f.u16(1), f.d[3]);
      if (po) { uint32_t len = (f.d[0] & 1) ? 4 - ((f.d[0] >> 2) & 3) : std::min<uint32_t>(po->size, 4); std::vector<uint8_t> b(f.d + 4, f.d + 4 + len); pre_tv = type_verdict(*po, b); }
    }
    s.clear_tx();
    VLOG(c, "[srv%d %s] %s -> %s", n, STN[x.st], what, f.str().c_str());
    s.rx(f);
    std::vector<Frame> r;
    for (auto &t : s.tx) {
      CHECK(c, t.id == w.rsp[n], "addressee", "request on %03X made the node send %s (only %03X may answer)", f.id, t.str().c_str(), w.rsp[n]);
      r.push_back(t); VLOG(c, "      <- %s", t.str().c_str());
    }
    s.clear_tx();
    std::vector<uint8_t> after = s.snapshot();
    judge(n, f, r, before, after);
    c.ops++;
  }
  bool is_abort(const std::vector<Frame> &r) { return r.size() == 1 && r[0].d[0] == 0x80; }
  void expect_abort(const Frame &f, const std::vector<Frame> &r, const std::vector<uint32_t> &codes, const std::vector<uint8_t> &before, const std::vector<uint8_t> &after, const char *why, bool mux) {
    CHECK(c, r.size() == 1, "one-response-per-request", "%s (%s): %zu responses, exactly one expected", why, f.str().c_str(), r.size());
    CHECK(c, r[0].d[0] == 0x80, "must-fail-refused", "%s (%s) must be refused but was answered with %s", why, f.str().c_str(), r[0].str().c_str());
    if (!codes.empty()) {
      bool ok = false; for (uint32_t k : codes) if (r[0].u32(4) == k) ok = true;
      CHECK(c, ok, "abort-code", "%s (%s) refused with %08X, expected %08X%s", why, f.str().c_str(), r[0].u32(4), codes[0], codes.size() > 1 ? " (or another applicable listed code)" : "");
    }
    if (mux) CHECK(c, r[0].u16(1) == f.u16(1) && r[0].d[3] == f.d[3], "response-multiplexer", "%s (%s): abort carries multiplexer %04X:%02X", why, f.str().c_str(), r[0].u16(1), r[0].d[3]);
    std::string d = s.diff_snapshot(before, after);
    CHECK(c, d.empty(), "refusal-changes-nothing", "%s (%s) was refused but changed storage: %s", why, f.str().c_str(), d.c_str());
  }

  // the abort that answers a continuation request of an open transfer names the object of that transfer
  void abort_names_open(const Frame &f, const std::vector<Frame> &r, const TObj *o, const char *why) {
    if (o && r.size() == 1 && r[0].d[0] == 0x80) CHECK(c, r[0].u16(1) == o->idx && r[0].d[3] == o->sub, "response-multiplexer", "%s (%s): the abort names %04X:%02X, the open transfer concerns %04X:%02X", why, f.str().c_str(), r[0].u16(1), r[0].d[3], o->idx, o->sub);
  }
  void judge(int n, const Frame &f, const std::vector<Frame> &r, const std::vector<uint8_t> &before, const std::vector<uint8_t> &after) {
    Srv &x = m[n];
    uint8_t cmd = f.d[0];
    CHECK(c, r.size() <= 128, "bounded-tx", "%zu frames for one request", r.size());
    if (cmd == 0x80) { x.st = IDLE; x.obj = nullptr; return; }           // client abort: acknowledgement not constrained
    if (x.st == UNTRACKED) return;                                         // out-of-protocol history inside a block transfer: only memory safety / bounded output
    // ---- states in which the server consumes frames by position, not by command
    if (x.st == BLKDN) {
      uint32_t sq = cmd & 0x7F; bool last = cmd & 0x80;
      if (!x.seqerr && x.seq == 1 && x.visited && (cmd & 0xE3) == 0xC1) {
        // an end frame right after an acknowledged full sub-block that did not carry the last flag: the statement is silent
        CHECK(c, r.size() == 1, "one-response-per-request", "end frame after an acknowledged sub-block: %zu responses", r.size());
        x.st = r[0].d[0] == 0x80 ? IDLE : UNTRACKED; return;
      }
      if (!x.seqerr && sq == x.seq) {
        bool ends = last || sq == x.dnblk;
        if (ends) {
          CHECK(c, r.size() == 1, "one-response-per-request", "final segment %u of a sub-block: %zu responses", sq, r.size());
          if (r[0].d[0] == 0x80) { x.st = IDLE; return; }
          CHECK(c, r[0].d[0] == 0xA2 && r[0].d[1] == sq, "blk-dl-ackseq", "sub-block of %u segments acknowledged with %s", sq, r[0].str().c_str());
          CHECK(c, r[0].d[2] >= 1 && r[0].d[2] <= 127, "blk-dl-ackseq", "acknowledge announces block size %u", r[0].d[2]);
          x.dnblk = r[0].d[2]; x.seq = 1; x.st = last ? BLKDNEND : BLKDN; x.visited = 1;
        } else {
          if (is_abort(r)) { x.st = IDLE; return; }
          CHECK(c, r.empty(), "no-response-inside-block", "segment %u inside a sub-block was answered with %zu frame(s)", sq, r.size());
          x.seq++;
        }
      } else {
        x.seqerr = true;
        if (last || sq == x.dnblk) {
          CHECK(c, r.size() == 1, "one-response-per-request", "end of a sub-block with a sequence error: %zu responses", r.size());
          if (r[0].d[0] == 0x80) { x.st = IDLE; return; }
          CHECK(c, r[0].d[0] == 0xA2 && r[0].d[1] == x.seq - 1, "blk-dl-ackseq", "sub-block with a sequence error after segment %u acknowledged with %s", x.seq - 1, r[0].str().c_str());
          CHECK(c, r[0].d[2] >= 1 && r[0].d[2] <= 127, "blk-dl-ackseq", "acknowledge announces block size %u", r[0].d[2]);
          x.dnblk = r[0].d[2]; x.seq = 1; x.seqerr = false;
        } else {
          if (is_abort(r)) { x.st = IDLE; return; }
          CHECK(c, r.empty(), "no-response-inside-block", "out-of-sequence segment inside a sub-block was answered with %zu frame(s)", r.size());
        }
      }
      return;
    }
    if (x.st == BLKDNEND) {
      CHECK(c, r.size() == 1, "one-response-per-request", "request after the last block-download segment: %zu responses", r.size());
      if ((cmd & 0xE3) == 0xC1) { if (r[0].d[0] != 0x80) CHECK(c, r[0].d[0] == 0xA1, "blk-dl-end-response", "block download end answered with %s", r[0].str().c_str()); }
      else CHECK(c, r[0].d[0] == 0x80, "continuation-without-transfer", "command %02X instead of the block-download end was answered positively: %s", cmd, r[0].str().c_str());
      x.st = IDLE; return;
    }
    if (x.st == BLKUP || x.st == BLKUPEND) {
      if (cmd == 0xA1 && x.st == BLKUPEND) { CHECK(c, r.empty(), "no-response-after-A1", "end-of-block-upload confirmation A1h answered with %zu frame(s)", r.size()); x.st = IDLE; return; }
      if (cmd == 0xA1) {   // the confirmation command before the upload is complete: silence or one abort (statement silent)
        CHECK(c, r.empty() || is_abort(r), "one-response-per-request", "premature A1h during a block upload answered with %zu frames", r.size()); x.st = IDLE; return;
      }
      if ((cmd & 0xE3) == 0xA2 && x.st == BLKUP) {
        uint32_t k = f.d[1], nbs = f.d[2];
        if (k > x.sent) { expect_abort(f, r, {}, before, after, "acknowledge beyond the segments sent", false); abort_names_open(f, r, x.obj, "acknowledge beyond the segments sent"); x.st = IDLE; return; }
        bool all = x.acked + k == x.total;
        if ((nbs < 1 || nbs > 127)) {
          if (all && r.size() == 1 && (r[0].d[0] & 0xE3) == 0xC1) { x.st = BLKUPEND; return; }
          expect_abort(f, r, {}, before, after, "acknowledge with an invalid block size", false); abort_names_open(f, r, x.obj, "acknowledge with an invalid block size"); x.st = IDLE; return;
        }
        x.acked += k;
        if (all) {
          CHECK(c, r.size() == 1 && (r[0].d[0] & 0xE3) == 0xC1, "blk-ul-end", "after the final acknowledge: %zu frame(s)%s%s", r.size(), r.empty() ? "" : ", first ", r.empty() ? "" : r[0].str().c_str());
          x.st = BLKUPEND; return;
        }
        uint32_t want = std::min<uint32_t>(nbs, x.total - x.acked);
        CHECK(c, r.size() == want, "blk-ul-segment-count", "sub-block after %u acknowledged segments: %zu segments, expected min(%u, %u)", x.acked, r.size(), nbs, x.total - x.acked);
        for (uint32_t i = 0; i < want; i++) CHECK(c, (r[i].d[0] & 0x7F) == i + 1, "blk-ul-seqno", "segment %u carries sequence number %u", i + 1, r[i].d[0] & 0x7F);
        x.sent = want; x.blksize = nbs; return;
      }
      if ((cmd & 0xE3) == 0xA2 && x.st == BLKUPEND) { x.st = UNTRACKED; return; }   // a second acknowledge after the end frame: statement silent
      // anything else during a block upload: exactly one abort, code free
      expect_abort(f, r, {}, before, after, "unexpected command during a block upload", false); abort_names_open(f, r, x.obj, "unexpected command during a block upload"); x.st = IDLE; return;
    }
    // ---- dispatch states: IDLE, SEGUP, SEGDN, BLKUPINIT, LOOSE (a segmented transfer may or may not be open)
    bool open = x.st != IDLE;
    uint8_t ccs = cmd >> 5;
    uint16_t idx = f.u16(1); uint8_t sub = f.d[3];
    TObj *o = w.lookup(idx, sub);
    bool idx_exists = false; for (auto &t : w.objs) if (t.idx == idx) idx_exists = true;
    bool canon_exp = (cmd & 0xF2) == 0x22 && ((cmd & 1) || !(cmd & 0x0C));    // e=1; n only with s
    bool canon_seginit = cmd == 0x20 || cmd == 0x21;
    bool canon_ul = cmd == 0x40;
    bool canon_blkdn = cmd == 0xC0 || cmd == 0xC2 || cmd == 0xC4 || cmd == 0xC6;
    bool canon_blkul = cmd == 0xA0 || cmd == 0xA4;
    if (canon_exp || canon_seginit || canon_ul || canon_blkdn || canon_blkul) {
      if (idx == 0x1000 || idx == 0x1001 || idx == 0x1014 || idx == 0x1017 || idx == 0x1018 || idx == 0x1200 || idx == 0x1201 || (idx == 0x1003 && sub > 0)) {
        // communication objects that are not described in the pool: only the response count is judged
        CHECK(c, r.size() == 1, "one-response-per-request", "initiate %s: %zu responses, exactly one expected", f.str().c_str(), r.size());
        x.st = r[0].d[0] == 0x80 ? (open ? LOOSE : IDLE) : (canon_exp ? (open ? LOOSE : IDLE) : UNTRACKED); return;
      }
      if (open) init_while_open = true;
      bool dl = canon_exp || canon_seginit || canon_blkdn;
      std::vector<uint32_t> codes;
      if (!o) codes.push_back(idx_exists ? 0x06090011u : 0x06020000u);
      else {
        if (dl && !o->wr) codes.push_back(0x06010002u);
        if (!dl && !o->rd) codes.push_back(0x06010001u);
      }
      bool unconstrained = false;   // positive or refused: both admissible
      std::vector<uint8_t> data;    // bytes an accepted expedited download writes
      uint32_t announced = 0; bool ann = false;
      if (o) {
        bool fixed = o->kind != TObj::DOMAIN && o->kind != TObj::STRING;
        if (canon_exp) {
          if (cmd & 1) { ann = true; announced = 4 - ((cmd >> 2) & 3); }
          if (ann) {
            if (announced > o->size) codes.push_back(0x06070012u);
            else if (announced < o->size && fixed) codes.push_back(0x06070013u);
            data.assign(f.d + 4, f.d + 4 + announced);
          } else {
            if (o->size > 4) { if (codes.empty()) { expect_abort(f, r, {}, before, after, "expedited download without size indication to an object larger than 4 bytes", true); seen(10); x.st = IDLE; return; } }
            else data.assign(f.d + 4, f.d + 4 + o->size);
          }
        } else if (canon_seginit) {
          if (cmd & 1) { ann = true; announced = f.u32(4); if (announced == 0) unconstrained = true; else if (announced > o->size) codes.push_back(0x06070012u); else if (announced < o->size && fixed) codes.push_back(0x06070013u); }
        } else if (canon_blkdn) {
          if (cmd & 2) { ann = true; announced = f.u32(4); if (announced == 0) unconstrained = true; else if (announced > o->size) codes.push_back(0x06070012u); else if (announced < o->size && fixed) unconstrained = true; }
        } else if (canon_blkul) {
          uint8_t bs = f.d[4];
          if ((bs < 1 || bs > 127) && o->rd) codes.push_back(0x05040002u);
        }
      }
      if (!codes.empty()) {
        expect_abort(f, r, codes, before, after, dl ? "download initiate that must fail" : "upload initiate that must fail", true);
        seen(codes[0] == 0x06020000u ? 0 : codes[0] == 0x06090011u ? 1 : codes[0] == 0x06010002u ? 2 : codes[0] == 0x06010001u ? 3 : codes[0] == 0x06070012u ? 4 : codes[0] == 0x06070013u ? 5 : 6);
        x.st = open ? LOOSE : IDLE;   // the server may have dropped or kept what was open: later segments are judged loosely
        return;
      }
      CHECK(c, r.size() == 1, "one-response-per-request", "initiate %s: %zu responses, exactly one expected", f.str().c_str(), r.size());
      if (unconstrained) { x.st = r[0].d[0] == 0x80 ? (open ? LOOSE : IDLE) : UNTRACKED; return; }
      // type verdict for expedited writes
      if (canon_exp) {
        uint32_t tv = pre_tv;
        if (tv != 0 && tv != 0xFFFFFFFEu) {
          expect_abort(f, r, {tv}, before, after, "write of a value the object's type rejects", true);
          seen(tv == 0x06090030u ? 7 : tv == 0x06040043u ? 8 : 9); x.st = open ? LOOSE : IDLE; return;
        }
        CHECK(c, r[0].d[0] == 0x60, "valid-request-served", "valid expedited download %s to %04X:%02X answered with %s", f.str().c_str(), idx, sub, r[0].str().c_str());
        CHECK(c, r[0].u16(1) == idx && r[0].d[3] == sub, "response-multiplexer", "expedited download to %04X:%02X confirmed for %04X:%02X", idx, sub, r[0].u16(1), r[0].d[3]);
        if (tv == 0 && o->kind != TObj::OTHER) {
          std::vector<uint8_t> exp = before; w.expect_write(exp, *o, data.data(), (uint32_t)data.size());
          std::string d = s.diff_snapshot(exp, after);
          CHECK(c, d.empty(), "positive-response-concerns-named-object", "expedited download %s to %04X:%02X confirmed, but: %s", f.str().c_str(), idx, sub, d.c_str());
        } else if (tv == 0) {
          CHECK(c, !memcmp(o->store, data.data(), data.size()), "positive-response-concerns-named-object", "confirmed expedited download to %04X:%02X not stored", idx, sub);
        }
        seen(11); x.st = open ? LOOSE : IDLE;
        return;
      }
      CHECK(c, r[0].d[0] != 0x80, "valid-request-served", "valid initiate %s for %04X:%02X refused with %08X", f.str().c_str(), idx, sub, r[0].u32(4));
      CHECK(c, r[0].u16(1) == idx && r[0].d[3] == sub, "response-multiplexer", "initiate for %04X:%02X answered for %04X:%02X (%s)", idx, sub, r[0].u16(1), r[0].d[3], r[0].str().c_str());
      std::string d = s.diff_snapshot(before, after);
      CHECK(c, d.empty(), "initiate-changes-nothing", "initiate %s changed storage: %s", f.str().c_str(), d.c_str());
      if (canon_ul) {
        std::vector<uint8_t> cont = content(*o);
        if (cont.size() <= 4 && (r[0].d[0] & 2)) {
          CHECK(c, r[0].d[0] == (0x43 | ((4 - cont.size()) << 2)), "positive-response-concerns-named-object", "expedited upload of %04X:%02X (size %zu): command %02X", idx, sub, cont.size(), r[0].d[0]);
          CHECK(c, !memcmp(r[0].d + 4, cont.data(), cont.size()), "positive-response-concerns-named-object", "expedited upload of %04X:%02X returned %s, the object holds other data", idx, sub, r[0].str().c_str());
          x.st = IDLE;
        } else {
          CHECK(c, r[0].d[0] == 0x41 && r[0].u32(4) == cont.size(), "positive-response-concerns-named-object", "segmented upload initiate of %04X:%02X (size %zu) answered with %s", idx, sub, cont.size(), r[0].str().c_str());
          x.st = SEGUP; x.toggle = 0; x.obj = o;
        }
        seen(12);
      } else if (canon_seginit) { CHECK(c, r[0].d[0] == 0x60, "valid-request-served", "download initiate answered with %s", r[0].str().c_str()); x.st = SEGDN; x.toggle = 0; x.obj = o; seen(13); }
      else if (canon_blkdn) { CHECK(c, (r[0].d[0] & 0xFB) == 0xA0 && r[0].d[4] >= 1 && r[0].d[4] <= 127, "valid-request-served", "block download initiate answered with %s", r[0].str().c_str()); x.dnblk = r[0].d[4]; x.st = BLKDN; x.seq = 1; x.seqerr = false; x.visited = 0; x.obj = o; seen(14); }
      else {
        std::vector<uint8_t> cont = content(*o);
        CHECK(c, (r[0].d[0] & 0xF9) == 0xC0 && (r[0].d[0] & 2) && r[0].u32(4) == cont.size(), "positive-response-concerns-named-object", "block upload initiate of %04X:%02X (size %zu) answered with %s", idx, sub, cont.size(), r[0].str().c_str());
        x.st = BLKUPINIT; x.total = ((uint32_t)cont.size() + 6) / 7; if (!x.total) x.total = 1; x.acked = 0; x.blksize = f.d[4]; x.obj = o; seen(15);
      }
      return;
    }
    // ---- continuation requests
    if (ccs == 0) {   // download segment
      if (x.st == SEGDN) {
        CHECK(c, r.size() == 1, "one-response-per-request", "download segment: %zu responses", r.size());
        if (((cmd >> 4) & 1) != x.toggle) { expect_abort(f, r, {0x05030000u}, before, after, "download segment with the wrong toggle bit", false); abort_names_open(f, r, x.obj, "download segment with the wrong toggle bit"); seen(16); x.st = IDLE; return; }
        if (r[0].d[0] == 0x80) { x.st = IDLE; return; }
        CHECK(c, r[0].d[0] == (0x20 | (x.toggle << 4)), "dl-toggle", "download segment (toggle %u) answered with %s", x.toggle, r[0].str().c_str());
        x.toggle ^= 1; if (cmd & 1) x.st = IDLE;
        return;
      }
      if (x.st == LOOSE) { CHECK(c, r.size() == 1, "one-response-per-request", "download segment: %zu responses", r.size()); x.st = r[0].d[0] == 0x80 ? IDLE : UNTRACKED; return; }
      expect_abort(f, r, {}, before, after, "download segment without an open segmented download", false); if (x.st == BLKUPINIT || x.st == SEGUP || x.st == SEGDN) abort_names_open(f, r, x.obj, "download segment without an open segmented download while another transfer is open"); seen(17); x.st = x.st == IDLE ? IDLE : LOOSE; return;
    }
    if (ccs == 3 && (cmd & 0x0F) == 0) {   // upload segment request 60h / 70h
      if (x.st == SEGUP) {
        CHECK(c, r.size() == 1, "one-response-per-request", "upload segment request: %zu responses", r.size());
        if (((cmd >> 4) & 1) != x.toggle) { expect_abort(f, r, {0x05030000u}, before, after, "upload segment request with the wrong toggle bit", false); abort_names_open(f, r, x.obj, "upload segment request with the wrong toggle bit"); seen(16); x.st = IDLE; return; }
        if (r[0].d[0] == 0x80) { x.st = IDLE; return; }
        CHECK(c, (r[0].d[0] & 0xF0) == (x.toggle << 4), "ul-toggle", "upload segment request (toggle %u) answered with %s", x.toggle, r[0].str().c_str());
        x.toggle ^= 1; if (r[0].d[0] & 1) x.st = IDLE;
        return;
      }
      if (x.st == LOOSE) { CHECK(c, r.size() == 1, "one-response-per-request", "upload segment request: %zu responses", r.size()); x.st = r[0].d[0] == 0x80 ? IDLE : UNTRACKED; return; }
      expect_abort(f, r, {}, before, after, "upload segment request without an open segmented upload", false); if (x.st == BLKUPINIT || x.st == SEGUP || x.st == SEGDN) abort_names_open(f, r, x.obj, "upload segment request without an open segmented upload while another transfer is open"); seen(17); x.st = x.st == IDLE ? IDLE : LOOSE; return;
    }
    if (cmd == 0xA3) {
      if (x.st == BLKUPINIT) {
        uint32_t want = std::min<uint32_t>(x.blksize, x.total);
        CHECK(c, r.size() == want, "blk-ul-segment-count", "first sub-block: %zu segments, expected min(%u, %u)", r.size(), x.blksize, x.total);
        for (uint32_t i = 0; i < want; i++) CHECK(c, (r[i].d[0] & 0x7F) == i + 1, "blk-ul-seqno", "segment %u carries sequence number %u", i + 1, r[i].d[0] & 0x7F);
        x.sent = want; x.st = BLKUP; return;
      }
      if (x.st == LOOSE) { CHECK(c, r.size() == 1 && r[0].d[0] == 0x80, "continuation-without-transfer", "block upload start without initiate: %zu frames", r.size()); x.st = IDLE; return; }
      expect_abort(f, r, {}, before, after, "block upload start (A3h) without a block upload initiate", false); seen(17); x.st = x.st == IDLE ? IDLE : LOOSE; return;
    }
    if (cmd == 0xA1 || (cmd & 0xE3) == 0xA2 || (cmd & 0xE3) == 0xC1) {   // block continuation commands outside a block transfer
      expect_abort(f, r, {}, before, after, "block continuation command without a block transfer", false); if (x.st == BLKUPINIT || x.st == SEGUP || x.st == SEGDN) abort_names_open(f, r, x.obj, "block continuation command without a block transfer while another transfer is open"); seen(17); x.st = x.st == IDLE ? IDLE : LOOSE; return;
    }
    if (ccs == 7) {
      expect_abort(f, r, {0x05040001u}, before, after, "unknown command specifier", false); if (x.st == BLKUPINIT || x.st == SEGUP || x.st == SEGDN) abort_names_open(f, r, x.obj, "unknown command specifier while another transfer is open"); seen(18); x.st = x.st == IDLE ? IDLE : LOOSE; return;
    }
    // command bytes with reserved bits set: answered like the initiate they resemble, or refused - only the count is asserted
    CHECK(c, r.size() == 1, "one-response-per-request", "request %s: %zu responses, exactly one expected", f.str().c_str(), r.size());
    x.st = UNTRACKED;
  }
};

void case_impl(Ctx &c, bool wide, bool renumbered = false) {
  C04 x(c); x.build(wide);
  // mode after-lss-node-id-change: an LSS master has moved the node to another node id (configure, store, NMT reset communication) before the requests arrive
  if (renumbered) { uint8_t nid = (uint8_t)(1 + c.t.below(127)); if (nid == x.s.nodeid) nid = (uint8_t)(nid % 127 + 1); x.w.lss_renumber(nid); c.cls("node-id-changed-through-lss-before-the-requests"); }
  int nsrv = CO_SSDO_N;
  bool opmode = c.t.coin();
  if (opmode) { x.s.rx(Frame::mk(0, 2, {1, 0})); x.s.clear_tx(); VLOG(c, "NMT start: OPERATIONAL"); }
  int steps = 0, maxsteps = c.thorough ? 60 : 40;
  static const uint16_t MUX[][2] = {{0x2000, 0}, {0x2001, 0}, {0x2002, 0}, {0x2003, 0}, {0x2004, 0}, {0x2004, 1}, {0x2004, 2}, {0x2004, 3}, {0x2004, 4}, {0x2005, 0}, {0x2005, 1}, {0x2006, 0}, {0x2007, 0},
                                    {0x2008, 0}, {0x2009, 0}, {0x200A, 0}, {0x1003, 0}, {0x1016, 1}, {0x1016, 2}, {0x1016, 3}, {0x2300, 0}, {0x3000, 0}, {0x3000, 1}, {0x0002, 0}, {0xFFFF, 0xFF}};
  while (!c.t.exhausted() && steps < maxsteps) {
    steps++;
    int n = nsrv > 1 ? (int)c.t.below(2) : 0;
    Srv &m = x.m[n];
    uint32_t k = c.t.below(25);
    uint16_t idx = MUX[k][0]; uint8_t sub = (uint8_t)MUX[k][1];
    if (wide) { if (k == 21) idx = 0xA100; else if (k == 22) idx = 0xA100; else if (k == 23) { idx = 0xFFFE; sub = 0; } else if (k == 9 || k == 12) { idx = 0xA100; sub = (uint8_t)(k == 9 ? 0 : 2); } }   // A100h:00, A100h:01, FFFEh:00, absent A100h:02
    if (m.obj && c.t.chance(50)) { idx = m.obj->idx; sub = m.obj->sub; }   // the object of the currently open transfer
    // (the region "user-type object addressed while the other server has a transfer open on the same object" was excluded here while D38 was a known finding; D38 is repaired)
    TObj *o = x.w.lookup(idx, sub);
    static const uint16_t W[12] = {20, 14, 14, 10, 10, 22, 14, 8, 6, 6, 6, 6};
    uint32_t kind = c.t.weighted(W);
    // while a block transfer is being tracked, mostly continue it
    if ((m.st == BLKDN || m.st == BLKDNEND || m.st == BLKUP || m.st == BLKUPEND || m.st == BLKUPINIT) && c.t.chance(170)) kind = 6;
    if ((m.st == SEGUP || m.st == SEGDN) && c.t.chance(110)) kind = 5;
    Frame f;
    switch (kind) {
      case 0: {   // expedited download
        bool s1 = c.t.chance(200); uint32_t nn = s1 ? c.t.below(4) : 0;
        if (s1 && o && o->size <= 4 && c.t.chance(180)) nn = 4 - o->size;
        uint32_t v = c.t.u32();
        if (o && o->idx == 0x1003 && c.t.coin()) v = 0;
        if (o && o->idx == 0x1016) v = (uint32_t)(c.t.coin() ? 10 + c.t.below(3) : c.t.below(128)) << 16 | (c.t.coin() ? 0 : 1 + c.t.below(500));
        if (o && o->idx == 0x2300 && c.t.coin()) v &= 0x7FFFFFFFu;
        f = x.mk(n, (uint8_t)(0x22 | (s1 ? 1 | (nn << 2) : 0)), idx, sub, v);
        x.request(n, f, "expedited download"); break;
      }
      case 1: f = x.mk(n, 0x40, idx, sub, c.t.chance(40) ? c.t.u32() : 0); x.request(n, f, "upload initiate"); break;
      case 2: {   // segmented download initiate
        bool s1 = c.t.coin(); uint32_t sz = 0;
        if (s1) sz = (o && c.t.chance(150)) ? o->size : 1 + c.t.below(140);
        f = x.mk(n, (uint8_t)(0x20 | (s1 ? 1 : 0)), idx, sub, sz); x.request(n, f, "segmented download initiate"); break;
      }
      case 3: {   // block download initiate
        bool s1 = c.t.coin(); uint32_t sz = 0;
        if (s1) sz = (o && c.t.chance(150)) ? o->size : 1 + c.t.below(140);
        f = x.mk(n, (uint8_t)(0xC0 | (s1 ? 2 : 0) | (c.t.coin() ? 4 : 0)), idx, sub, sz); x.request(n, f, "block download initiate"); break;
      }
      case 4: {   // block upload initiate
        static const uint8_t BS[8] = {1, 2, 4, 127, 127, 0, 128, 255};
        f = x.mk(n, c.t.coin() ? 0xA0 : 0xA4, idx, sub, BS[c.t.below(8)]); x.request(n, f, "block upload initiate"); break;
      }
      case 5: {   // segment (download segment or upload segment request), toggle usually right
        bool up = m.st == SEGUP ? !c.t.chance(30) : m.st == SEGDN ? c.t.chance(30) : c.t.coin();
        uint8_t t = c.t.chance(215) ? m.toggle : (uint8_t)(m.toggle ^ 1);
        if (up) { f = x.mk(n, (uint8_t)(0x60 | (t << 4)), 0, 0, 0); }
        else {
          uint32_t cnt = c.t.below(8); bool last = c.t.chance(60);
          f = x.mk(n, (uint8_t)((t << 4) | (((7 - cnt) & 7) << 1) | (last ? 1 : 0)), 0, 0, 0); for (int i = 1; i < 8; i++) f.d[i] = c.t.byte();
        }
        x.request(n, f, up ? "upload segment request" : "download segment"); break;
      }
      case 6: {   // block continuation
        if (m.st == BLKDN) {
          uint32_t sq = c.t.chance(215) ? m.seq : 1 + c.t.below(127); bool last = c.t.chance(50);
          if (c.t.chance(30)) { // run to the end of the sub-block
            for (uint32_t q = m.seq; q <= m.dnblk && m.st == BLKDN; q++) { f = x.mk(n, (uint8_t)q, 0, 0, 0); for (int i = 1; i < 8; i++) f.d[i] = (uint8_t)(q + i); x.request(n, f, "block segment (run)"); }
            break;
          }
          f = x.mk(n, (uint8_t)((sq & 0x7F) | (last ? 0x80 : 0)), 0, 0, 0); for (int i = 1; i < 8; i++) f.d[i] = c.t.byte();
          x.request(n, f, "block download segment");
        } else if (m.st == BLKDNEND) {
          f = x.mk(n, (uint8_t)(0xC1 | (c.t.below(8) << 2)), 0, 0, 0); if (c.t.chance(40)) f.d[0] = c.t.byte();
          x.request(n, f, "block download end");
        } else if (m.st == BLKUP) {
          uint32_t kk = c.t.chance(150) ? m.sent : c.t.below(m.sent + 2);
          static const uint8_t BS[8] = {1, 2, 4, 127, 127, 64, 0, 200};
          f = x.mk(n, 0xA2, 0, 0, 0); f.d[1] = (uint8_t)kk; f.d[2] = BS[c.t.below(8)]; f.d[3] = 0;
          x.request(n, f, "block upload acknowledge");
        } else if (m.st == BLKUPEND) { f = x.mk(n, c.t.chance(220) ? 0xA1 : c.t.byte(), 0, 0, 0); x.request(n, f, "block upload end confirmation"); }
        else { static const uint8_t CC[5] = {0xA3, 0xA1, 0xA2, 0xC1, 0xC5}; uint8_t cc = m.st == BLKUPINIT && c.t.chance(200) ? 0xA3 : CC[c.t.below(5)]; f = x.mk(n, cc, 0, 0, 0); if (cc == 0xA2) { f.d[1] = c.t.byte(); f.d[2] = c.t.byte(); } x.request(n, f, "block continuation command"); }
        break;
      }
      case 7: f = x.mk(n, 0x80, idx, sub, 0x08000000); x.request(n, f, "client abort"); break;
      case 8: f = x.mk(n, (uint8_t)(0xE0 | c.t.below(32)), idx, sub, c.t.u32()); x.request(n, f, "unknown command (ccs 7)"); break;
      case 9: { static const uint8_t RV[10] = {0x41, 0x4F, 0x50, 0x24, 0x28, 0x2C, 0x61, 0x6E, 0xC8, 0xB0}; f = x.mk(n, RV[c.t.below(10)], idx, sub, c.t.u32()); x.request(n, f, "command with reserved bits"); break; }
      case 10: { f = x.mk(n, c.t.byte(), idx, sub, c.t.u32()); if (f.d[0] == 0x80) f.d[0] = 0x81; x.request(n, f, "random command byte"); break; }
      default: {   // NMT change between PRE-OPERATIONAL and OPERATIONAL
        opmode = !opmode; x.s.rx(Frame::mk(0, 2, {(uint8_t)(opmode ? 1 : 128), 0})); x.s.clear_tx(); VLOG(c, "NMT: %s", opmode ? "OPERATIONAL" : "PRE-OPERATIONAL"); break;
      }
    }
  }
  if (x.init_while_open || x.verdict_classes >= 3) c.nontrivial = true;
  if (x.init_while_open) c.cls("initiate-while-transfer-open");
  if (x.verdict_classes >= 3) c.cls("three-or-more-verdict-classes");
  for (int i = 0; i < 19; i++) if (x.seen_mask & (1u << i)) { static const char *N[19] = {"v:0602-0000", "v:0609-0011", "v:0601-0002", "v:0601-0001", "v:0607-0012", "v:0607-0013", "v:0504-0002", "v:0609-0030", "v:0604-0043", "v:app-code", "v:exp-no-size-large", "v:exp-download-ok", "v:upload-ok", "v:seg-dl-init-ok", "v:blk-dl-init-ok", "v:blk-ul-init-ok", "v:0503-0000", "v:continuation-without-transfer", "v:0504-0001"}; c.cls(N[i]); }
}

void one_case(Ctx &c) { case_impl(c, false); }
void wide_case(Ctx &c) { case_impl(c, true); }
void renum_case(Ctx &c) { case_impl(c, false, true); }

Registrar reg(Prop{
    "C04",
    "Cases: node id 1..127; dictionary with every access-flag combination (RW, RO, WO integers and domains, direct/referenced/node-id relative), an array with a gap, a string, a domain of <= 4 bytes, 1003h:0 (range), 1016h (incompatibility) and a user type rejecting values with an application abort code; "
    "histories of up to 40 (60) request frames per case on one server (two in build n2, interleaved) over the full SDO command alphabet: canonical initiates of all five kinds with announced sizes around the object size, segments with right/wrong toggle, block segments/acknowledges/end frames, client aborts, unknown commands (ccs 7), commands with reserved bits, random bytes; "
    "multiplexers from existing / absent sub-index / absent index / the object of the open transfer; NMT state toggled between PRE-OPERATIONAL and OPERATIONAL. "
    "Oracle: per-request validity predicate from a protocol-state model per server (response count, responder id, multiplexer, listed abort codes, unchanged storage snapshot on refusal, named object's data/size on positive initiate responses). "
    "Mode wide-dictionary: the same with additional objects at A100h and FFFEh (the dictionary spans more than 7FFFh indices). Mode after-lss-node-id-change: an LSS master has given the node another node id (configure node id, store, NMT reset communication) before the requests arrive - 'an enabled server' then listens and answers on the identifiers of the new id. Mode pdo-mapping-verdicts: the PDO parameter histories and rule model of C14 (accept/refuse verdict, 0604 0041h / 0604 0042h where the reason is named, refused write changes nothing). Mode sync-range-verdicts: the 1005h/1006h write histories and reference model of C16 (range verdict 0609 0030h exactly where the value cannot be accepted, value kept, and a refused write changes nothing - the running SYNC producer keeps its schedule). "
    "Non-trivial: the history contains an initiate while another transfer was open, or >= 3 different verdict classes (pdo-mapping-verdicts: >= 1 accepted and >= 1 refused write and an activation after them). Distinct = distinct decoded choice sequence.",
    {Mode{"random", one_case, false, 600000, 17000000, 0, 0, 260, 400},
     Mode{"wide-dictionary", wide_case, false, 100000, 3000000, 0, 0, 260, 400},
     Mode{"after-lss-node-id-change", renum_case, false, 100000, 3000000, 0, 0, 260, 400},
     Mode{"pdo-mapping-verdicts", vf::c14_case, false, 150000, 3000000, 0, 0, 300, 600},
     Mode{"sync-range-verdicts", vf::c16_case, false, 150000, 3000000, 0, 0, 260, 500}},
    {"the mapping abort codes 0604 0041h/0042h need PDO objects: they are judged by a second mode that runs C14's case generator and rule model (histories of SDO writes to 14xx/16xx/18xx/1Axx) under this property as well",
     "length codes 0607 0012h/0013h are demanded where the length is announced in the initiate; a block download announcing less than a fixed-size object's width may be refused at once or at the end",
     "after out-of-protocol frames inside a block transfer the model stops judging that server until the next client abort (memory safety and bounded output still apply)",
     "command bytes with reserved bits set: only 'exactly one response' is asserted",
     "how a client abort is acknowledged is not constrained"}});

}  // namespace
