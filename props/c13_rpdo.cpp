// C13 - RPDO bytes reach exactly the mapped objects, at the right moment (DESIGN.md §5 C13)
#include "model/node.h"
using namespace vf;

namespace {

struct Field { int obj; int bytes; };            // obj: index into the 5 mappable objects, -1 = dummy
struct Chan { bool present = false, en = false, sync = false; uint32_t id = 0; std::vector<Field> f; bool pend = false; uint8_t buf[8]; int total = 0; };

void case_impl(Ctx &c, bool resync, bool bursts = false) {
  Sim s(c); World w(s);
  s.nodeid = (uint8_t)(1 + c.t.below(127));
  w.mandatory();
  add_sync(w, 0x80, 0);
  // mappable objects: two 8-bit, one 16-bit, two 32-bit (the second one mapped with 24 bit), one not mapped at all
  TObj *ob[6];
  w.add_int(0x2100, 1, 1, false, false, true, true, 0, true); w.add_int(0x2100, 2, 1, false, false, true, true, 0, true); w.add_int(0x2100, 3, 2, false, false, true, true, 0, true);
  w.add_int(0x2100, 4, 4, false, false, true, true, 0, true); w.add_int(0x2100, 5, 4, false, false, true, true, 0, true); w.add_int(0x2100, 6, 4, false, false, true, true, 0x11223344, true);
  static const uint32_t MAPS[5] = {0x21000108, 0x21000208, 0x21000310, 0x21000420, 0x21000518};
  static const int BYTES[5] = {1, 1, 2, 4, 3};
  static const uint32_t DUMMY[6] = {0x00020008, 0x00050008, 0x00030010, 0x00060010, 0x00040020, 0x00070020};
  static const int DBYTES[6] = {1, 1, 2, 2, 4, 4};
  Chan ch[4]; bool many_fields = false, has_dummy = false;
  for (int p = 0; p < 4; p++) {
    Chan &r = ch[p];
    r.present = c.t.chance(p < 2 ? 220 : 110);
    if (!r.present) continue;
    uint32_t base = 0x200u + 0x100u * p + s.nodeid;
    r.id = c.t.chance(40) ? 0x200u + s.nodeid : base;             // colliding identifiers
    bool invalid = c.t.chance(30);
    r.en = !invalid;
    uint8_t type = c.t.coin() ? (uint8_t)(254 + c.t.below(2)) : (uint8_t)c.t.below(241);
    r.sync = type <= 240;
    std::vector<uint32_t> maps;
    while (r.f.size() < 8) {
      uint32_t k = c.t.below(13);
      if (k >= 11) break;
      int by; uint32_t m; int o;
      if (k < 5) { by = BYTES[k]; m = MAPS[k]; o = (int)k; } else { by = DBYTES[k - 5]; m = DUMMY[k - 5]; o = -1; }
      if (r.total + by > 8) break;
      r.f.push_back({o, by}); maps.push_back(m); r.total += by; if (o < 0) has_dummy = true;
    }
    if (r.f.size() >= 2) many_fields = true;
    // half of the unusable channels are not switched off by bit 31 but carry a 29-bit identifier (bit 29; decided from the transmission type, no tape choice):
    // no 11-bit frame equals such a COB-ID - and the channels behind it in the table work all the same
    bool ext = invalid && (type & 1); if (ext) c.cls("channel-with-a-29-bit-cob-id");
    add_rpdo(w, p, r.id | (invalid ? (ext ? 0x20000000u : 0x80000000u) : 0), type, maps, 8);
  }
  // mode sync-id-rewritten: the node also has event-driven TPDOs without mapping on the four channels (they never transmit by themselves); a client
  // switches them off and on while the node runs - which is none of the RPDOs' business
  // mode frame-bursts: the node also monitors a heartbeat (1016h) of the node whose id equals the low byte of its RPDO identifiers - only 700h + id is that
  // node's heartbeat, every other identifier with that low byte is none of the consumer's business
  if (bursts) add_hbcons(w, {{s.nodeid, 50}});
  TpdoCfg tp[4]; if (resync) for (int p = 0; p < 4; p++) tp[p] = add_tpdo(w, p, 0x40000180u + 0x100u * (uint32_t)p + s.nodeid, 255, 0, 0, {}, 1);
  w.finish();
  for (int i = 0; i < 6; i++) ob[i] = w.lookup(0x2100, (uint8_t)(i + 1));
  if (c.logging) for (int p = 0; p < 4; p++) if (ch[p].present) { std::string d; for (auto &f : ch[p].f) d += (f.obj < 0 ? "dummy/" : "obj" + std::to_string(f.obj + 1) + "/") + std::to_string(f.bytes) + " "; VLOG(c, "RPDO %d: id %03X %s %s fields: %s", p, ch[p].id, ch[p].en ? "valid" : "INVALID", ch[p].sync ? "synchronous" : "asynchronous", d.c_str()); }
  std::vector<uint8_t> model = s.snapshot();
  auto apply = [&](Chan &r, const uint8_t *d) {
    int pos = 0;
    for (auto &f : r.f) {
      if (f.obj >= 0) { uint8_t b[4] = {0, 0, 0, 0}; for (int k = 0; k < f.bytes; k++) b[k] = d[(pos + k) & 7]; w.expect_write(model, *ob[f.obj], b, ob[f.obj]->width); }
      pos += f.bytes;
    }
  };
  auto compare = [&](const char *after) {
    std::string d = s.diff_snapshot(model, s.snapshot());
    CHECK(c, d.empty(), "dictionary-equals-model", "after %s: %s (shown: expected -> actual)", after, d.c_str());
  };
  int mode = 2; bool registered = false; int syncs_seen_by_sync_rpdo = 0;
  uint32_t syncid = 0x80; int sync_rewrites = 0; SdoClient cl(s, w.req[0], w.rsp[0]);   // mode sync-id-rewritten: a client moves the SYNC identifier (1005h) while the node runs
  int steps = 0; bool repeated_start = false; uint32_t burst_max = 0; int tpdo_toggles = 0;
  while (!c.t.exhausted() && steps < 120) {
    steps++; c.ops++;
    static const uint16_t W[5] = {50, 25, 12, 8, 5}, WR[8] = {50, 25, 12, 8, 5, 8, 0, 8}, WB[7] = {40, 25, 8, 8, 5, 0, 30};
    uint32_t op = bursts ? c.t.weighted(WB) : resync ? c.t.weighted(WR) : c.t.weighted(W);   // mode "random" keeps the alphabet the saved witnesses were recorded with
    s.clear_tx();
    if (op == 6) {        // mode frame-bursts: k frames for one valid RPDO with no SYNC in between; only the last one counts for a synchronous RPDO, each one is applied for an asynchronous one
      std::vector<int> cand; for (int p = 0; p < 4; p++) if (ch[p].present && ch[p].en) { bool first = true; for (int q = 0; q < p; q++) if (ch[q].present && ch[q].en && ch[q].id == ch[p].id) first = false; if (first) cand.push_back(p); }
      if (cand.empty()) continue;
      if (mode != 3) { s.rx(Frame::mk(0, 2, {1, 0})); mode = 3; registered = true; for (auto &r : ch) r.pend = false; VLOG(c, "NMT -> mode 3"); compare("an NMT command"); s.clear_tx(); }
      Chan &r = ch[cand[c.t.below((uint32_t)cand.size())]];
      static const uint32_t MARK[6] = {255, 256, 257, 512, 768, 1024}; uint32_t kk = c.t.below(8);
      uint32_t k = kk < 5 ? MARK[c.t.below(6)] + c.t.below(3) - 1 : kk == 5 ? 65535 + c.t.below(3) : 1 + c.t.below(600);
      uint32_t seed = c.t.u32(); Frame f; f.id = r.id; f.dlc = 8;
      for (uint32_t i = 0; i < k; i++) { for (int b = 0; b < 8; b++) { seed = seed * 1664525u + 1013904223u; f.d[b] = (uint8_t)(seed >> 24); } s.rx(f); s.clear_tx(); if (!r.sync) apply(r, f.d); }
      if (r.sync) { memcpy(r.buf, f.d, 8); r.pend = true; }
      VLOG(c, "burst of %u frames on %03X (%s), last %s", k, r.id, r.sync ? "synchronous: the last one is applied at the next SYNC" : "asynchronous", f.str().c_str());
      burst_max = k > burst_max ? k : burst_max; compare("a burst of RPDO frames"); continue;
    }
    if (op == 7) {        // a TPDO COB-ID is switched off / on through SDO
      if (mode == 4) continue;
      int p = (int)c.t.below(4); uint32_t nv = *tp[p].id ^ 0x80000000u;
      uint32_t code = cl.write((uint16_t)(0x1800 + p), 1, nv, 4);
      CHECK(c, code == 0, "harness", "toggling the valid bit of 18%02Xh:1 refused with %08X", p, code);
      VLOG(c, "18%02Xh:1 := %08X", p, nv); s.clear_tx(); tpdo_toggles++;
      { size_t off = s.ndict * 8; for (auto &b : s.blocks) { if (!b.storage) continue; if (b.p == (uint8_t *)tp[p].id) for (int i = 0; i < 4; i++) model[off + i] = (uint8_t)(nv >> (8 * i)); off += b.n; } }
      compare("a write to a TPDO COB-ID"); continue;
    }
    if (op == 5) {        // the SYNC identifier is rewritten through SDO (the node is a SYNC consumer: any 11-bit identifier may be written at any time)
      if (mode == 4) continue;
      static const uint32_t SID[3] = {0x80, 0x90, 0x100}; uint32_t nid = SID[c.t.below(3)];
      uint32_t code = cl.write(0x1005, 0, nid, 4);
      CHECK(c, code == 0, "harness", "write of %08X to 1005h of a SYNC consumer refused with %08X", nid, code);
      VLOG(c, "1005h := %08X", nid); if (nid != syncid) sync_rewrites++; syncid = nid; s.clear_tx();
      { size_t off = s.ndict * 8; for (auto &b : s.blocks) { if (!b.storage) continue; if (b.name == "1005") for (int i = 0; i < 4; i++) model[off + i] = (uint8_t)(nid >> (8 * i)); off += b.n; } }
      compare("a write to 1005h"); continue;
    }
    if (op == 0) {        // RPDO frame or near miss
      uint32_t id; uint32_t k = c.t.below(8);
      if (k < 5) id = 0x200u + 0x100u * (k % 4) + s.nodeid; else if (k == 5) id = 0x201u + s.nodeid; else if (k == 6) id = 0x1FFu + s.nodeid; else id = 0x600 + c.t.below(0x100);
      Frame f; f.id = id; for (int i = 0; i < 8; i++) f.d[i] = c.t.byte();
      int target = -1;
      if (mode == 3 && registered) for (int p = 0; p < 4; p++) if (ch[p].present && ch[p].en && ch[p].id == id) { target = p; break; }
      f.dlc = 8; if (target >= 0 && c.t.coin()) f.dlc = (uint8_t)(ch[target].total + c.t.below(9 - ch[target].total));   // the mapped length or longer
      VLOG(c, "rx %s -> %s", f.str().c_str(), target < 0 ? "no RPDO" : ch[target].sync ? "buffered until SYNC" : "applied at once");
      s.rx(f);
      if (target >= 0) { Chan &r = ch[target]; if (!r.sync) apply(r, f.d); else { memcpy(r.buf, f.d, 8); r.pend = true; } }
      compare("an RPDO / near-miss frame");
      // a repeated "start remote node" while the node is OPERATIONAL is no state change: nothing happens, a buffered synchronous frame stays buffered
      // (decided from the payload, no extra tape choice)
      if (mode == 3 && f.d[7] % 4 == 0) { s.clear_tx(); s.rx(Frame::mk(0, 2, {1, (uint8_t)(f.d[6] & 1 ? 0 : s.nodeid)})); VLOG(c, "NMT start repeated while OPERATIONAL"); compare("a repeated NMT start while OPERATIONAL"); repeated_start = true; }
    } else if (op == 1) { // SYNC
      uint32_t fid = 0x80;
      if (resync) { static const uint32_t SID[3] = {0x80, 0x90, 0x100}; fid = c.t.chance(170) ? syncid : SID[c.t.below(3)]; }
      VLOG(c, "%s", fid == syncid ? "SYNC" : "frame on a former / other SYNC identifier");
      s.rx(Frame::mk(fid, c.t.chance(40) ? 1 : 0, {9}));
      if (fid != syncid) { compare("a frame whose identifier is not the SYNC identifier of 1005h"); continue; }
      bool unconstrained = false;
      if (mode == 2 || mode == 3) for (int p = 0; p < 4; p++) { Chan &r = ch[p]; if (r.present && r.en && r.sync && registered) { if (mode == 3) { syncs_seen_by_sync_rpdo++; if (r.pend) { r.pend = false; apply(r, r.buf); } } else if (r.pend) { unconstrained = true; r.pend = false; } } }
      if (unconstrained) model = s.snapshot();    // buffered frame + SYNC after leaving OPERATIONAL: applied or dropped, both admitted
      else compare("a SYNC");
    } else if (op == 2) { // NMT
      int nm = mode == 3 ? (c.t.coin() ? 2 : 4) : 3;
      s.rx(Frame::mk(0, 2, {(uint8_t)(nm == 3 ? 1 : nm == 2 ? 128 : 2), 0})); mode = nm; VLOG(c, "NMT -> mode %d", nm);
      if (nm == 3) { registered = true; for (auto &r : ch) r.pend = false; }
      compare("an NMT command");
    } else if (op == 3) { // local writes
      for (int i = 0; i < 4; i++) if (c.t.coin()) { uint32_t v = c.t.u32(); uint8_t b[4]; for (int k = 0; k < 4; k++) b[k] = (uint8_t)(v >> (8 * k)); s.api_begin(); if (ob[i]->width == 1) CODictWrByte(&s.node->Dict, CO_DEV(0x2100, i + 1), b[0]); else if (ob[i]->width == 2) CODictWrWord(&s.node->Dict, CO_DEV(0x2100, i + 1), (uint16_t)v); else CODictWrLong(&s.node->Dict, CO_DEV(0x2100, i + 1), v); s.api_end("CODictWr"); w.expect_write(model, *ob[i], b, ob[i]->width); }
      VLOG(c, "local writes"); compare("local writes");
    } else { for (int i = 0; i < 2; i++) s.step_tick(); compare("ticks"); }
  }
  if (many_fields || has_dummy || syncs_seen_by_sync_rpdo >= 2) c.nontrivial = true;
  if (sync_rewrites) c.cls("sync-identifier-rewritten-at-run-time"); if (tpdo_toggles) c.cls("tpdo-switched-off-or-on-at-run-time");
  if (burst_max >= 256) c.cls("burst-of-256-or-more-frames-between-two-syncs"); if (burst_max >= 65536) c.cls("burst-of-65536-or-more-frames");
  if (has_dummy) c.cls("mapping-with-dummy"); if (many_fields) c.cls("two-or-more-fields"); if (syncs_seen_by_sync_rpdo >= 2) c.cls("sync-rpdo-saw-two-syncs");
}

void one_case(Ctx &c) { case_impl(c, false); }
void resync_case(Ctx &c) { case_impl(c, true); }
void burst_case(Ctx &c) { case_impl(c, false, true); }

Registrar reg(Prop{
    "C13",
    "Cases: node id 1..127; RPDO table: each of 4 channels absent / asynchronous (254/255) / synchronous (type 0..240), valid or invalid COB-ID, distinct or colliding identifiers; mappings of 0..8 fields drawn from two 8-bit, one 16-bit, one 32-bit and one 24-bit-of-32 object and the dummy entries 0002h..0007h with their natural widths, total <= 8 bytes; "
    "histories of up to 120 ops: RPDO frames with the mapped length or longer and random payloads, near-miss identifiers, SYNCs (DLC 0/1), NMT start/stop/pre-operational and repeated NMT start while OPERATIONAL, local writes, ticks; mode sync-id-rewritten adds SDO writes that move the SYNC identifier 1005h among {80h, 90h, 100h} at run time and frames on the former identifiers (which are then any other identifier) and SDO writes that switch an event-driven TPDO of the same channel numbers off and on; mode frame-bursts delivers 1..600, 254..1026 or 65534..65537 frames to one RPDO without a SYNC in between (a synchronous RPDO applies the last one at the next SYNC, exactly once). "
    "Oracle: model dictionary compared with a full storage snapshot after every step (asynchronous: consecutive little-endian fields written at once, dummies skipped by width; synchronous: buffered, applied at the next SYNC exactly once; nothing outside OPERATIONAL or for other identifiers; everything else byte-identical). "
    "Non-trivial: the case has a mapping with >= 2 fields or a dummy, or a synchronous RPDO saw >= 2 SYNCs. Distinct = distinct decoded choice sequence.",
    {Mode{"random", one_case, false, 1000000, 20000000, 0, 0, 300, 500},
     Mode{"sync-id-rewritten", resync_case, false, 300000, 5000000, 0, 0, 300, 500},
     Mode{"frame-bursts", burst_case, false, 20000, 400000, 0, 0, 200, 300}},
    {"with colliding identifiers the first channel in index order receives the frame", "RPDO identifiers differ from the SYNC identifier of 1005h (there the statements of C13 and C16 contradict each other)", "a SYNC arriving after the node left OPERATIONAL with a buffered frame is not constrained", "frames shorter than the mapped length are not generated (statement silent)"}});

}  // namespace
