// C18 - the LSS slave follows the CiA 305 state machine for every request sequence (DESIGN.md §5 C18)
#include "model/node.h"
using namespace vf;

namespace {

const uint32_t BAUD[10] = {1000000, 800000, 500000, 250000, 125000, 0, 50000, 20000, 10000, 0};

// One deterministic reference FSM per admissible reading of what CiA 305 leaves open:
//   restart:     a non-matching frame inside a selective/identify sequence restarts the sequence (else: position kept)
//   independent: selective and identify sequences keep independent positions (else: one shared position)
struct Model {
  bool restart, independent, keep_done, act_clears = true; bool alive = true;   // keep_done: a completed sequence keeps its position (repeating the last frame answers again)
  int mode = 1;                   // 1 waiting, 2 configuration
  int sel = 0, idn = 0;           // progress: number of matching frames so far
  uint8_t cfgnode = 0; uint32_t cfgbaud = 0;
  void reset_lss() { mode = 1; sel = idn = 0; cfgnode = 0; cfgbaud = 0; }
};
struct Exp { bool resp = false; uint8_t cs = 0; int check = 0; uint8_t err = 0; uint32_t val = 0; bool store_call = false; uint8_t st_node = 0; uint32_t st_baud = 0; bool free_resp = false; };

struct C18 {
  Ctx &c; Sim s; World w; uint32_t ident[4]; uint32_t *idv[4] = {0, 0, 0, 0}; Model m[16]; uint8_t nodeid; int nmt = 2;
  bool via_selective = false, store_reset = false; bool stored_ok = false; int nfail = 0;

  C18(Ctx &cx) : c(cx), s(cx), w(s) { for (int i = 0; i < 16; i++) { m[i].restart = i & 1; m[i].independent = i & 2; m[i].keep_done = i & 4; m[i].act_clears = !(i & 8); } }

  bool lss_off = false;   // the identity object lacks sub-index 4: the LSS slave cannot compare its address and stays out of service - its frames are still LSS frames
  void build(uint8_t nid, const uint32_t id[4], bool incomplete = false) {
    lss_off = incomplete;
    s.nodeid = nid; nodeid = nid; for (int i = 0; i < 4; i++) ident[i] = id[i];
    uint8_t *er = s.var<uint8_t>("1001", 0);
    s.add(CO_KEY(0x1001, 0, CO_OBJ____PR_), CO_TUNSIGNED8, (CO_DATA)er);
    s.add(CO_KEY(0x1000, 0, CO_OBJ_D___R_), CO_TUNSIGNED32, 0);
    s.add(CO_KEY(0x1014, 0, CO_OBJ__N__RW), CO_TEMCY_ID, (CO_DATA)s.var<uint32_t>("1014", 0x80));
    s.add(CO_KEY(0x1017, 0, CO_OBJ_____RW), CO_THB_PROD, (CO_DATA)s.var<uint16_t>("1017", 0));
    s.add(CO_KEY(0x1018, 0, CO_OBJ_D___R_), CO_TUNSIGNED8, incomplete ? 3 : 4);
    for (int i = 0; i < (incomplete ? 3 : 4); i++) { idv[i] = s.var<uint32_t>("1018:n", id[i]); s.add(CO_KEY(0x1018, i + 1, CO_OBJ_____R_), CO_TUNSIGNED32, (CO_DATA)idv[i]); }
    s.add(CO_KEY(0x1200, 0, CO_OBJ_D___R_), CO_TUNSIGNED8, 2);
    s.add(CO_KEY(0x1200, 1, CO_OBJ_DN__R_), CO_TUNSIGNED32, 0x600); s.add(CO_KEY(0x1200, 2, CO_OBJ_DN__R_), CO_TUNSIGNED32, 0x580);
    s.init(); s.start(); s.clear_tx(); s.clear_ev();
  }
  // model step: expected reaction of one model to one LSS frame
  Exp step(Model &x, const Frame &f) {
    Exp e; uint8_t cs = f.d[0]; uint32_t a = f.u32(1);
    if (lss_off) return e;     // out of service: no state, no answer, no store (and, like every LSS frame, never handed on)
    auto selective = [&](int pos) {      // pos 0..3
      if (x.mode != 1) return;           // switch-state-selective is a waiting-state service
      if (!x.independent) x.idn = 0;
      bool match = a == ident[pos];
      if (pos == 0) { x.sel = match ? 1 : 0; return; }
      if (x.sel != pos) { x.sel = 0; return; }
      if (match) { if (pos == 3) { if (!x.keep_done) x.sel = 0; x.mode = 2; e.resp = true; e.cs = 0x44; } else x.sel = pos + 1; }
      else if (x.restart) x.sel = 0;
    };
    auto identify = [&](int pos) {       // pos 0..5: vendor, product, rev-low, rev-high, serial-low, serial-high
      if (!x.independent) x.sel = 0;
      static const int WHICH[6] = {0, 1, 2, 2, 3, 3};
      uint32_t v = ident[WHICH[pos]]; bool match = pos <= 1 ? a == v : (pos == 2 || pos == 4) ? a <= v : a >= v;
      if (pos == 0) { x.idn = match ? 1 : 0; return; }
      if (x.idn != pos) { x.idn = 0; return; }
      if (match) { if (pos == 5) { if (!x.keep_done) x.idn = 0; e.resp = true; e.cs = 0x4F; } else x.idn = pos + 1; }
      else if (x.restart) x.idn = 0;
    };
    if (cs == 4) { x.mode = f.d[1] == 1 ? 2 : 1; return e; }
    if (cs >= 64 && cs <= 67) { selective(cs - 64); return e; }
    if (cs >= 70 && cs <= 75) { identify(cs - 70); return e; }
    if (cs == 76) { e.free_resp = true; return e; }                 // identify non-configured remote slave: not in the statement
    if (x.mode != 2) return e;                                      // configuration, inquiry and store services are ignored in waiting state
    if (cs == 21) { if (x.act_clears) x.sel = x.idn = 0; return e; }    // activate bit timing: executed in configuration state, never answered
    if (cs == 17) { uint8_t n = f.d[1]; bool ok = (n >= 1 && n <= 127) || n == 255; e.resp = true; e.cs = 17; e.check = 1; e.err = ok ? 0 : 1; if (ok) x.cfgnode = n; }
    else if (cs == 19) { bool ok = f.d[1] == 0 && f.d[2] < 10 && BAUD[f.d[2]] != 0; e.resp = true; e.cs = 19; e.check = 1; e.err = ok ? 0 : 1; if (ok) x.cfgbaud = BAUD[f.d[2]]; }
    else if (cs == 23) { e.resp = true; e.cs = 23; e.check = 1; e.err = s.lss_store_result == CO_ERR_NONE ? 0 : 2; e.store_call = true; e.st_node = x.cfgnode; e.st_baud = x.cfgbaud; }
    else if (cs >= 90 && cs <= 93) { e.resp = true; e.cs = cs; e.check = 2; e.val = ident[cs - 90]; }
    else if (cs == 94) { e.resp = true; e.cs = 94; e.check = 1; e.err = nodeid; }
    return e;
  }
  void lss(const Frame &f, const char *what) {
    s.clear_tx(); s.clear_ev();
    VLOG(c, "%s: %s", what, f.str().c_str());
    s.rx(f);
    int app = 0; std::vector<Event> stores; for (auto &e : s.ev) { if (e.k == EV_CANRX) app++; else if (e.k == EV_LSSSTORE) stores.push_back(e); }
    CHECK(c, app == 0, "lss-never-forwarded", "the LSS frame %s was handed to the application / another service", f.str().c_str());
    for (auto &t : s.tx) { CHECK(c, t.id == 0x7E4, "lss-answer-on-7E4", "LSS request %s made the node transmit %s", f.str().c_str(), t.str().c_str()); VLOG(c, "   <- %s", t.str().c_str()); }
    CHECK(c, s.tx.size() <= 1, "single-answer-frame", "LSS request %s answered with %zu frames", f.str().c_str(), s.tx.size());
    int alive = 0; std::string why;
    for (auto &x : m) {
      if (!x.alive) continue;
      Exp e = step(x, f); bool ok = true; char b[200] = "";
      if (e.free_resp) { ok = s.tx.empty() || s.tx[0].d[0] == 0x50; }
      else if (e.resp != !s.tx.empty()) { ok = false; snprintf(b, sizeof b, "%s answer expected (cs %02Xh), %zu frame(s) sent", e.resp ? "an" : "no", e.cs, s.tx.size()); }
      else if (e.resp) {
        const Frame &r = s.tx[0];
        if (r.d[0] != e.cs) { ok = false; snprintf(b, sizeof b, "answer repeats cs %02Xh, expected %02Xh", r.d[0], e.cs); }
        else if (e.check == 1 && r.d[1] != e.err) { ok = false; snprintf(b, sizeof b, "answer to cs %u carries code %u, expected %u", e.cs, r.d[1], e.err); }
        else if (e.check == 2 && r.u32(1) != e.val) { ok = false; snprintf(b, sizeof b, "inquiry answer carries %08X, expected %08X", r.u32(1), e.val); }
      }
      if (ok && !e.free_resp) {
        if (e.store_call) { if (stores.size() != 1 || stores[0].a != e.st_baud || stores[0].b != e.st_node) { ok = false; snprintf(b, sizeof b, "COLssStore called %zu time(s)%s, expected once with (baud %u, node %u)", stores.size(), stores.empty() ? "" : " with other arguments", e.st_baud, e.st_node); } }
        else if (!stores.empty()) { ok = false; snprintf(b, sizeof b, "COLssStore called although no store service was executed"); }
      }
      if (!ok) { x.alive = false; if (why.empty()) why = b; } else alive++;
    }
    CHECK(c, alive > 0, "lss-state-machine", "reaction to %s (%s) fits none of the admissible CiA 305 readings: %s", f.str().c_str(), what, why.c_str());
    if (!s.tx.empty() && s.tx[0].d[0] == 0x44) via_selective = true;
    if (!stores.empty() && s.lss_store_result == CO_ERR_NONE) stored_ok = true;
    s.clear_tx(); s.clear_ev();
  }
  Frame L(uint8_t cs, uint32_t a) { Frame f; f.id = 0x7E5; f.dlc = 8; f.d[0] = cs; for (int i = 0; i < 4; i++) f.d[1 + i] = (uint8_t)(a >> (8 * i)); return f; }
  void reset_com() {
    s.clear_tx(); s.clear_ev();
    uint8_t target = nmt == 1 ? 0 : 0;
    if (nmt == 1) return;                               // NMT commands are not processed before boot-up
    s.rx(Frame::mk(0, 2, {130, target}));
    uint8_t expect = nodeid; if (s.lss_have && s.lss_node) expect = s.lss_node;
    VLOG(c, "NMT reset communication: node id %u -> %u", nodeid, expect);
    bool boot = false; for (auto &t : s.tx) if (t.dlc == 1 && t.d[0] == 0 && t.id >= 0x700 && t.id <= 0x7FF) { CHECK(c, t.id == 0x700u + expect, "stored-config-active-after-reset", "boot-up frame after reset communication has identifier %03X, expected %03X (stored LSS node id %u)", t.id, 0x700u + expect, expect); boot = true; }
    CHECK(c, boot, "stored-config-active-after-reset", "no boot-up frame after reset communication");
    if (s.lss_have && s.lss_baud) CHECK(c, s.node->Baudrate == s.lss_baud, "stored-config-active-after-reset", "bit rate after reset communication is %u, the stored configuration says %u", s.node->Baudrate, s.lss_baud);
    // the active node id is the one every service uses: the SDO server answers on 580h + id to a request on 600h + id
    if (expect >= 1 && expect <= 127) {
      s.clear_tx(); s.rx(Frame::mk(0x600u + expect, 8, {0x40, 0x18, 0x10, 0x01, 0, 0, 0, 0}));
      CHECK(c, s.tx.size() == 1 && s.tx[0].id == 0x580u + expect && s.tx[0].d[0] == 0x43, "stored-config-active-after-reset", "after reset communication (active node id %u) an SDO read of 1018h:01 on %03X was answered with %zu frame(s)%s%s, expected one on %03X",
            expect, 0x600u + expect, s.tx.size(), s.tx.empty() ? "" : ", first ", s.tx.empty() ? "" : s.tx[0].str().c_str(), 0x580u + expect);
    }
    nodeid = expect; nmt = 2; for (auto &x : m) x.reset_lss();
    if (stored_ok) store_reset = true;
    s.clear_tx(); s.clear_ev();
  }
  // one abstract letter
  void letter(uint32_t k) {
    auto arg = [&](int which, int var) -> uint32_t { uint32_t v = ident[which]; return var == 0 ? v : var == 1 ? v + 1 : var == 2 ? v - 1 : v ^ 0x5A5A0F0Fu; };
    static const int IW[6] = {0, 1, 2, 2, 3, 3};
    if (k < 2) lss(L(4, k), k ? "switch state global (configuration)" : "switch state global (waiting)");
    else if (k < 18) { int pos = (k - 2) / 4, var = (k - 2) % 4; lss(L((uint8_t)(64 + pos), arg(pos, var)), "switch state selective"); }
    else if (k < 22) { static const uint8_t N[4] = {1, 127, 128, 255}; lss(L(17, N[k - 18]), "configure node-id"); }
    else if (k == 22) lss(L(17, 0), "configure node-id 0");
    else if (k < 26) { uint32_t a = k == 23 ? (3u << 8) : k == 24 ? (5u << 8) : (1u | 3u << 8); lss(L(19, a), "configure bit timing"); }
    else if (k == 26) { Frame f = L(19, 10u << 8); lss(f, "configure bit timing (index 10)"); }
    else if (k == 27) { s.lss_store_result = CO_ERR_NONE; lss(L(23, 0), "store configuration"); }
    else if (k == 28) {   // the application reports a failure: any code other than CO_ERR_NONE (co_lss.h), derived - not drawn - so that saved tapes keep their meaning
      static const CO_ERR FC[3] = {CO_ERR_LSS_STORE, CO_ERR_IF_NVM_WRITE, CO_ERR_BAD_ARG};
      s.lss_store_result = FC[(ident[0] + ident[3] + (uint32_t)nfail++) % 3]; if (s.lss_store_result != CO_ERR_LSS_STORE) c.cls("store-fails-with-a-foreign-error-code");
      lss(L(23, 0), "store configuration (application reports failure)"); s.lss_store_result = CO_ERR_NONE; }
    else if (k < 33) lss(L((uint8_t)(90 + k - 29), 0), "inquire identity");
    else if (k == 33) lss(L(94, 0), "inquire node-id");
    else if (k < 50) { uint32_t j = k - 34; int pos = j < 2 ? 0 : j < 4 ? 1 : 2 + (int)(j - 4) / 3; int var = j < 4 ? (int)(j % 2) * 3 : (int)(j - 4) % 3; lss(L((uint8_t)(70 + pos), arg(IW[pos], var)), "identify remote slave"); }
    else if (k == 50) lss(L(76, 0), "identify non-configured remote slave");
    else if (k == 51) lss(L(99, 0x12345678), "unknown command specifier");
    else if (k == 52) reset_com();
    else if (k < 62) {   // complete selective sequence, at most one argument perturbed to match-1 / match+1
      uint32_t j = k - 53; int ppos = j == 0 ? -1 : (int)(j - 1) / 2, pvar = j == 0 ? 0 : 1 + (int)(j - 1) % 2;
      for (int pos = 0; pos < 4; pos++) lss(L((uint8_t)(64 + pos), arg(pos, pos == ppos ? pvar : 0)), "selective sequence");
    } else {             // complete identify sequence, at most one argument perturbed
      uint32_t j = k - 62; int ppos = j == 0 ? -1 : (int)(j - 1) / 2, pvar = j == 0 ? 0 : 1 + (int)(j - 1) % 2;
      for (int pos = 0; pos < 6; pos++) lss(L((uint8_t)(70 + pos), arg(IW[pos], pos == ppos ? pvar : 0)), "identify sequence");
    }
  }
  static const int LETTERS = 75;
  int activations = 0, suffixes = 0;
  // mode with-activate: activate bit timing with a switch delay of d ms, then both delay periods pass without traffic (the CAN controller is off the bus
  // meanwhile); the slave is back in PRE-OPERATIONAL afterwards and its LSS state machine goes on as the statement says
  void activate(uint32_t d) {
    bool conf = false; for (auto &x : m) if (x.alive) { conf = x.mode == 2; break; }
    Frame f = L(21, d); lss(f, "activate bit timing");
    if (!conf) return;
    for (uint32_t i = 0; i < 2 * d + 2; i++) s.step_tick();
    for (auto &t : s.tx) CHECK(c, t.id != 0x7E4, "single-answer-frame", "activate bit timing was answered with %s", t.str().c_str());
    s.clear_tx(); s.clear_ev(); nmt = 2; activations++;
    s.api_begin(); CO_MODE md = CONmtGetMode(&s.node->Nmt); s.api_end("CONmtGetMode");
    VLOG(c, "   both switch delay periods (%u ms each) have passed, NMT mode %d", d, (int)md);
  }
  // the last 3, 2 or 1 frame(s) of a selective / the last 5..1 of an identify sequence, all matching: "in this order" - a sequence that lacks its head is none
  void suffix(bool ident_seq, int from) {
    static const int IW[6] = {0, 1, 2, 2, 3, 3}; suffixes++;
    if (!ident_seq) for (int pos = from; pos < 4; pos++) lss(L((uint8_t)(64 + pos), ident[pos]), "selective sequence without its head");
    else for (int pos = from; pos < 6; pos++) lss(L((uint8_t)(70 + pos), ident[IW[pos]]), "identify sequence without its head");
  }
  void finish() { if (activations) c.cls("bit-timing-activated-and-both-delays-elapsed"); if (suffixes) c.cls("sequence-without-its-head");
    if (via_selective || store_reset) c.nontrivial = true; if (via_selective) c.cls("configuration-via-selective"); if (store_reset) c.cls("store-then-reset"); int a = 0; for (auto &x : m) a += x.alive; char b[40]; snprintf(b, sizeof b, "admissible-readings-left-%d", a); c.cls(b); }
};

void case_enum(Ctx &c) {
  C18 x(c); static const uint32_t ID[4] = {0x10, 0, 5, 0xFFFFFFFFu};
  x.build(1, ID);
  for (int d = 0; d < c.param; d++) { x.letter(c.t.below(C18::LETTERS)); c.ops++; }
  x.finish();
}
void case_random(Ctx &c) {
  C18 x(c); uint32_t id[4];
  for (int i = 0; i < 4; i++) { uint32_t r = c.t.below(4); id[i] = r == 0 ? 0 : r == 1 ? 0xFFFFFFFFu : r == 2 ? 5 : c.t.u32(); }
  uint8_t nid = c.t.chance(30) ? 255 : (uint8_t)(1 + c.t.below(127));
  bool incomplete = c.param == 1 && c.t.below(8) == 0;
  x.build(nid, id, incomplete); if (incomplete) c.cls("identity-object-without-serial-number");
  int steps = 0;
  while (!c.t.exhausted() && steps < 100) {
    steps++; c.ops++;
    uint32_t k = c.t.below(C18::LETTERS + 6 + (c.param == 1 ? 14 : c.param == 2 ? 5 : 0));
    if (k < (uint32_t)C18::LETTERS) x.letter(k);
    else if (c.param == 2 && k >= (uint32_t)C18::LETTERS + 6) {   // mode identity-rewritten: the application changes the variable behind 1018h:n while the node runs (a serial number provisioned late); "the identity object" is what the dictionary holds now
      int i = (int)c.t.below(4); uint32_t r = c.t.below(4); uint32_t v = r == 0 ? x.ident[i] + 1 : r == 1 ? x.ident[i] - 1 : r == 2 ? 5 : c.t.u32();
      *x.idv[i] = v; x.ident[i] = v; c.cls("identity-rewritten-while-running"); VLOG(c, "application sets 1018h:%d to %08X", i + 1, v);
    }
    else if (k >= (uint32_t)C18::LETTERS + 6) { uint32_t j = k - C18::LETTERS - 6; if (j < 6) x.activate(1 + c.t.below(4)); else if (j < 9) x.suffix(false, 1 + (int)(j - 6)); else x.suffix(true, 1 + (int)(j - 9)); }
    else if (k == C18::LETTERS) { Frame f = x.L(c.t.byte(), c.t.u32()); f.d[5] = c.t.byte(); f.dlc = c.t.chance(200) ? 8 : (uint8_t)c.t.below(9); if (f.d[0] == 21) f.d[0] = 22; if (f.d[0] == 4 && f.d[1] > 1) f.d[1] &= 1; x.lss(f, "random LSS frame"); }
    else if (k == C18::LETTERS + 1) { x.lss(x.L(17, c.t.byte()), "configure node-id (any value)"); }
    else if (k == C18::LETTERS + 2) { x.lss(x.L(19, (uint32_t)c.t.below(2) | (uint32_t)c.t.below(12) << 8), "configure bit timing (any index)"); }
    else if (k == C18::LETTERS + 3) {   // NMT state changes: LSS works in every NMT state
      if (x.nmt == 1) continue; uint32_t mm = c.t.below(3); x.s.rx(Frame::mk(0, 2, {(uint8_t)(mm == 0 ? 1 : mm == 1 ? 128 : 2), 0})); x.nmt = mm == 0 ? 3 : mm == 1 ? 2 : 4; x.s.clear_tx(); x.s.clear_ev(); VLOG(c, "NMT -> mode %d", x.nmt);
    } else if (k == C18::LETTERS + 4) { for (int i = 0; i < 3; i++) x.s.step_tick(); x.s.clear_tx(); }
    else { Frame f = x.L(c.t.byte(), c.t.u32()); f.id = 0x7E4; x.s.clear_ev(); x.s.rx(f); x.s.clear_tx(); x.s.clear_ev(); }   // a frame on the slave->master identifier is no LSS request
  }
  x.finish();
}

Registrar reg(Prop{
    "C18",
    "Cases: identity values incl. 0 and FFFFFFFFh; operation sequences over a 75-letter abstract alphabet: switch-state-global {waiting, configuration}, the four selective frames x {match, +1, -1, unrelated}, configure node-id {1,127,128,255,0}, configure bit timing {table 0 valid index, undefined index 5, index 10, table 1}, store (application reports success / failure with CO_ERR_LSS_STORE or another error code), "
    "the five inquiries, the six identify frames x {match/boundary -1/+1, unrelated}, identify-non-configured, an unknown specifier, NMT reset communication, and 22 macro letters (a complete 4-step selective or 6-step identify sequence with at most one argument perturbed to match-1 / match+1): enumerated exhaustively to depth 3 (4 in thorough) and randomly up to 100 ops with random identities, node ids (incl. 255), arbitrary arguments/DLC and NMT state changes; mode with-activate adds activate-bit-timing (switch delay 1..4 ms, both delay periods then pass without traffic) and selective / identify sequences that lack their first frame(s), and an eighth of its cases have an identity object without serial number (the LSS slave is then out of service: no answer, no store - and still no LSS frame is handed on). "
    "Oracle: set-of-states reference FSM (16 admissible readings: mismatch restarts the sequence or keeps the position x shared or independent selective/identify positions x a completed sequence resets or keeps its position x an executed activate-bit-timing clears or keeps the positions; a reading is dropped when it disagrees, the check fails when none is left): LSS mode, single answer frame on 7E4h with echoed cs and documented error code / inquired value, services ignored in waiting state, COLssStore arguments, never forwarded, node id (boot-up identifier) and bit rate after reset communication equal the stored configuration. "
    "Non-trivial: configuration state reached via the selective path, or a successful store followed by a reset. Distinct = distinct decoded choice sequence.",
    {Mode{"enum", case_enum, true, 0, 0, 3, 4, 0, 0},
     Mode{"random", case_random, false, 1500000, 20000000, 0, 0, 200, 400},
     Mode{"with-activate", case_random, false, 300000, 5000000, 1, 1, 200, 400},
     Mode{"identity-rewritten", case_random, false, 150000, 2500000, 2, 2, 200, 400}},
    {"activate-bit-timing (cs 21) is executed in mode with-activate only, with a switch delay of 1..4 ms and no traffic until both delay periods have passed; it is never answered; whether it clears the position of a selective / identify sequence is left open (two readings)", "mode identity-rewritten changes the variables behind 1018h:1..4 between frames (values +-1, 5, random) and expects every later comparison and inquiry to use the new value", "identify-non-configured-remote-slave is not in the statement: only 'at most one answer with cs 50h' is asserted", "switch-state-global is generated with modes 0 and 1 only (other values are reserved)",
     "the bit rate after reset is read from the public CO_NODE::Baudrate field"}});

}  // namespace
