// C15 - error state, error register, EMCY frames and error history stay consistent (DESIGN.md §5 C15)
#include "model/node.h"
using namespace vf;

namespace {

void case_impl(Ctx &c, int variant) {
  const bool faults = variant == 1, from_cb = variant == 2;
  Sim s(c); World w(s);
  s.nodeid = (uint8_t)(1 + c.t.below(127));
  w.mandatory();
  int depth = (int)c.t.below(9);                 // 0..8, 0 = object 1003h absent
  HistCfg hist; if (depth > 0) hist = add_emcy_hist(w, depth);
  w.finish(variant != 3);
  int NE = 2 + (int)c.t.below(c.thorough ? 31 : 10);   // errors actually used (table always has CO_EMCY_N rows)
  if (NE > CO_EMCY_N) NE = CO_EMCY_N;
  SplitMix tv(c.t.u16());
  for (int i = 0; i < CO_EMCY_N; i++) { s.emcy[i].Reg = (uint8_t)(tv.next() % 8); if (tv.next() % 3 == 0) s.emcy[i].Reg = (uint8_t)(tv.next() % 3); s.emcy[i].Code = (uint16_t)(0x1000 + tv.next() % 0xE000); }
  SdoClient cl(s, w.req[0], w.rsp[0]);
  uint8_t *reg1001 = w.s.blocks[0].p; (void)reg1001;
  std::vector<bool> active(CO_EMCY_N, false);
  std::vector<uint32_t> mh;                      // model history, newest first
  int mode = 2; uint32_t cob = 0x80u + s.nodeid;  // effective 1014h value
  bool shared_bit = false, wrapped = false; int activations = 0;
  VLOG(c, "node %u, history depth %d, %d errors in use", s.nodeid, depth, NE);
  auto model_reg = [&]() { uint8_t r = 0; for (int e = 0; e < CO_EMCY_N; e++) if (active[e]) { r |= 1; if (s.emcy[e].Reg) r |= (uint8_t)(1u << s.emcy[e].Reg); } return r; };
  auto frames_ok = [&]() { return (mode == 2 || mode == 3) && !(cob & 0x80000000u); };
  auto check_state = [&](const char *after) {
    uint8_t r = model_reg(); int cnt = 0; for (int e = 0; e < CO_EMCY_N; e++) cnt += active[e];
    uint8_t got = 0; CO_ERR er = CODictRdByte(&s.node->Dict, CO_DEV(0x1001, 0), &got);
    CHECK(c, er == CO_ERR_NONE && got == r, "error-register", "after %s: error register 1001h is %02X, expected %02X (bit 0 iff any error active, bit k iff an active error of class k)", after, got, r);
    int cc = COEmcyCnt(&s.node->Emcy);
    CHECK(c, cc == cnt, "active-count", "after %s: COEmcyCnt reports %d active errors, expected %d", after, cc, cnt);
    for (int e = 0; e < NE; e++) CHECK(c, COEmcyGet(&s.node->Emcy, (uint8_t)e) == (active[e] ? 1 : 0), "active-set", "after %s: COEmcyGet(%d) is %d, expected %d", after, e, COEmcyGet(&s.node->Emcy, (uint8_t)e), active[e] ? 1 : 0);
    // classes
    for (int k = 1; k < 8; k++) { int n = 0; for (int e = 0; e < CO_EMCY_N; e++) if (active[e] && s.emcy[e].Reg == k) n++; if (n >= 2) shared_bit = true; }
  };
  struct XF { uint16_t code; bool usr; uint8_t m[5]; };
  auto check_frames = [&](const std::vector<XF> &exp, const char *what) {
    CHECK(c, s.tx.size() == exp.size(), "one-frame-per-transition", "%s: %zu EMCY frame(s) transmitted, expected %zu", what, s.tx.size(), exp.size());
    for (size_t i = 0; i < exp.size(); i++) {
      const Frame &f = s.tx[i];
      CHECK(c, f.id == (cob & 0x1FFFFFFFu) && f.dlc == 8, "emcy-identifier", "%s: frame %s, expected identifier %03X (1014h) with 8 data bytes", what, f.str().c_str(), cob & 0x1FFFFFFFu);
      CHECK(c, f.u16(0) == exp[i].code, "emcy-code", "%s: frame carries code %04X, expected %04X", what, f.u16(0), exp[i].code);
      for (int k = 0; k < 5; k++) CHECK(c, f.d[3 + k] == (exp[i].usr ? exp[i].m[k] : 0), "emcy-manufacturer-bytes", "%s: manufacturer byte %d is %02X, expected %02X", what, k, f.d[3 + k], exp[i].usr ? exp[i].m[k] : 0);
    }
    if (!exp.empty()) CHECK(c, s.tx.back().d[2] == model_reg(), "emcy-register-byte", "%s: last frame carries error register %02X, expected the updated register %02X", what, s.tx.back().d[2], model_reg());
    s.clear_tx();
  };
  int steps = 0, send_faults = 0, from_cb_cnt = 0;
  int api_resets = 0, reinits = 0; bool hist_stale = false;
  auto do_op = [&](uint32_t op) {
    s.clear_tx();
    if (op == 0) {        // set
      int e = (int)c.t.below(NE);                      // error numbers beyond the table are not in the statement (exercised for memory safety in C01)
      int ee = e;
      bool usr = c.t.coin(); CO_EMCY_USR u; u.Hist = c.t.u16(); for (int k = 0; k < 5; k++) u.Emcy[k] = c.t.byte();
      bool lost = faults && c.t.chance(70); if (lost) { s.can_send_fail = 1; send_faults++; }   // mode send-faults: the CAN driver refuses the next frame - that frame is lost, nothing else changes
      s.api_begin(); COEmcySet(&s.node->Emcy, (uint8_t)e, usr ? &u : 0); s.api_end("COEmcySet"); s.can_send_fail = 0;
      VLOG(c, "set(%d%s) class %u code %04X", e, usr ? ", user data" : "", s.emcy[ee].Reg, s.emcy[ee].Code);
      std::vector<XF> exp;
      if (!active[ee]) {
        active[ee] = true; activations++;
        if (depth) { mh.insert(mh.begin(), (uint32_t)s.emcy[ee].Code | (usr ? (uint32_t)u.Hist << 16 : 0)); if ((int)mh.size() > depth) { mh.resize(depth); wrapped = true; } hist_stale = false; }
        if (frames_ok()) { XF x; x.code = s.emcy[ee].Code; x.usr = usr; memcpy(x.m, u.Emcy, 5); exp.push_back(x); }
      }
      if (lost) exp.clear();
      check_frames(exp, lost ? "COEmcySet with the CAN driver refusing the frame" : "COEmcySet");
    } else if (op == 1) { // clear
      int e = (int)c.t.below(NE);
      bool lost = faults && c.t.chance(70); if (lost) { s.can_send_fail = 1; send_faults++; }
      s.api_begin(); COEmcyClr(&s.node->Emcy, (uint8_t)e); s.api_end("COEmcyClr"); s.can_send_fail = 0;
      VLOG(c, "clr(%d)", e);
      std::vector<XF> exp;
      if (active[e]) { active[e] = false; if (frames_ok()) { XF x; x.code = 0; x.usr = false; exp.push_back(x); } }
      if (lost) exp.clear();
      check_frames(exp, lost ? "COEmcyClr with the CAN driver refusing the frame" : "COEmcyClr");
    } else if (op == 2) { // reset
      bool silent = c.t.coin();
      s.api_begin(); COEmcyReset(&s.node->Emcy, silent ? 1 : 0); s.api_end("COEmcyReset");
      VLOG(c, "reset(%s)", silent ? "silent" : "with frames");
      std::vector<XF> exp;
      for (int e = 0; e < CO_EMCY_N; e++) if (active[e]) { if (!silent && frames_ok()) { XF x; x.code = 0; x.usr = false; exp.push_back(x); } }
      // the register byte of each frame reflects the state after that clearing; only the last one is compared against the final register
      for (int e = 0; e < CO_EMCY_N; e++) active[e] = false;
      check_frames(exp, "COEmcyReset");
    } else if (op == 3) { // SDO write to 1003h:0
      if (!(mode == 2 || mode == 3)) return;
      uint8_t v = c.t.below(3) == 0 ? (uint8_t)(1 + c.t.below(255)) : 0;
      uint32_t code = cl.write(0x1003, 0, v, 1);
      VLOG(c, "SDO write 1003h:0 := %u -> %08X", v, code);
      if (depth == 0) CHECK(c, code == 0x06020000u, "history-absent", "write to the absent object 1003h answered %08X", code);
      else if (v == 0) { CHECK(c, code == 0, "history-clear", "writing 0 to 1003h:0 was refused with %08X", code); mh.clear(); hist_stale = false; }
      else CHECK(c, code == 0x06090030u, "history-write-refused", "writing %u to 1003h:0 answered %08X, expected abort 06090030", v, code);
      s.clear_tx();
    } else if (op == 4) { // read the history through SDO
      if (!(mode == 2 || mode == 3) || depth == 0 || hist_stale) return;
      uint32_t v = 0; uint32_t code = cl.read(0x1003, 0, &v);
      CHECK(c, code == 0 && v == mh.size(), "history-count", "1003h:0 reads %u (abort %08X), expected %zu", v, code, mh.size());
      for (size_t i = 0; i < mh.size(); i++) { code = cl.read(0x1003, (uint8_t)(i + 1), &v); CHECK(c, code == 0 && v == mh[i], "history-newest-first", "1003h:%zu reads %08X (abort %08X), expected %08X (newest first)", i + 1, v, code, mh[i]); }
      s.clear_tx();
    } else if (op == 5) { // NMT state
      uint32_t m = c.t.below(3);
      // mode from-mode-change-callback: the application sets or clears an error from inside CONmtModeChange; the NMT state that permits the
      // frame or not is the one CONmtGetMode reports to the application at that moment
      int cbe = -1; bool cbset = false, cbran = false; int cbmode = 0;
      if (from_cb && c.t.chance(170)) { cbe = (int)c.t.below(NE); cbset = c.t.coin();
        s.mode_change_hook = [&](int) { if (cbran) return; cbran = true; cbmode = (int)CONmtGetMode(&s.node->Nmt); if (cbset) COEmcySet(&s.node->Emcy, (uint8_t)cbe, 0); else COEmcyClr(&s.node->Emcy, (uint8_t)cbe); }; }
      s.rx(Frame::mk(0, 2, {(uint8_t)(m == 0 ? 1 : m == 1 ? 128 : 2), 0})); s.mode_change_hook = nullptr;
      int newmode = m == 0 ? 3 : m == 1 ? 2 : 4;
      if (cbe >= 0) CHECK(c, cbran == (newmode != mode), "harness", "mode-change callback %s for the transition %d -> %d", cbran ? "ran" : "did not run", mode, newmode);
      std::vector<XF> exp;
      if (cbran) {
        CHECK(c, cbmode == mode || cbmode == newmode, "harness", "CONmtGetMode inside the mode-change callback reports %d during the transition %d -> %d", cbmode, mode, newmode);
        int keep = mode; mode = cbmode;
        if (cbset && !active[cbe]) { active[cbe] = true; activations++; if (depth) { mh.insert(mh.begin(), (uint32_t)s.emcy[cbe].Code); if ((int)mh.size() > depth) { mh.resize(depth); wrapped = true; } } if (frames_ok()) { XF x; x.code = s.emcy[cbe].Code; x.usr = false; exp.push_back(x); } }
        else if (!cbset && active[cbe]) { active[cbe] = false; if (frames_ok()) { XF x; x.code = 0; x.usr = false; exp.push_back(x); } }
        mode = keep; from_cb_cnt++;
        VLOG(c, "  in the mode-change callback (CONmtGetMode = %d): %s(%d)", cbmode, cbset ? "set" : "clr", cbe);
      }
      mode = newmode; VLOG(c, "NMT -> mode %d", mode);
      if (cbran) check_frames(exp, "error set/cleared from inside the mode-change callback");
      else CHECK(c, s.tx.empty(), "one-frame-per-transition", "an NMT state change made the node transmit %zu frame(s)", s.tx.size());
    } else if (op == 6) { // rewrite 1014h
      if (!(mode == 2 || mode == 3)) return;
      uint32_t nv = c.t.coin() ? (cob ^ 0x80000000u) : ((c.t.coin() ? 0x80000000u : 0) | (0x80u + c.t.below(0x700)));
      if (variant == 3 && c.t.chance(70)) nv = (c.t.chance(200) ? 0x80000000u : 0) | c.t.below(0x80);   // mode before-start: also CAN-IDs below 80h - with bit 31 set (8000 0000h is the usual "not used") they are values like any other, without it they are refused
      uint32_t code = cl.write(0x1014, 0, nv, 4);
      bool ok;
      if (!(cob & 0x80000000u)) ok = (nv & 0x1FFFFFFFu) == (cob & 0x1FFFFFFFu); else ok = nv >= 0x80;
      VLOG(c, "SDO write 1014h := %08X -> %08X", nv, code);
      if (ok) { CHECK(c, code == 0, "emcy-id-write", "write of %08X to 1014h (was %08X) refused with %08X", nv, cob, code); cob = nv; }
      else CHECK(c, code == 0x06090030u, "emcy-id-write", "write of %08X to 1014h (was %08X) answered %08X, expected abort 06090030", nv, cob, code);
      s.clear_tx();
    } else if (op == 7) { // NMT reset: emergencies are cleared silently, the history stays
      s.rx(Frame::mk(0, 2, {(uint8_t)(c.t.coin() ? 130 : 129), 0})); mode = 2; VLOG(c, "NMT reset");
      for (auto &t : s.tx) CHECK(c, t.id == 0x700u + s.nodeid, "one-frame-per-transition", "NMT reset made the node transmit %s", t.str().c_str());
      for (int e = 0; e < CO_EMCY_N; e++) active[e] = false;
      s.clear_tx();
    } else if (op == 9) { // the application resets the node through the API (mode before-start: while the node is still in INITIALISATION): emergencies are cleared silently
      s.api_begin(); CONmtReset(&s.node->Nmt, c.t.coin() ? CO_RESET_NODE : CO_RESET_COM); s.api_end("CONmtReset"); VLOG(c, "CONmtReset() in mode %d", mode);
      if (mode != 1) { for (auto &t : s.tx) CHECK(c, t.id == 0x700u + s.nodeid, "one-frame-per-transition", "CONmtReset made the node transmit %s", t.str().c_str()); mode = 2; }
      else CHECK(c, s.tx.empty(), "one-frame-per-transition", "CONmtReset before the node was started made it transmit %zu frame(s)", s.tx.size());
      for (int e = 0; e < CO_EMCY_N; e++) active[e] = false;
      s.clear_tx(); api_resets++;
    } else if (op == 10) { // the application restarts the stack without a power cycle: CONodeStop, its RAM objects 1001h / 1003h back to their defaults, CONodeInit on the
      // same memory, CONodeStart - no error is active afterwards, the register is 0, the count is 0, the history is empty
      s.api_begin(); CONodeStop(s.node); s.api_end("CONodeStop");
      // ... or only 1001h: what 1003h then shows is left over from the node's previous life until the first new activation or a clearing write of 0
      bool keep_hist = depth > 0 && c.t.coin();
      *reg1001 = 0; if (depth > 0 && !keep_hist) { *hist.num = 0; for (int i = 0; i < depth; i++) *hist.ent[i] = 0; }
      if (keep_hist && !mh.empty()) { hist_stale = true; c.cls("history-object-left-as-it-was-across-the-second-initialisation"); }
      s.reinit(); s.clear_tx(); s.start(); mode = 2; VLOG(c, "CONodeStop, CONodeInit on the same memory, CONodeStart");
      for (auto &t : s.tx) CHECK(c, t.id == 0x700u + s.nodeid, "one-frame-per-transition", "restarting the node made it transmit %s", t.str().c_str());
      for (int e = 0; e < CO_EMCY_N; e++) active[e] = false; mh.clear();
      s.clear_tx(); reinits++;
    } else {              // ticks must not produce EMCY traffic
      for (int i = 0; i < 3; i++) s.step_tick();
      CHECK(c, s.tx.empty(), "one-frame-per-transition", "timer steps made the node transmit %zu frame(s)", s.tx.size());
    }
    check_state("the operation");
    };
  // mode before-start: the application sets, clears and resets errors between CONodeInit and CONodeStart (no state before boot-up permits a frame), may
  // reset the node through the API there, and starts it afterwards
  if (variant == 3) {
    mode = 1; int k = 1 + (int)c.t.below(10);
    for (int i = 0; i < k; i++) { static const uint32_t OPS[8] = {0, 0, 0, 1, 2, 9, 9, 8}; c.ops++; do_op(OPS[c.t.below(8)]); }
    s.clear_tx(); s.start(); mode = 2;
    for (auto &t : s.tx) CHECK(c, t.id == 0x700u + s.nodeid, "one-frame-per-transition", "starting the node made it transmit %s", t.str().c_str());
    s.clear_tx(); check_state("CONodeStart"); c.cls("errors-set-before-the-node-was-started");
  }
  while (!c.t.exhausted() && steps < (c.thorough ? 120 : 60)) {
    steps++; c.ops++;
    static const uint16_t W[9] = {40, 22, 6, 8, 10, 8, 6, 4, 4}, WB[11] = {40, 22, 6, 8, 10, 8, 6, 4, 4, 5, 4};
    do_op(variant == 3 ? c.t.weighted(WB) : c.t.weighted(W));
  }
  if (shared_bit || wrapped) c.nontrivial = true;
  if (api_resets) c.cls("node-reset-through-the-api"); if (reinits) c.cls("stack-initialised-a-second-time-on-the-same-memory");
  if (send_faults) c.cls("emcy-frame-refused-by-the-driver");
  if (from_cb_cnt) c.cls("error-changed-from-inside-the-mode-change-callback");
  if (shared_bit) c.cls("two-errors-share-a-register-bit");
  if (wrapped) c.cls("history-wrapped");
  if (depth == 0) c.cls("no-history-object");
}

void one_case(Ctx &c) { case_impl(c, 0); }
void faults_case(Ctx &c) { case_impl(c, 1); }
void cb_case(Ctx &c) { case_impl(c, 2); }
void prestart_case(Ctx &c) { case_impl(c, 3); }

Registrar reg(Prop{
    "C15",
    "Cases: node id 1..127, emergency table with register bits 0..7 per error (several errors per bit, generic bit used), 2..11 (32) errors in use, history depth 0..8 (0 = 1003h absent); histories of up to 60 (120) ops: "
    "COEmcySet(err[, user data]), COEmcyClr, COEmcyReset(silent?), SDO write 0 / non-zero to 1003h:0, SDO reads of 1003h:0..n, NMT state changes and resets, valid/invalid rewrites of 1014h, ticks; mode send-faults: the CAN driver refuses the frame of a set/clear call - the frame is lost, state, register, count and history change as if it had been sent. "
    "Mode from-mode-change-callback: the application sets or clears an error from inside CONmtModeChange during an NMT transition; the state that permits the frame is the one CONmtGetMode reports at that moment. "
    "Mode before-start: errors are set, cleared and reset between CONodeInit and CONodeStart (state changes without frames), the application may reset the node there with CONmtReset(), then starts it; CONmtReset() also appears later in the history, and so does a restart of the stack without a power cycle (CONodeStop, 1001h/1003h back to their defaults, CONodeInit on the same memory, CONodeStart). "
    "Oracle: reference model after every step: active set (COEmcyGet), count (COEmcyCnt), 1001h bits, EMCY frames (exactly one per real transition, code, updated register byte, 5 manufacturer bytes, identifier = 1014h; none for silent reset, outside PRE-OP/OP or with an invalid COB-ID), history newest-first with its count, clear on write 0, 0609 0030h otherwise. "
    "Non-trivial: two errors sharing a register bit were active together, or the history wrapped. Distinct = distinct decoded choice sequence.",
    {Mode{"random", one_case, false, 1000000, 14000000, 0, 0, 260, 500},
     Mode{"send-faults", faults_case, false, 500000, 6000000, 0, 0, 260, 500},
     Mode{"from-mode-change-callback", cb_case, false, 300000, 4000000, 0, 0, 260, 500},
     Mode{"before-start", prestart_case, false, 200000, 3000000, 0, 0, 260, 500}},
    {"in a non-silent COEmcyReset only the register byte of the last frame is compared with the final register", "reading history sub-indices beyond the current count is not constrained by the statement and not generated"}});

}  // namespace
