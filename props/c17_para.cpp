// C17 - parameter store/restore is exact and survives restarts and NVM faults (DESIGN.md §5 C17)
#include "model/node.h"
using namespace vf;

namespace {

struct Grp { int size; bool en; uint32_t flags = 0; int type; uint32_t off; uint8_t *ram; uint8_t *def; CO_PARA *pg; };

struct Run {
  Ctx &c; Tape &t; long fault_at;      // global NVM call index (1-based) that returns a short count, 0 = none
  long total_calls = 0; bool fault_hit = false; bool stored_then_restart = false; int ops = 0;
};

// executes one generated history; every tape choice is identical for every fault position of the same case
void run_history(Run &R, int maxops) {
  Ctx &c = R.c;
  Sim s(c); World w(s);
  s.nodeid = (uint8_t)(1 + c.t.below(127));
  w.mandatory();
  // odd node ids: the node is also a SYNC producer (1005h bit 30, 1006h = 1 ms): another service is re-initialised in every reset right after the parameters
  // were reloaded - a node error the reload has raised must still be there afterwards (no time passes in these histories: no SYNC frame is ever due)
  if (s.nodeid % 2) { add_sync(w, 0x40000080u, 1000); c.cls("node-is-sync-producer"); }
  // layout: sub-index 1 ('all') plus 1..4 groups behind the sub-indices 2.. - or, solo, a device with sub-index 1 only, which then addresses its one group
  bool solo = c.t.chance(24); int ng = solo ? 0 : 1 + (int)c.t.below(4); const int first = solo ? 0 : 1;
  std::vector<Grp> g(ng + 1);           // g[0] = the "all" entry (sub-index 1) with a 1-byte area of its own
  uint32_t off = c.t.below(8);
  // an eighth of the node ids: the groups lie around and beyond the 64 KiB mark of the non-volatile memory (a second bank) - decided from the node id, no tape choice
  const uint32_t nvbase = s.nodeid % 8 == 3 ? 0xFFE0u + (s.nodeid / 8) : 0; off += nvbase; if (nvbase) c.cls("nvm-offsets-around-and-beyond-64KiB");
  SplitMix iv(c.t.u16());
  for (int i = 1; i <= ng; i++) {
    g[i].size = 1 + (int)c.t.below(c.t.coin() ? 8 : 64); { static const uint32_t FV[4] = {CO_PARA____, CO_PARA___E, CO_PARA__AE, CO_PARA__A_}; g[i].flags = FV[c.t.below(4)]; g[i].en = (g[i].flags & CO_PARA___E) != 0; } g[i].type = 1 + (int)c.t.below(2); g[i].off = off; off += g[i].size + c.t.below(3);
    g[i].ram = s.alloc(g[i].size, "para-ram"); g[i].def = s.alloc(g[i].size, "para-default", false);
    for (int k = 0; k < g[i].size; k++) { g[i].ram[k] = (uint8_t)iv.next(); g[i].def[k] = (uint8_t)(0xD0 + i); }
  }
  if (!solo) { g[0].size = 1; g[0].en = true; g[0].flags = CO_PARA___E; g[0].type = CO_RESET_NODE; g[0].off = off; g[0].ram = s.alloc(1, "para-all"); g[0].def = nullptr; off += 1; }
  else { static const uint32_t FV[4] = {CO_PARA____, CO_PARA___E, CO_PARA__AE, CO_PARA__A_}; g[0].size = 1 + (int)c.t.below(16); g[0].flags = FV[c.t.below(4)]; g[0].en = (g[0].flags & CO_PARA___E) != 0; g[0].type = 1 + (int)c.t.below(2); g[0].off = off;
    g[0].ram = s.alloc(g[0].size, "para-ram"); g[0].def = s.alloc(g[0].size, "para-default", false); for (int k = 0; k < g[0].size; k++) { g[0].ram[k] = (uint8_t)iv.next(); g[0].def[k] = 0xD0; } off += g[0].size; }
  for (int i = 0; i <= ng; i++) {
    CO_PARA *p = (CO_PARA *)s.alloc(sizeof(CO_PARA), "para-ctl", false);
    p->Offset = g[i].off; p->Size = g[i].size; p->Start = g[i].ram; p->Default = g[i].def; p->Type = (CO_NMT_RESET)g[i].type; p->Ident = 0; p->Value = g[i].flags; g[i].pg = p;
    s.add(CO_KEY(0x1010, i + 1, CO_OBJ_____RW), CO_TPARA_STORE, (CO_DATA)p);
    s.add(CO_KEY(0x1011, i + 1, CO_OBJ_____RW), CO_TPARA_RESTORE, (CO_DATA)p);
  }
  // highest sub-index: a direct constant, or - for a quarter of the node ids, no tape choice - a variable the entry refers to, placed at a chosen
  // position within a 256-byte line (what the entry's data field then holds is an address, of which no bit means anything to the library)
  if (s.nodeid % 4 == 1) {
    uint8_t *arena = s.alloc(1024, "para-count", false); uint8_t *line = (uint8_t *)(((uintptr_t)arena + 255) & ~(uintptr_t)255);
    uint8_t *n0 = line + ((s.nodeid * 37u) & 0xFFu), *n1 = line + 256 + ((s.nodeid * 91u + 128u) & 0xFFu); *n0 = *n1 = (uint8_t)(ng + 1);
    s.add(CO_KEY(0x1010, 0, CO_OBJ_____R_), CO_TPARA_STORE, (CO_DATA)n0);
    s.add(CO_KEY(0x1011, 0, CO_OBJ_____R_), CO_TPARA_RESTORE, (CO_DATA)n1);
    c.cls("highest-sub-index-stored-by-reference");
  } else {
    s.add(CO_KEY(0x1010, 0, CO_OBJ_D___R_), CO_TPARA_STORE, (CO_DATA)(ng + 1));
    s.add(CO_KEY(0x1011, 0, CO_OBJ_D___R_), CO_TPARA_RESTORE, (CO_DATA)(ng + 1));
  }
  s.nvm.assign(off + 8, 0); for (size_t k = nvbase; k < s.nvm.size(); k++) s.nvm[k] = (uint8_t)iv.next(); if (nvbase) for (size_t k = 0; k < 256; k++) s.nvm[k] = (uint8_t)iv.next();   // (offsets modulo 65536 land here)
  std::vector<uint8_t> mnv = s.nvm;                       // model of the NVM image
  std::vector<int> defcalls(ng + 1, 0);
  s.para_default = [&](CO_PARA *p) -> int16_t { for (int i = 0; i <= ng; i++) if (g[i].pg == p) { defcalls[i]++; if (g[i].def) memcpy(g[i].ram, g[i].def, g[i].size); } return 0; };
  long base = 0;                                          // NVM calls made before the current step
  auto arm = [&]() { s.nvm_calls = 0; s.nvm_fault_at = (R.fault_at > base) ? R.fault_at - base : -1; s.nvm_short = R.fault_at % 3 == 0 ? 0 : R.fault_at % 3 == 1 ? 0xFFFFFFFFu : 0xFFFFFFFEu; };   // short count: 0, size-1 or size/2
  auto done = [&]() -> bool { bool hit = s.nvm_fault_at > 0 && s.nvm_calls >= s.nvm_fault_at; base += s.nvm_calls; if (hit) R.fault_hit = true; return hit; };
  auto ram_equals_nvm = [&](int i) { return !memcmp(g[i].ram, mnv.data() + g[i].off, g[i].size); };
  VLOG(c, "%d parameter group(s), fault at NVM call %ld", ng, R.fault_at);
  // ---- first start: every group is loaded from NVM
  arm(); w.finish(); bool hit = done();
  SdoClient cl(s, w.req[0], w.rsp[0]);
  if (hit) { CHECK(c, s.init_err != CO_ERR_NONE, "short-read-surfaced", "a short NVM read during initialisation was not reported as node error"); }
  else { CHECK(c, s.init_err == CO_ERR_NONE, "restart-reloads-last-image", "initialisation without any NVM fault reported error %d (the parameter groups are then not all loaded from their NVM image)", s.init_err); for (int i = first; i <= ng; i++) CHECK(c, ram_equals_nvm(i), "restart-reloads-last-image", "after initialisation group %d differs from its NVM image", i); }
  CONodeGetErr(s.node);
  bool stored = false;
  int nops = 1 + (int)c.t.below(maxops);
  for (int step = 0; step < nops; step++) {
    R.ops++; c.ops++;
    static const uint16_t W[8] = {16, 34, 18, 14, 12, 6, 8, 5};
    uint32_t op = c.t.weighted(W);
    if (op == 0) {        // the application modifies parameters in RAM
      int i = first + (int)c.t.below((uint32_t)(ng + 1 - first)); SplitMix r(c.t.u16()); for (int k = 0; k < g[i].size; k++) g[i].ram[k] = (uint8_t)r.next(); VLOG(c, "modify RAM of group %d", i);
    } else if (op == 1) { // store request
      int sub = 1 + (int)c.t.below(ng + 1); bool good = c.t.below(4) != 0; uint32_t sig = good ? 0x65766173u : (c.t.coin() ? 0x64616F6Cu : c.t.u32()); if (!good && sig == 0x65766173u) sig ^= 1;
      std::vector<uint8_t> rb = s.snapshot(), nb = s.nvm;
      // "any other value": also the first 1..3 bytes of the signature, announced as such, in a data field whose unused bytes go on spelling it
      int len = 4; if (!good && c.t.chance(80)) { len = 1 + (int)c.t.below(3); sig = 0x65766173u; c.cls("short-write-with-the-signature-in-the-unused-bytes"); }
      arm(); uint32_t code; if (len == 4) code = cl.write(0x1010, (uint8_t)sub, sig, 4); else { std::vector<uint8_t> b; for (int i = 0; i < len; i++) b.push_back((uint8_t)(sig >> (8 * i))); SdoRes r = cl.download_exp(0x1010, (uint8_t)sub, b, true, sig); code = r.aborted ? (r.code ? r.code : 0xFFFFFFFFu) : 0; }
      bool h = done();
      VLOG(c, "write %08X (%d byte(s)) to 1010h:%d -> %08X%s", sig, len, sub, code, h ? "   (NVM fault injected)" : "");
      CHECK(c, rb == s.snapshot(), "store-leaves-ram", "a store request changed RAM: %s", s.diff_snapshot(rb, s.snapshot()).c_str());
      if (!good) { CHECK(c, code != 0, "wrong-signature-refused", "the value %08X (%d byte(s)) written to 1010h:%d was accepted", sig & (len == 4 ? 0xFFFFFFFFu : (1u << (8 * len)) - 1), len, sub); CHECK(c, nb == s.nvm, "wrong-signature-touches-nothing", "a refused store request changed the NVM"); }
      else {
        for (int i = first; i <= ng; i++) if ((sub == 1 || sub == i + 1) && g[i].en) memcpy(mnv.data() + g[i].off, g[i].ram, g[i].size);
        if (h) { CHECK(c, code != 0, "short-write-surfaced", "a short NVM write during 'save' to 1010h:%d was confirmed to the client", sub); mnv = s.nvm; /* contents of the fault step are unconstrained */ }
        else { CHECK(c, code == 0, "store-accepted", "'save' written to 1010h:%d refused with %08X", sub, code);
          for (size_t k = 0; k < mnv.size(); k++) CHECK(c, mnv[k] == s.nvm[k], "store-exact", "after 'save' to 1010h:%d NVM byte %zu is %02X, expected %02X (exactly the bytes of the addressed, enabled groups)", sub, k, s.nvm[k], mnv[k]);
          stored = true; }
      }
    } else if (op == 2) { // restore request
      int sub = 1 + (int)c.t.below(ng + 1); bool good = c.t.below(3) != 0; uint32_t sig = good ? 0x64616F6Cu : (c.t.coin() ? 0x65766173u : c.t.u32()); if (!good && sig == 0x64616F6Cu) sig ^= 1;
      std::vector<uint8_t> rb = s.snapshot(), nb = s.nvm; std::fill(defcalls.begin(), defcalls.end(), 0);
      int len = 4; if (!good && c.t.chance(80)) { len = 1 + (int)c.t.below(3); sig = 0x64616F6Cu; c.cls("short-write-with-the-signature-in-the-unused-bytes"); }
      arm(); uint32_t code; if (len == 4) code = cl.write(0x1011, (uint8_t)sub, sig, 4); else { std::vector<uint8_t> b; for (int i = 0; i < len; i++) b.push_back((uint8_t)(sig >> (8 * i))); SdoRes r = cl.download_exp(0x1011, (uint8_t)sub, b, true, sig); code = r.aborted ? (r.code ? r.code : 0xFFFFFFFFu) : 0; }
      done();
      VLOG(c, "write %08X (%d byte(s)) to 1011h:%d -> %08X", sig, len, sub, code);
      CHECK(c, nb == s.nvm, "restore-leaves-nvm", "a restore request changed the NVM");
      if (!good) { CHECK(c, code != 0, "wrong-signature-refused", "the value %08X (%d byte(s)) written to 1011h:%d was accepted", sig & (len == 4 ? 0xFFFFFFFFu : (1u << (8 * len)) - 1), len, sub); CHECK(c, rb == s.snapshot(), "wrong-signature-touches-nothing", "a refused restore request changed RAM"); for (int i = 0; i <= ng; i++) CHECK(c, defcalls[i] == 0, "wrong-signature-touches-nothing", "default callback invoked for a refused restore request"); }
      else { CHECK(c, code == 0, "restore-accepted", "'load' written to 1011h:%d refused with %08X", sub, code);
        for (int i = first; i <= ng; i++) { int sel = ((sub == 1 || sub == i + 1) && g[i].en) ? 1 : 0; CHECK(c, defcalls[i] == sel, "restore-exact-groups", "'load' to 1011h:%d: default callback invoked %d time(s) for group %d, expected %d", sub, defcalls[i], i, sel); } }
    } else if (op == 3) { // restart between two completed requests: RAM is lost, NVM survives
      for (int i = first; i <= ng; i++) for (int k = 0; k < g[i].size; k++) g[i].ram[k] = (uint8_t)iv.next();
      arm(); s.init(); s.start(); bool h = done(); s.clear_tx();
      VLOG(c, "restart%s", h ? "   (NVM fault injected)" : "");
      if (h) CHECK(c, s.init_err != CO_ERR_NONE, "short-read-surfaced", "a short NVM read during the restart was not reported as node error");
      else { CHECK(c, s.init_err == CO_ERR_NONE, "no-spurious-node-error", "a restart without NVM fault reported node error %d", s.init_err);
        for (int i = first; i <= ng; i++) CHECK(c, ram_equals_nvm(i), "restart-reloads-last-image", "after a restart group %d does not equal the last successfully stored image", i); if (stored) R.stored_then_restart = true; }
      CONodeGetErr(s.node);
    } else if (op == 4) { // NMT reset node / communication: reloads the groups of that reset type
      bool node_reset = c.t.coin();
      for (int i = first; i <= ng; i++) for (int k = 0; k < g[i].size; k++) g[i].ram[k] = (uint8_t)iv.next();
      std::vector<std::vector<uint8_t>> rb; for (int i = 0; i <= ng; i++) rb.push_back(std::vector<uint8_t>(g[i].ram, g[i].ram + g[i].size));
      // an application need not fetch the node error of an earlier faulted step before the next reset: the reset reloads all the same
      bool unfetched = s.node->Error != CO_ERR_NONE && R.ops % 2 == 0; if (unfetched) c.cls("reset-with-an-unfetched-node-error"); else CONodeGetErr(s.node);
      arm(); s.rx(Frame::mk(0, 2, {(uint8_t)(node_reset ? 129 : 130), 0})); bool h = done(); s.clear_tx();
      VLOG(c, "NMT reset %s%s", node_reset ? "node" : "communication", h ? "   (NVM fault injected)" : "");
      if (h) { CHECK(c, s.node->Error != CO_ERR_NONE, "short-read-surfaced", "a short NVM read during an NMT reset was not reported as node error"); if (R.ops % 2) CONodeGetErr(s.node); /* else: left unfetched */ }
      else { CO_ERR ne = CONodeGetErr(s.node); if (!unfetched) CHECK(c, ne == CO_ERR_NONE, "no-spurious-node-error", "an NMT reset %s without NVM fault reported node error %d", node_reset ? "node" : "communication", ne); }
      if (!h) for (int i = first; i <= ng; i++) {
        bool reload = node_reset || g[i].type == CO_RESET_COM;
        if (reload) CHECK(c, ram_equals_nvm(i), "reset-reloads-type", "NMT reset %s did not reload group %d (reset type %d) from NVM", node_reset ? "node" : "communication", i, g[i].type);
        else CHECK(c, !memcmp(g[i].ram, rb[i].data(), g[i].size), "reset-reloads-type", "NMT reset communication reloaded group %d of reset type 'node'", i);
      }
      if (stored && !h) R.stored_then_restart = true;
    } else if (op == 6) { // the application stores one group through the API (the same request without the detour over SDO): exactly that group's bytes, if it is enabled for storing
      int i = first + (int)c.t.below((uint32_t)(ng + 1 - first));
      std::vector<uint8_t> rb = s.snapshot();
      arm(); s.api_begin(); CO_ERR e = COParaStore(g[i].pg, s.node); s.api_end("COParaStore"); bool h = done();
      VLOG(c, "COParaStore(group %d) -> %d%s", i, (int)e, h ? "   (NVM fault injected)" : "");
      CHECK(c, rb == s.snapshot(), "store-leaves-ram", "COParaStore changed RAM: %s", s.diff_snapshot(rb, s.snapshot()).c_str());
      if (g[i].en) memcpy(mnv.data() + g[i].off, g[i].ram, g[i].size);
      if (h) { CHECK(c, e != CO_ERR_NONE, "short-write-surfaced", "a short NVM write during COParaStore(group %d) was reported as success", i); mnv = s.nvm; }
      else { CHECK(c, e == CO_ERR_NONE, "store-accepted", "COParaStore(group %d) failed with %d without any NVM fault", i, (int)e);
        for (size_t k = 0; k < mnv.size(); k++) CHECK(c, mnv[k] == s.nvm[k], "store-exact", "after COParaStore(group %d, %s) NVM byte %zu is %02X, expected %02X (exactly the bytes of that group, if it is enabled for storing)", i, g[i].en ? "enabled" : "not enabled", k, s.nvm[k], mnv[k]);
        if (g[i].en) stored = true; }
      c.cls("store-through-the-api");
    } else if (op == 7) { // ... and restores one group through the API
      int i = first + (int)c.t.below((uint32_t)(ng + 1 - first));
      std::vector<uint8_t> nb = s.nvm; std::fill(defcalls.begin(), defcalls.end(), 0);
      arm(); s.api_begin(); CO_ERR e = COParaRestore(g[i].pg, s.node); s.api_end("COParaRestore"); done();
      VLOG(c, "COParaRestore(group %d) -> %d", i, (int)e);
      CHECK(c, nb == s.nvm, "restore-leaves-nvm", "COParaRestore changed the NVM");
      CHECK(c, e == CO_ERR_NONE, "restore-accepted", "COParaRestore(group %d) failed with %d", i, (int)e);
      for (int k = first; k <= ng; k++) { int sel = (k == i && g[k].en) ? 1 : 0; CHECK(c, defcalls[k] == sel, "restore-exact-groups", "COParaRestore(group %d): default callback invoked %d time(s) for group %d, expected %d", i, defcalls[k], k, sel); }
    } else {              // read 1010h / 1011h sub-indices
      uint32_t v; int sub = (int)c.t.below(ng + 2); uint16_t idx = c.t.coin() ? 0x1010 : 0x1011;
      std::vector<uint8_t> rb = s.snapshot(), nb = s.nvm; std::vector<std::vector<uint8_t>> pr; for (int i = 0; i <= ng; i++) pr.push_back(std::vector<uint8_t>(g[i].ram, g[i].ram + g[i].size));
      arm(); cl.read(idx, (uint8_t)sub, &v); done();
      VLOG(c, "read %04Xh:%d", idx, sub);
      // only 'save' and 'load' requests, restarts and resets move parameter bytes: a read of a sub-index touches neither RAM nor NVM
      CHECK(c, nb == s.nvm, "read-touches-nothing", "reading %04Xh:%d changed the NVM", idx, sub);
      CHECK(c, rb == s.snapshot(), "read-touches-nothing", "reading %04Xh:%d changed RAM: %s", idx, sub, s.diff_snapshot(rb, s.snapshot()).c_str());
      for (int i = 0; i <= ng; i++) CHECK(c, !memcmp(g[i].ram, pr[i].data(), g[i].size), "read-touches-nothing", "reading %04Xh:%d changed the parameters of group %d in RAM", idx, sub, i);
    }
  }
  R.total_calls = base;
}

// (a) random histories with a random fault position
void case_random(Ctx &c) {
  Run R{c, c.t, 0};
  R.fault_at = c.t.chance(110) ? 1 + (long)c.t.below(40) : 0;
  run_history(R, c.thorough ? 40 : 20);
  if (R.stored_then_restart || R.fault_hit) c.nontrivial = true;
  if (R.fault_hit) c.cls("fault-hit"); if (R.stored_then_restart) c.cls("store-then-restart-or-reset");
}
// (b) fault enumeration: the same generated short history is executed once without fault (counting the NVM driver calls N)
//     and then once for every fault position k = 1..N
void case_faultenum(Ctx &c) {
  size_t p0 = c.t.pos;
  Run R0{c, c.t, 0}; run_history(R0, c.param);
  long N = R0.total_calls; if (N > 64) N = 64;
  bool any = false;
  for (long k = 1; k <= N; k++) { c.t.pos = p0; Run R{c, c.t, k}; run_history(R, c.param); if (R.fault_hit) any = true; c.cls("fault-position-executed"); }
  if (any || R0.stored_then_restart) c.nontrivial = true;
  c.cls("history-with-all-fault-positions");
}

Registrar reg(Prop{
    "C17",
    "Cases: 1..4 parameter groups - or a device with sub-index 1 only, which then addresses its single group; highest sub-index of 1010h/1011h a direct constant or (a quarter of the node ids) a referenced variable at a chosen position of a 256-byte line - (size 1..64, non-overlapping NVM offsets with gaps - for an eighth of the node ids around and beyond the 64 KiB mark -, reset type node/communication, enable flags from {disabled, on command, autonomously, both}: store-on-command is bit 0) behind 1010h/1011h sub-indices 2..n+1 plus the 'all' sub-index 1, random RAM and NVM images; histories of RAM modifications, SDO writes to 1010h/1011h with right and wrong signatures (the other signature, random values, and the first 1..3 bytes of the right one announced as such with the rest of it in the unused bytes of the frame), restarts (RAM lost, NVM kept), NMT reset node/communication, reads, and the same store / restore requests made by the application through COParaStore / COParaRestore for one group. "
    "Mode fault-enum: each generated history of <= 12 (24) ops is first run without fault to count its NVM driver calls N and is then re-run once for EVERY fault position k = 1..N (k-th NVM call returns a short count); mode random: longer histories with a random fault position. "
    "Oracle: reference model of RAM, NVM, verdicts and node error (set after a step with a short count, none after a fault-free restart or reset): 'save' writes exactly the addressed enabled groups (byte-exact NVM compare), 'load' calls COParaDefault for exactly those, other values refused with RAM and NVM byte-identical, after restart/reset the groups of the right type equal the last successfully stored image, a short count yields an SDO abort (store) or a node error (load); in the fault step itself only the error signal is required. "
    "Non-trivial: a successful store followed by a restart/reset, or a fault position that was hit. evaluations counts generated histories; every fault-enum history additionally executes N faulted replays (class fault-position-executed). Distinct = distinct decoded choice sequence.",
    {Mode{"fault-enum", case_faultenum, false, 300000, 4000000, 12, 24, 200, 300},
     Mode{"random", case_random, false, 800000, 12000000, 0, 0, 260, 400}},
    {"the NVM driver fault model is 'the k-th call transfers fewer bytes than requested and reports that count'", "a restart happens between two completed requests (the statement's crash points)", "the contents of NVM/RAM after a faulted step are not constrained; the model re-synchronises from the actual contents"}});

}  // namespace
