// C10 - heartbeat producer period and content are exact (DESIGN.md §5 C10)
#include "model/node.h"
using namespace vf;

namespace {

void app_cb(void *p) { if (g_sim) { Event e; e.k = EV_APPTMR; e.tick = g_sim->tick; e.a = (uint32_t)(uintptr_t)p; e.b = 0; g_sim->ev.push_back(e); } }

// mode write-from-client-callback: the application rewrites 1017h through the dictionary API from inside the completion callback of an SDO client
// transfer - which runs inside a timer step (timeout), inside the handling of a received frame (answer) or inside an NMT reset (transfer given up)
struct HbWrite { bool armed = false, fired = false; uint16_t ms = 0; uint32_t ticks = 0; CO_ERR err = CO_ERR_NONE; } g_hbw;
uint8_t g_csbuf[4];
void hbw_done(CO_CSDO *cs, uint16_t i, uint8_t sub, uint32_t code) {
  (void)i; (void)sub; (void)code;
  if (!g_hbw.armed) return;
  g_hbw.armed = false; g_hbw.fired = true; g_hbw.err = CODictWrWord(&cs->Node->Dict, CO_DEV(0x1017, 0), g_hbw.ms);
}

void case_impl(Ctx &c, bool tight) {
  Sim s(c); World w(s); const bool cbw = c.param == 1, lssact = c.param == 2; g_hbw = HbWrite();
  s.nodeid = (uint8_t)(1 + c.t.below(127));
  // mode tight-pool: a timer pool that the concurrent users can fill completely (2..7 slots; SYNC producer + heartbeat need 2 at start-up)
  if (tight) s.ntmr = (uint16_t)(2 + c.t.below(6));
  static const uint32_t FREQ[3] = {100, 1000, 10000};
  s.freq = FREQ[c.t.below(3)];
  uint32_t tick_ms_num = 1000, tick_ms_den = s.freq;                 // one tick = 1000/freq ms
  auto ms_of_ticks = [&](uint32_t ticks) { return (uint16_t)(ticks * tick_ms_num / tick_ms_den); };
  auto gen_ticks = [&]() -> uint32_t {                                // a heartbeat time that is a whole number of ticks and fits 16 bit ms
    uint32_t k = c.t.coin() ? 1 + c.t.below(12) : 1 + c.t.below(200);
    if (s.freq == 10000) k *= 10;                                     // 1 ms = 10 ticks
    return k;
  };
  uint32_t P = c.t.chance(60) ? 0 : gen_ticks();                      // period in ticks, 0 = off
  w.mandatory(false, ms_of_ticks(P));
  SyncCfg sy = add_sync(w, 0x80 | (c.t.coin() ? 0x40000000u : 0), 1000u * (2 + c.t.below(5)) * (s.freq == 100 ? 10 : 1));
  (void)sy;
  w.add_int(0x2100, 1, 1, false, false, true, true, 0, true, true);   // async-trigger object mapped into the TPDO
  add_tpdo(w, 0, 0x40000180u + s.nodeid, 254, c.t.coin() ? (uint16_t)(10 * (1 + c.t.below(5)) * (s.freq == 100 ? 10 : 1)) : 0, c.t.coin() ? (uint16_t)((1 + c.t.below(8)) * (s.freq == 100 ? 10 : 1)) : 0, {MAPENT(0x2100, 1, 8)});
  add_hbcons(w, {{(uint8_t)(s.nodeid == 9 ? 10 : 9), (uint16_t)(50 * (s.freq == 100 ? 10 : 1))}});
  if (cbw) { s.add(CO_KEY(0x1280, 0, CO_OBJ_D___R_), CO_TUNSIGNED8, 3); s.add(CO_KEY(0x1280, 1, CO_OBJ_____RW), CO_TUNSIGNED32, (CO_DATA)s.var<uint32_t>("1280:1", 0x600 + 0x30));
    s.add(CO_KEY(0x1280, 2, CO_OBJ_____RW), CO_TUNSIGNED32, (CO_DATA)s.var<uint32_t>("1280:2", 0x580 + 0x30)); s.add(CO_KEY(0x1280, 3, CO_OBJ_____RW), CO_TUNSIGNED8, (CO_DATA)s.var<uint8_t>("1280:3", 0x30)); }
  w.finish();
  SdoClient cl(s, w.req[0], w.rsp[0]);
  VLOG(c, "node %u, %u Hz, heartbeat period %u ticks (%u ms)", s.nodeid, s.freq, P, ms_of_ticks(P));
  long due = P ? (long)P : -1;     // armed at initialisation (tick 0)
  int mode = 2;                    // 2 PREOP, 3 OP, 4 STOP
  int hb_seen = 0; bool interfered = false; int hb_after_interference = 0; int cbwrites = 0, cbwrites_in_reset = 0, lssacts = 0;
  // the write made by the completion callback takes effect at the moment the callback runs
  auto callback_write = [&](const char *where) -> bool {
    if (!g_hbw.fired) return false;
    g_hbw.fired = false; cbwrites++;
    CHECK(c, g_hbw.err == CO_ERR_NONE, "hb-write-accepted", "CODictWrWord(1017h, %u ms) from inside the SDO client completion callback (%s) failed with %d", g_hbw.ms, where, g_hbw.err);
    P = g_hbw.ticks; due = P ? s.tick + (long)P : -1; CONodeGetErr(s.node);
    VLOG(c, "   completion callback (%s) at tick %ld: 1017h := %u ms (%u ticks)", where, s.tick, g_hbw.ms, P);
    return true;
  };
  int apptm[4] = {-1, -1, -1, -1}; bool appcyclic[4] = {false, false, false, false};
  const uint32_t HBID = 0x700u + s.nodeid;
  auto no_hb_outside_tick = [&](const char *what) {
    for (auto &t : s.tx) CHECK(c, t.id != HBID, "hb-only-when-due", "%s made the node send %s on the heartbeat identifier outside a timer step", what, t.str().c_str());
    s.clear_tx();
  };
  auto one_tick = [&]() {
    s.clear_tx(); s.clear_ev();
    s.step_tick();
    long T = s.tick;
    int expect = 0; if (due == T) { expect = 1; due = T + P; }
    bool tie = callback_write("timeout, inside the timer step") && expect;   // the heartbeat due in the very step in which the callback rewrites the time: sent before the write, or cancelled by it
    int got = 0;
    for (auto &t : s.tx) if (t.id == HBID) {
      got++;
      uint8_t st = mode == 2 ? 127 : mode == 3 ? 5 : 4;
      CHECK(c, t.dlc == 1 && t.d[0] == st, "hb-content", "heartbeat at tick %ld is %s, expected one byte %02X (the current NMT state)", T, t.str().c_str(), st);
    }
    VLOG(c, "tick %ld: %d heartbeat(s)%s", T, got, expect ? " (due)" : "");
    if (tie && got <= 1) expect = got;
    CHECK(c, got == expect, expect ? (got ? "hb-duplicated" : "hb-suppressed-or-shifted") : "hb-only-when-due", "tick %ld: %d heartbeat frame(s), %d expected (period %u ticks, next due at tick %ld)", T, got, expect, P, expect ? T : due);
    if (got) { hb_seen++; if (interfered) hb_after_interference++; }
    for (auto &e : s.ev) if (e.k == EV_APPTMR) { int k = (int)e.a; if (k >= 0 && k < 4 && !appcyclic[k]) apptm[k] = -1; }   // fired one-shot: no longer owned
    s.clear_tx();
  };
  int steps = 0;
  while (!c.t.exhausted() && steps < 300) {
    steps++; c.ops++;
    static const uint16_t W[15] = {60, 14, 10, 10, 6, 6, 6, 6, 6, 8, 4, 4, 4, 6, 5}, WC[17] = {60, 14, 8, 8, 3, 3, 3, 3, 3, 4, 4, 2, 2, 4, 10, 16, 8}, WL[18] = {60, 14, 10, 10, 4, 4, 4, 4, 4, 6, 4, 4, 4, 6, 5, 0, 0, 14};
    uint32_t op = lssact ? c.t.weighted(WL) : cbw ? c.t.weighted(WC) : c.t.weighted(W);
    s.clear_tx();
    switch (op) {
      case 0: one_tick(); break;
      case 1: {   // long jump: run up to (and a little beyond) the next expected heartbeat
        uint32_t n = due > s.tick ? (uint32_t)(due - s.tick) + c.t.below(3) : 1 + c.t.below(20);
        if (n > 400) n = 400;
        for (uint32_t i = 0; i < n; i++) one_tick();
        break;
      }
      case 2: {   // write 1017h through SDO or the dictionary API
        uint32_t np = c.t.chance(50) ? 0 : gen_ticks(); uint16_t ms = ms_of_ticks(np);
        bool api = c.t.coin() || mode == 4;
        // a running producer owns a timer slot and re-uses it; only switching the producer ON needs a free slot (refusal admitted when the pool is full)
        bool may_fail = tight && P == 0 && np != 0 && s.timers_used() >= (int)s.ntmr; bool refused = false;
        if (api) { s.api_begin(); CO_ERR e = CODictWrWord(&s.node->Dict, CO_DEV(0x1017, 0), ms); s.api_end("CODictWrWord"); refused = e != CO_ERR_NONE; if (!may_fail) CHECK(c, e == CO_ERR_NONE, "hb-write-accepted", "CODictWrWord(1017h, %u ms) failed with %d (timer pool: %d of %u slots in use, producer %s)", ms, e, s.timers_used(), s.ntmr, P ? "running" : "off"); }
        else { uint32_t a = cl.write(0x1017, 0, ms, 2); refused = a != 0; if (!may_fail) CHECK(c, a == 0, "hb-write-accepted", "SDO write of %u ms to 1017h refused with %08X (timer pool: %d of %u slots in use, producer %s)", ms, a, s.timers_used(), s.ntmr, P ? "running" : "off"); }
        VLOG(c, "1017h := %u ms (%u ticks) via %s at tick %ld%s", ms, np, api ? "API" : "SDO", s.tick, refused ? " (refused: no free timer slot)" : "");
        CONodeGetErr(s.node);
        if (refused) { c.cls("switch-on-refused-pool-full"); no_hb_outside_tick("writing 1017h"); break; }
        if (tight && np != 0 && P != 0 && s.timers_used() >= (int)s.ntmr) c.cls("rewrite-with-full-pool");
        P = np; due = P ? s.tick + (long)P : -1;
        no_hb_outside_tick("writing 1017h");
        break;
      }
      case 3: {   // NMT state change
        uint32_t m = c.t.below(3); uint8_t cs = m == 0 ? 1 : m == 1 ? 128 : 2;
        s.rx(Frame::mk(0, 2, {cs, (uint8_t)(c.t.coin() ? 0 : s.nodeid)})); mode = m == 0 ? 3 : m == 1 ? 2 : 4;
        VLOG(c, "NMT command %u -> mode %d", cs, mode); interfered = true;
        no_hb_outside_tick("an NMT command");
        break;
      }
      case 4: { uint16_t ev = (uint16_t)(c.t.below(10) * (s.freq == 100 ? 10 : 1)); if (mode != 4) cl.write(0x1800, 5, ev, 2); VLOG(c, "1800h:5 := %u", ev); interfered = true; no_hb_outside_tick("writing a TPDO event time"); break; }
      case 5: { uint16_t in = (uint16_t)(c.t.below(6) * 10 * (s.freq == 100 ? 10 : 1)); if (mode != 4) cl.write(0x1800, 3, in, 2); VLOG(c, "1800h:3 := %u", in); interfered = true; no_hb_outside_tick("writing a TPDO inhibit time"); break; }
      case 6: { s.api_begin(); COTPdoTrigPdo(s.node->TPdo, 0); s.api_end("COTPdoTrigPdo"); VLOG(c, "trigger TPDO 0"); interfered = true; no_hb_outside_tick("a TPDO trigger"); break; }
      case 7: { s.api_begin(); CODictWrByte(&s.node->Dict, CO_DEV(0x2100, 1), (uint8_t)c.t.below(4)); s.api_end("CODictWrByte"); VLOG(c, "write async object"); interfered = true; no_hb_outside_tick("writing an asynchronous object"); break; }
      case 8: { uint32_t v = 0x80 | (c.t.coin() ? 0x40000000u : 0); if (mode != 4) cl.write(0x1005, 0, v, 4); VLOG(c, "1005h := %08X", v); interfered = true; no_hb_outside_tick("writing 1005h"); break; }
      case 9: { uint32_t v = 1000u * c.t.below(7) * (s.freq == 100 ? 10 : 1); if (mode != 4) cl.write(0x1006, 0, v, 4); VLOG(c, "1006h := %u us", v); interfered = true; no_hb_outside_tick("writing 1006h"); break; }
      case 10: {  // application timer: create, or delete while the application still owns it
        int k = (int)c.t.below(4);
        if (apptm[k] < 0) { uint32_t st = c.t.below(6), cy = c.t.below(5); s.api_begin(); apptm[k] = COTmrCreate(&s.node->Tmr, st, cy, app_cb, (void *)(uintptr_t)k); s.api_end("COTmrCreate"); appcyclic[k] = cy != 0; VLOG(c, "app timer %d create(%u,%u) -> %d", k, st, cy, apptm[k]); }
        else { s.api_begin(); int r = COTmrDelete(&s.node->Tmr, (int16_t)apptm[k]); s.api_end("COTmrDelete"); VLOG(c, "app timer %d delete(id %d) -> %d", k, apptm[k], r); apptm[k] = -1; }
        interfered = true; break;
      }
      case 11: { s.rx(Frame::mk(0x80, 0, {})); VLOG(c, "SYNC frame"); interfered = true; no_hb_outside_tick("a SYNC frame"); break; }
      case 12: { uint32_t v = (c.t.coin() ? 0xC0000180u : 0x40000180u) + s.nodeid; if (mode != 4) cl.write(0x1800, 1, v, 4); VLOG(c, "1800h:1 := %08X", v); interfered = true; no_hb_outside_tick("writing a TPDO COB-ID"); break; }
      case 14: {  // NMT reset communication / node: the producer restarts with the configured time at the reset
        uint8_t cs = c.t.coin() ? 130 : 129;
        if (tight) { int alive = 0; for (int k = 0; k < 4; k++) if (apptm[k] >= 0) alive++; if ((int)s.ntmr - alive < 2) { c.cls("tight-pool-reset-skipped"); break; } }   // the restart of SYNC producer + heartbeat needs 2 slots
        s.clear_tx(); s.rx(Frame::mk(0, 2, {cs, (uint8_t)(c.t.coin() ? 0 : s.nodeid)})); mode = 2;
        int boot = 0;
        for (auto &t : s.tx) if (t.id == HBID) { CHECK(c, t.dlc == 1 && t.d[0] == 0, "hb-only-when-due", "NMT reset made the node send %s on the heartbeat identifier (only the boot-up frame is expected)", t.str().c_str()); boot++; }
        CHECK(c, boot == 1, "reset-bootup", "%d boot-up frames after NMT reset", boot);
        s.clear_tx();
        VLOG(c, "NMT reset (%u) at tick %ld", cs, s.tick);
        if (callback_write("transfer given up by the NMT reset")) cbwrites_in_reset++;
        due = P ? s.tick + (long)P : -1; interfered = true;
        for (int k = 0; k < 4; k++) (void)k;   // application timers keep running
        break;
      }
      case 17: {  // mode with-lss-activation: LSS activate bit timing with a switch delay of d ms: the node leaves the bus for two delay periods (NMT state
        // INITIALISATION, CAN controller closed) and is back in PRE-OPERATIONAL afterwards - the heartbeat then goes on "exactly every configured period":
        // on the grid it had, nothing shifted, duplicated or suppressed once the node is back (inside the window nothing can be sent)
        uint32_t dms = (1 + c.t.below(6)) * (s.freq == 100 ? 10 : 1); uint32_t dt = dms * s.freq / 1000;
        s.clear_tx(); s.rx(Frame::mk(0x7E5, 8, {4, 1, 0, 0, 0, 0, 0, 0})); s.rx(Frame::mk(0x7E5, 8, {21, (uint8_t)dms, (uint8_t)(dms >> 8), 0, 0, 0, 0, 0}));
        no_hb_outside_tick("an LSS activate-bit-timing request");
        VLOG(c, "LSS activate bit timing, switch delay %u ms (%u ticks) at tick %ld", dms, dt, s.tick);
        long t0 = s.tick;
        for (uint32_t i = 0; i < 2 * dt; i++) {
          s.clear_tx(); s.clear_ev(); s.step_tick(); long T = s.tick; bool last = T == t0 + 2 * (long)dt;
          int got = 0; for (auto &t : s.tx) if (t.id == HBID) got++;
          bool duenow = due == T; if (duenow) due = T + P;
          if (!last) CHECK(c, got == 0, "hb-only-when-due", "tick %ld: %d heartbeat frame(s) while the node is off the bus for the LSS switch delay (ticks %ld..%ld)", T, got, t0 + 1, t0 + 2 * (long)dt - 1);
          else { CHECK(c, got <= (duenow ? 1 : 0), duenow ? "hb-duplicated" : "hb-only-when-due", "tick %ld (end of the LSS switch delay): %d heartbeat frame(s), %s", T, got, duenow ? "at most the one that is due" : "none is due");
                 for (auto &t : s.tx) if (t.id == HBID) CHECK(c, t.dlc == 1 && (t.d[0] == 127 || t.d[0] == 0), "hb-content", "heartbeat at the end of the LSS switch delay is %s", t.str().c_str()); }
          for (auto &e : s.ev) if (e.k == EV_APPTMR) { int k = (int)e.a; if (k >= 0 && k < 4 && !appcyclic[k]) apptm[k] = -1; }
        }
        mode = 2; interfered = true; lssacts++; s.clear_tx();
        break;
      }
      case 15: {  // the application starts an SDO client transfer whose completion callback will rewrite 1017h
        if (mode == 4) break;
        s.api_begin(); CO_CSDO *cs = COCSdoFind(s.node, 0); s.api_end("COCSdoFind"); if (!cs || g_hbw.armed) break;
        uint32_t np = c.t.chance(50) ? 0 : gen_ticks(); g_hbw.ticks = np; g_hbw.ms = ms_of_ticks(np); g_hbw.armed = true;
        uint32_t tmo = (1 + c.t.below(30)) * (s.freq == 100 ? 10 : 1);
        s.api_begin(); CO_ERR e = COCSdoRequestUpload(cs, CO_DEV(0x2000, 1), g_csbuf, 4, hbw_done, tmo); s.api_end("COCSdoRequestUpload");
        VLOG(c, "SDO client request (timeout %u ms) -> %d; its completion callback will write %u ms to 1017h", tmo, (int)e, g_hbw.ms);
        if (e != CO_ERR_NONE) g_hbw.armed = false;
        interfered = true; no_hb_outside_tick("an SDO client request"); break;
      }
      case 16: {  // the SDO server of the other node answers the client
        s.rx(Frame::mk(0x580u + 0x30, 8, {0x43, 0x00, 0x20, 0x01, 1, 2, 3, 4})); VLOG(c, "answer for the SDO client");
        callback_write("answer received"); interfered = true; no_hb_outside_tick("the answer to an SDO client request"); break;
      }
      default: { uint8_t other = (uint8_t)(s.nodeid == 9 ? 10 : 9); static const uint8_t ST[4] = {0, 127, 5, 4}; s.rx(Frame::mk(0x700u + other, 1, {ST[c.t.below(4)]})); VLOG(c, "heartbeat of monitored node %u", other); interfered = true; no_hb_outside_tick("a consumed heartbeat"); break; }
    }
  }
  if (hb_seen >= 3 && hb_after_interference >= 1) c.nontrivial = true;
  c.cls(P ? "hb-on-at-end" : "hb-off-at-end");
  if (hb_seen >= 3) c.cls("three-or-more-heartbeats");
  if (lssacts) c.cls("lss-bit-timing-activated");
  if (cbwrites) c.cls("1017h-written-from-the-client-completion-callback"); if (cbwrites_in_reset) c.cls("1017h-written-from-the-callback-inside-an-nmt-reset");
  char f[32]; snprintf(f, sizeof f, "freq-%u", s.freq); c.cls(f);
}

void one_case(Ctx &c) { case_impl(c, false); }
void tight_case(Ctx &c) { case_impl(c, true); }

Registrar reg(Prop{
    "C10",
    "Cases: node id 1..127, timer frequency in {100, 1000, 10000} Hz, initial 1017h 0 or a whole number of ticks (1..200 ticks), concurrent timer users (SYNC producer on/off, an event-driven TPDO with inhibit/event time, a heartbeat consumer, up to 4 application timers); mode tight-pool: the same with a timer pool of 2..7 slots which these users can fill completely - a running producer re-uses its slot, so rewriting 1017h must succeed with a full pool; only switching the producer on with a full pool may be refused; mode write-from-client-callback: the node has an SDO client and the application rewrites 1017h through the dictionary API from inside the completion callback of a client transfer, which runs inside a timer step (timeout), inside the handling of a received answer, or inside an NMT reset that gives the transfer up; mode with-lss-activation: LSS activate-bit-timing takes the node off the bus for two switch delay periods (no heartbeat then) - afterwards the heartbeat continues on its grid; "
    "histories of up to 300 ops: single ticks, jumps to the next expected heartbeat, SDO/API writes to 1017h (0 or valid), NMT start/stop/pre-operational commands, SDO writes to TPDO event/inhibit time and COB-ID, to 1005h/1006h, TPDO triggers, asynchronous object writes, SYNC and heartbeat frames, application timers created and deleted (only while owned). "
    "Oracle: per tick the number of frames on 700h+id equals the reference schedule t_arm + k*P (t_arm = initialisation or the last accepted write), content = one byte with the NMT state at emission; no heartbeat frame outside a timer step. "
    "Non-trivial: >= 3 heartbeats observed and >= 1 of them after an interfering operation. Distinct = distinct decoded choice sequence.",
    {Mode{"random", one_case, false, 800000, 13000000, 0, 0, 300, 500},
     Mode{"tight-pool", tight_case, false, 500000, 8000000, 0, 0, 300, 500},
     Mode{"write-from-client-callback", one_case, false, 300000, 5000000, 1, 1, 300, 500},
     Mode{"with-lss-activation", one_case, false, 200000, 3000000, 2, 2, 300, 500}},
    {"heartbeat times below one tick are outside the domain (timer creation legitimately fails)", "all generated times are whole numbers of ticks", "an application timer id is deleted only while the application owns it (cyclic, or one-shot not yet fired)"}});

}  // namespace
