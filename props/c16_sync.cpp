// C16 - SYNC is recognised and produced exactly as 1005h/1006h say (DESIGN.md §5 C16)
#include "model/node.h"
namespace vf { void c16_case(Ctx &c); }
using namespace vf;

namespace {

void nop_cb(void *) {}

void case_impl(Ctx &c, bool late, bool many = false) {
  Sim s(c); World w(s);
  s.nodeid = (uint8_t)(1 + c.t.below(127));
  static const uint32_t FREQ[4] = {1000, 100, 10000, 1000000};
  s.freq = FREQ[c.t.weighted((const uint16_t[]){10, 5, 5, 1}, 4)];
  uint32_t tick_us = 1000000u / s.freq;
  uint32_t res_us = tick_us < 100 ? 100 : tick_us;            // smallest period the timer can resolve (whole ticks and whole 100 us)
  static const uint32_t IDS[3] = {0x80, 0x81, 0x100};
  auto gen_cycle = [&](bool allow_bad) -> uint32_t {
    if (allow_bad && c.t.chance(50)) return c.t.coin() ? 0 : res_us / 2;   // 0 or below the resolution
    uint32_t k = 1 + c.t.below(6); return k * res_us;
  };
  uint32_t mcob = IDS[c.t.below(3)] | (c.t.coin() ? 0x40000000u : 0), mcyc = gen_cycle(true);
  w.mandatory();
  add_sync(w, mcob, mcyc);
  w.add_int(0x2101, 1, 1, false, false, true, true, 0x5A, true, false);
  uint8_t ttype = many ? (uint8_t)(1 + c.t.below(240)) : (uint8_t)(1 + c.t.below(3));   // mode many-syncs: any synchronous type 1..240
  add_tpdo(w, 0, 0x40000180u + s.nodeid, ttype, 0, 0, {MAPENT(0x2101, 1, 8)}, 1);
  TObj &ro = w.add_int(0x2100, 1, 1, false, false, true, true, 0, true, false);
  add_rpdo(w, 0, 0x200u + s.nodeid, 1, {MAPENT(0x2100, 1, 8)}, 1);     // synchronous RPDO
  w.finish(!late);      // mode late-start: CONodeInit only - the application starts the node some ticks later
  TObj *robj = w.lookup(ro.idx, ro.sub);
  SdoClient cl(s, w.req[0], w.rsp[0]);
  VLOG(c, "node %u, %u Hz (resolution %u us), 1005h=%08X 1006h=%u us, sync TPDO type %u", s.nodeid, s.freq, res_us, mcob, mcyc, ttype);
  bool running = false; long due = -1, per = 0; int mode = 2;
  if ((mcob & 0x40000000u) && mcyc >= res_us) { running = true; per = mcyc / tick_us; due = per; }
  int synccnt = 0; bool rp_pending = false, rp_maybe = false; uint8_t rp_val = 0;
  int produced = 0, accepted = 0, refused = 0;
  const uint32_t TPID = 0x180u + s.nodeid;
  auto tick = [&]() {
    s.clear_tx(); s.step_tick(); long T = s.tick;
    int e = 0; if (running && due == T) { due = T + per; if (mode == 2 || mode == 3) e = 1; }
    int got = 0;
    for (auto &t : s.tx) { CHECK(c, t.id == (mcob & 0x1FFFFFFFu) && t.dlc == 0, "sync-frame", "tick %ld: the node transmitted %s, only a zero-length frame on %03X is expected", T, t.str().c_str(), mcob & 0x1FFFFFFFu); got++; }
    CHECK(c, got == e, e ? "sync-period" : "sync-only-when-due", "tick %ld: %d SYNC frame(s) produced, expected %d (period %ld ticks, next due %ld)", T, got, e, per, due);
    produced += got; s.clear_tx();
  };
  if (late) {   // ticks in INITIALISATION: the producer's time base runs, but no state before boot-up allows SYNC
    mode = 1; int k = 1 + (int)c.t.below(40); VLOG(c, "%d ticks before CONodeStart", k);
    for (int i = 0; i < k; i++) tick();
    s.clear_tx(); s.start(); s.clear_tx(); mode = 2; c.cls("ticks-before-the-node-was-started");
  }
  bool quiet = false;
  auto frame = [&](uint32_t id, uint8_t dlc) {   // SYNC or near-miss frame
    uint8_t before = w.content(*robj)[0];
    s.rx(Frame::mk(id, dlc, {7}));
    bool issync = (mode == 2 || mode == 3) && id == (mcob & 0x1FFFFFFFu);
    int app = 0; for (auto &e : s.ev) if (e.k == EV_CANRX) app++;
    if (!quiet) VLOG(c, "rx %03X dlc %u in mode %d: %s", id, dlc, mode, issync ? "SYNC" : "not SYNC");
    if (mode != 4) CHECK(c, app == (issync ? 0 : 1), "sync-recognition", "frame %03X (1005h CAN-ID %03X, mode %d) %s", id, mcob & 0x1FFFFFFFu, mode, issync ? "was handed to the application instead of being consumed as SYNC" : "was not handed to the application although it is not the SYNC");
    // witnesses: every SYNC advances each synchronous PDO's schedule exactly once
    int tp = 0; for (auto &t : s.tx) { CHECK(c, t.id == TPID, "sync-recognition", "reception of %03X made the node transmit %s", id, t.str().c_str()); tp++; }
    int etp = 0;
    if (issync && mode == 3) { synccnt++; if (synccnt == ttype) { etp = 1; synccnt = 0; } }
    CHECK(c, tp == etp, "sync-advances-tpdo-once", "%s in mode %d: %d synchronous TPDO frame(s) of type %u, expected %d", issync ? "SYNC" : "non-SYNC frame", mode, tp, ttype, etp);
    uint8_t after = w.content(*robj)[0];
    if (issync && rp_maybe) { CHECK(c, after == before || after == rp_val, "sync-applies-rpdo-once", "SYNC changed the RPDO-mapped object to %02X (buffered frame carries %02X)", after, rp_val); rp_maybe = false; rp_pending = false; }
    else if (issync && mode == 3 && rp_pending) { CHECK(c, after == rp_val, "sync-applies-rpdo-once", "SYNC did not apply the buffered synchronous RPDO (object %02X, expected %02X)", after, rp_val); rp_pending = false; }
    else CHECK(c, after == before, "sync-applies-rpdo-once", "%s changed the RPDO-mapped object from %02X to %02X without a new reception", issync ? "a SYNC" : "a non-SYNC frame", before, after);
  };
  if (many) { s.rx(Frame::mk(0, 2, {1, 0})); mode = 3; synccnt = 0; s.clear_tx(); s.clear_ev(); VLOG(c, "NMT -> mode 3"); }   // mode many-syncs starts in OPERATIONAL
  int steps = 0; uint32_t longest_run = 0;
  while (!c.t.exhausted() && steps < 200) {
    steps++; c.ops++;
    static const uint16_t W[9] = {40, 10, 18, 12, 12, 8, 6, 4, 4}, WM[10] = {30, 8, 14, 6, 6, 8, 6, 4, 2, 24};
    uint32_t op = many ? c.t.weighted(WM) : c.t.weighted(W);
    s.clear_tx(); s.clear_ev();
    if (op == 0) tick();
    else if (op == 1) { long n = running && due > s.tick ? due - s.tick + (long)c.t.below(2) : 1 + (long)c.t.below(10); if (n > 1200) n = 1200; for (long i = 0; i < n; i++) tick(); }
    else if (op == 2) { uint32_t id = IDS[c.t.below(3)]; uint8_t dlc = c.t.chance(40) ? 1 : 0; frame(id, dlc);
    } else if (op == 3) { // write 1005h
      if (mode == 4) continue;
      uint32_t nid = IDS[c.t.below(3)] | (c.t.coin() ? 0x40000000u : 0);
      uint32_t code = cl.write(0x1005, 0, nid, 4);
      bool refuse = false;
      if (mcob & 0x40000000u) { if ((nid & 0x1FFFFFFFu) != (mcob & 0x1FFFFFFFu)) refuse = true; else { if (!(nid & 0x40000000u)) { running = false; due = -1; } mcob = nid; } }
      else { if (nid & 0x40000000u) { if (mcyc < res_us) refuse = true; else { running = true; per = mcyc / tick_us; due = s.tick + per; mcob = nid; } } else mcob = nid; }
      VLOG(c, "1005h := %08X -> %08X (%s)", nid, code, refuse ? "must be refused" : "must be accepted");
      if (refuse) { CHECK(c, code == 0x06090030u, "sync-id-write", "write of %08X to 1005h answered %08X, expected abort 06090030", nid, code); refused++; }
      else { CHECK(c, code == 0, "sync-id-write", "valid write of %08X to 1005h refused with %08X", nid, code); accepted++; }
      uint32_t v = 0; cl.read(0x1005, 0, &v); CHECK(c, v == mcob, "value-kept-on-refusal", "1005h reads %08X, expected %08X", v, mcob);
    } else if (op == 4) { // write 1006h
      if (mode == 4) continue;
      uint32_t nc = gen_cycle(true);
      // re-timing a running producer needs no second timer slot: in a third of these writes application timers occupy the rest of the pool
      // (decided from values already drawn, no tape choice)
      std::vector<int16_t> fill;
      if (running && (s.nodeid + steps) % 3 == 0) {
        s.api_begin(); for (int g = 0; g < 64 && s.timers_used() < (int)s.ntmr; g++) { int16_t id = COTmrCreate(&s.node->Tmr, 400000000u, 0, nop_cb, nullptr); if (id < 0) break; fill.push_back(id); } s.api_end("COTmrCreate");
        CHECK(c, s.timers_used() == (int)s.ntmr, "harness", "could not fill the timer pool"); c.cls("re-timed-with-no-spare-timer-slot");
      }
      uint32_t code = cl.write(0x1006, 0, nc, 4);
      if (!fill.empty()) { s.api_begin(); for (int16_t id : fill) COTmrDelete(&s.node->Tmr, id); s.api_end("COTmrDelete"); }
      int verdict;   // 0 accept, 1 refuse, 2 either (1006h := 0 while producing)
      if (mcob & 0x40000000u) { if (nc == 0) verdict = 2; else if (nc < res_us) verdict = 1; else verdict = 0; } else verdict = 0;
      VLOG(c, "1006h := %u us -> %08X", nc, code);
      if (verdict == 1 || (verdict == 2 && code != 0)) { CHECK(c, code == 0x06090030u, "sync-cycle-write", "write of %u us to 1006h (resolution %u us, producing) answered %08X, expected abort 06090030", nc, res_us, code); refused++; }
      else {
        CHECK(c, code == 0, "sync-cycle-write", "valid write of %u us to 1006h refused with %08X", nc, code); accepted++;
        mcyc = nc;
        if (mcob & 0x40000000u) { if (nc == 0) { running = false; due = -1; } else { running = true; per = nc / tick_us; due = s.tick + per; } }
      }
      uint32_t v = 0; cl.read(0x1006, 0, &v); CHECK(c, v == mcyc, "value-kept-on-refusal", "1006h reads %u, expected %u", v, mcyc);
    } else if (op == 5) { // NMT
      uint32_t m = c.t.below(3); s.rx(Frame::mk(0, 2, {(uint8_t)(m == 0 ? 1 : m == 1 ? 128 : 2), 0}));
      int nm = m == 0 ? 3 : m == 1 ? 2 : 4; if (nm == 3 && mode != 3) { synccnt = 0; }   // (re)activation of the PDOs
      if (nm != 3 && rp_pending) { rp_pending = false; rp_maybe = true; }   // a buffered frame and a later SYNC after leaving OPERATIONAL: applied or dropped, both admitted
      mode = nm; VLOG(c, "NMT -> mode %d", mode);
    } else if (op == 6) { // synchronous RPDO reception
      uint8_t v = c.t.byte(); uint8_t before = w.content(*robj)[0];
      s.rx(Frame::mk(0x200u + s.nodeid, 1, {v}));
      CHECK(c, w.content(*robj)[0] == before, "sync-applies-rpdo-once", "a synchronous RPDO took effect before the next SYNC");
      if (mode == 3) { rp_pending = true; rp_maybe = false; rp_val = v; }
      VLOG(c, "synchronous RPDO frame with %02X", v);
    } else if (op == 9) { // mode many-syncs: a run of k SYNCs with nothing in between - the n-th-SYNC rule must hold beyond 255 and 65535 SYNCs of one OPERATIONAL phase
      static const uint32_t MARK[5] = {250, 256, 300, 512, 770}; uint32_t kk = c.t.below(32);
      uint32_t k = kk < 18 ? MARK[c.t.below(5)] + c.t.below(8) : kk == 18 ? 65530 + c.t.below(600) : 1 + c.t.below(300);
      VLOG(c, "run of %u SYNCs", k);
      for (uint32_t i = 0; i < k; i++) { s.clear_tx(); s.clear_ev(); quiet = i >= 2; frame(mcob & 0x1FFFFFFFu, 0); } quiet = false;
      if (mode == 3 && k > longest_run) longest_run = k;
    } else if (op == 8) { // NMT reset: SYNC consumption and production restart as configured by 1005h/1006h
      s.rx(Frame::mk(0, 2, {(uint8_t)(c.t.coin() ? 130 : 129), 0})); mode = 2; rp_pending = rp_maybe = false; synccnt = 0;
      running = false; due = -1;
      if ((mcob & 0x40000000u) && mcyc >= res_us) { running = true; per = mcyc / tick_us; due = s.tick + per; }
      VLOG(c, "NMT reset at tick %ld", s.tick);
    } else {              // local write to the TPDO-mapped object (no transmission for a synchronous TPDO)
      s.api_begin(); CODictWrByte(&s.node->Dict, CO_DEV(0x2101, 1), c.t.byte()); s.api_end("CODictWrByte");
    }
    s.clear_tx();
  }
  if (produced >= 2 && accepted >= 1 && refused >= 1) c.nontrivial = true;
  if (produced >= 2) c.cls("two-or-more-syncs-produced");
  if (longest_run >= 256) c.cls(256 % ttype ? "run-of-256-or-more-syncs-in-operational-type-not-dividing-256" : "run-of-256-or-more-syncs-in-operational"); if (longest_run >= 65536) c.cls("run-of-65536-or-more-syncs-in-operational");
  if (accepted && refused) c.cls("accepted-and-refused-writes");
  char f[32]; snprintf(f, sizeof f, "freq-%u", s.freq); c.cls(f);
}

void one_case(Ctx &c) { case_impl(c, false); }
}  // namespace
// also run as a mode of C04: 0609 0030h for 1005h/1006h is a 'value rejected by the object's type', and a refused request changes nothing - not the running producer either
void vf::c16_case(Ctx &c) { case_impl(c, false); }
namespace {
void late_case(Ctx &c) { case_impl(c, true); }
void many_case(Ctx &c) { case_impl(c, false, true); }

Registrar reg(Prop{
    "C16",
    "Cases: node id 1..127, timer frequency in {100, 1000, 10000, 1000000} Hz, initial 1005h (CAN-ID 80h/81h/100h, bit 30 set or not) and 1006h (0, below the resolution, 1..6 whole ticks); one synchronous TPDO of type 1..3 and one synchronous RPDO as witnesses; "
    "histories of up to 200 ops: ticks and jumps onto the next due SYNC, SYNC and near-miss frames (DLC 0/1), SDO writes to 1005h (CAN-ID change while producing, start/stop) and 1006h (valid, 0, below the resolution), NMT commands, synchronous RPDO receptions, local writes; mode many-syncs: TPDO type 1..240 and runs of 1..300, 250..777 or 65530..66129 consecutive SYNCs; a third of the 1006h writes to a running producer are made while application timers occupy every other slot of the timer pool (re-timing needs no second slot). "
    "Oracle: reference model: a frame is SYNC iff id == CAN-ID of 1005h and the mode is PRE-OP/OP (else handed to the application); the producer emits a zero-length frame exactly every period from (re)activation, only in PRE-OP/OP; write verdicts incl. 0609 0030h with the previous value kept and independent of earlier refused writes; every SYNC advances the synchronous TPDO and applies the buffered RPDO exactly once. "
    "Non-trivial: >= 2 SYNCs produced and >= 1 accepted + >= 1 refused write. Distinct = distinct decoded choice sequence.",
    {Mode{"random", one_case, false, 1200000, 16000000, 0, 0, 260, 500},
     Mode{"late-start", late_case, false, 300000, 4000000, 0, 0, 260, 500},
     Mode{"many-syncs", many_case, false, 20000, 400000, 0, 0, 120, 200}},
    {"periods are whole numbers of ticks and of 100 us", "1006h := 0 while producing may be refused (value kept) or accepted (production stops)", "extended identifiers (bit 29) in 1005h are not generated"}});

}  // namespace
