// C19 - every SDO client transfer completes exactly once and leaves nothing behind (DESIGN.md §5 C19)
#include "model/node.h"
using namespace vf;

namespace {

struct CB { int count = 0; uint32_t code = 0; uint16_t idx = 0; uint8_t sub = 0; CO_CSDO *who = nullptr; };
CB g_cb[2];
// the application may ask for its next transfer from inside the completion callback: the request is either refused (the client still counts as busy)
// or accepted - and then it has to work like any other transfer
struct Chain { bool armed = false, tried = false, active = false; CO_ERR res = CO_ERR_NONE; uint8_t buf[4]; uint32_t size = 0; uint16_t idx = 0; uint8_t sub = 0; Frame req; bool have_req = false; int cbcount = 0; uint32_t code = 0; };
Chain g_chain[2];
Sim *g_sim = nullptr;
// mode timer-in-callback: the application starts a timer action of its own from inside the completion callback (a retry delay, say); it belongs to the application
bool g_cbtmr_arm[2] = {false, false}; bool g_cbtmr_made[2] = {false, false}; int16_t g_cbtmr_id[2] = {-1, -1};
void nop_cb(void *) {}
void done0(CO_CSDO *c, uint16_t i, uint8_t s, uint32_t code);
void done1(CO_CSDO *c, uint16_t i, uint8_t s, uint32_t code);
void done(int n, CO_CSDO *c, uint16_t i, uint8_t s, uint32_t code) {
  Chain &h = g_chain[n];
  if (h.active) { h.cbcount++; h.code = code; return; }          // completion of the chained transfer
  g_cb[n].count++; g_cb[n].code = code; g_cb[n].idx = i; g_cb[n].sub = s; g_cb[n].who = c;
  if (g_cbtmr_arm[n]) { g_cbtmr_arm[n] = false; g_cbtmr_made[n] = true; g_cbtmr_id[n] = COTmrCreate(&g_sim->node->Tmr, 400000000u, 0, nop_cb, nullptr); }
  if (h.armed) {
    h.armed = false; h.tried = true; size_t before = g_sim->tx.size();
    h.res = COCSdoRequestUpload(c, CO_DEV(h.idx, h.sub), h.buf, h.size, n ? done1 : done0, 50);
    if (h.res == CO_ERR_NONE) { h.active = true; if (g_sim->tx.size() > before) { h.req = g_sim->tx.back(); h.have_req = true; g_sim->tx.pop_back(); } }
  }
}
void done0(CO_CSDO *c, uint16_t i, uint8_t s, uint32_t code) { done(0, c, i, s, code); }
void done1(CO_CSDO *c, uint16_t i, uint8_t s, uint32_t code) { done(1, c, i, s, code); }

void one_case(Ctx &c) {
  Sim s(c); World w(s); g_sim = &s; g_chain[0] = Chain(); g_chain[1] = Chain();
  s.nodeid = (uint8_t)(1 + c.t.below(100));
  s.ntmr = (uint16_t)(4 + c.t.below(13));
  w.mandatory();
  uint8_t srvnode[2]; uint32_t txid[2], rxid[2];
  for (int n = 0; n < CO_CSDO_N; n++) {
    srvnode[n] = (uint8_t)(2 + n * 3 + c.t.below(3));
    s.add(CO_KEY(0x1280 + n, 0, CO_OBJ_D___R_), CO_TUNSIGNED8, 3);
    s.add(CO_KEY(0x1280 + n, 1, CO_OBJ_____RW), CO_TUNSIGNED32, (CO_DATA)s.var<uint32_t>("128x:1", 0x600));
    s.add(CO_KEY(0x1280 + n, 2, CO_OBJ_____RW), CO_TUNSIGNED32, (CO_DATA)s.var<uint32_t>("128x:2", 0x580));
    s.add(CO_KEY(0x1280 + n, 3, CO_OBJ_____RW), CO_TUNSIGNED8, (CO_DATA)s.var<uint8_t>("128x:3", srvnode[n]));
    txid[n] = 0x600u + srvnode[n]; rxid[n] = 0x580u + srvnode[n];
  }
  w.finish();
  // build n2: the second client runs its own (expedited) transfer concurrently - begun between two steps of the main transfer, completed there,
  // at a later step, or after the main transfer has ended; it must neither disturb the main transfer nor be disturbed by it
  struct Other { bool open = false; int n = 0; bool up = false; uint32_t size = 0; uint16_t idx = 0; uint8_t sub = 0; uint8_t *buf = nullptr; uint8_t sv[4], orig[4]; bool silent = false; long due = 0; int tmo = 0; } oth;
  int other_cnt = 0, other_tmo_cnt = 0;
  auto other_begin = [&](int o) {
    oth.n = o; oth.up = c.t.coin(); oth.size = 1 + c.t.below(4); oth.idx = (uint16_t)(0x3000 + c.t.below(4)); oth.sub = (uint8_t)c.t.below(3);
    oth.buf = (uint8_t *)malloc(oth.size); for (uint32_t i = 0; i < oth.size; i++) { oth.sv[i] = c.t.byte(); oth.buf[i] = oth.up ? 0xEE : c.t.byte(); oth.orig[i] = oth.buf[i]; }
    g_cb[o] = CB();
    // its server either answers (long timeout) or stays silent: then the transfer must end at exactly its own timeout, whatever the other client's timers do meanwhile
    oth.silent = c.t.chance(110); oth.tmo = oth.silent ? 2 + (int)c.t.below(60) : 60000; oth.due = s.tick + oth.tmo;
    s.api_begin(); CO_CSDO *oc = COCSdoFind(s.node, (uint8_t)o); s.api_end("COCSdoFind"); CHECK(c, oc != nullptr, "harness", "client %d not available", o);
    s.api_begin(); CO_ERR e = oth.up ? COCSdoRequestUpload(oc, CO_DEV(oth.idx, oth.sub), oth.buf, oth.size, o ? done1 : done0, (uint32_t)oth.tmo) : COCSdoRequestDownload(oc, CO_DEV(oth.idx, oth.sub), oth.buf, oth.size, o ? done1 : done0, (uint32_t)oth.tmo); s.api_end("COCSdoRequest");
    CHECK(c, e == CO_ERR_NONE, "request-accepted", "request on the idle client %d refused with %d while client %d is busy", o, e, 1 - o);
    CHECK(c, s.tx.size() == 1 && s.tx[0].id == txid[o] && s.tx[0].dlc == 8 && s.tx[0].u16(1) == oth.idx && s.tx[0].d[3] == oth.sub, "concurrent-clients", "client %d: %zu frame(s)%s%s for its request of %04X:%02X", o, s.tx.size(), s.tx.empty() ? "" : ", first ", s.tx.empty() ? "" : s.tx[0].str().c_str(), oth.idx, oth.sub);
    if (oth.up) CHECK(c, s.tx[0].d[0] == 0x40, "concurrent-clients", "client %d upload request %s", o, s.tx[0].str().c_str());
    else CHECK(c, s.tx[0].d[0] == (0x23 | ((4 - oth.size) << 2)) && !memcmp(s.tx[0].d + 4, oth.orig, oth.size), "concurrent-clients", "client %d expedited download %s does not carry its %u user byte(s)", o, s.tx[0].str().c_str(), oth.size);
    VLOG(c, "    [client %d -> %s]%s", o, s.tx[0].str().c_str(), oth.silent ? (" its server stays silent, timeout " + std::to_string(oth.tmo) + " ms").c_str() : "");
    s.clear_tx(); oth.open = true; other_cnt++;
  };
  auto other_finish = [&](CB &maincb, int maincount) {
    int o = oth.n; Frame r; r.id = rxid[o]; r.dlc = 8; r.d[1] = (uint8_t)oth.idx; r.d[2] = (uint8_t)(oth.idx >> 8); r.d[3] = oth.sub;
    if (oth.up) { r.d[0] = (uint8_t)(0x43 | ((4 - oth.size) << 2)); memcpy(r.d + 4, oth.sv, oth.size); } else r.d[0] = 0x60;
    VLOG(c, "    [server -> %s]", r.str().c_str());
    s.rx(r);
    CHECK(c, g_cb[o].count == 1 && g_cb[o].code == 0 && g_cb[o].idx == oth.idx && g_cb[o].sub == oth.sub, "concurrent-clients", "client %d: %d callback(s), code %08X for %04X:%02X after its server answered (one with code 0 for %04X:%02X expected)", o, g_cb[o].count, g_cb[o].code, g_cb[o].idx, g_cb[o].sub, oth.idx, oth.sub);
    CHECK(c, !memcmp(oth.buf, oth.up ? oth.sv : oth.orig, oth.size), "concurrent-clients", "client %d: user buffer differs from %s", o, oth.up ? "the server's bytes" : "what the application put there");
    CHECK(c, s.tx.empty(), "concurrent-clients", "completing client %d's transfer sent %s", o, s.tx.empty() ? "" : s.tx[0].str().c_str());
    if (&maincb != &g_cb[o]) CHECK(c, maincb.count == maincount, "concurrent-clients", "completing client %d's transfer invoked the other client's callback", o);
    free(oth.buf); oth.buf = nullptr; oth.open = false;
  };
  // one timer tick; the silent concurrent transfer ends at exactly its own timeout (its abort frame is taken out of s.tx, the rest belongs to the main transfer)
  auto tick = [&]() {
    s.step_tick();
    if (!oth.open || !oth.silent) return;
    int o = oth.n;
    if (s.tick < oth.due) { CHECK(c, g_cb[o].count == 0, "timeout-exact", "client %d: transfer with a timeout of %d ms ended at tick %ld, %ld tick(s) early (code %08X)", o, oth.tmo, s.tick, oth.due - s.tick, g_cb[o].code); return; }
    CHECK(c, g_cb[o].count == 1 && g_cb[o].code == 0x05040000u, "timeout-exact", "client %d: at its timeout tick %ld (timeout %d ms, server silent): %d callback(s), code %08X; one with 05040000 expected", o, oth.due, oth.tmo, g_cb[o].count, g_cb[o].code);
    bool found = false; for (size_t i = 0; i < s.tx.size(); i++) if (s.tx[i].id == txid[o] && s.tx[i].d[0] == 0x80 && s.tx[i].u32(4) == 0x05040000u && s.tx[i].u16(1) == oth.idx && s.tx[i].d[3] == oth.sub) { s.tx.erase(s.tx.begin() + (long)i); found = true; break; }
    CHECK(c, found, "timeout-abort-frame", "client %d: no abort frame 05040000 for %04X:%02X on %03X at its timeout", o, oth.idx, oth.sub, txid[o]);
    CHECK(c, !memcmp(oth.buf, oth.orig, oth.size), "concurrent-clients", "client %d: user buffer modified although its server never answered", o);
    VLOG(c, "    [client %d timed out at tick %ld as expected]", o, s.tick);
    free(oth.buf); oth.buf = nullptr; oth.open = false; other_tmo_cnt++;
  };
  auto other_wait = [&](CB &maincb, int maincount) { for (int g = 0; oth.open && g < 80; g++) { tick(); CHECK(c, maincb.count == maincount || &maincb == &g_cb[oth.n], "concurrent-clients", "waiting for the other client's timeout invoked this client's callback"); CHECK(c, s.tx.empty(), "nothing-left-behind", "unexpected frame %s while only the other client's timeout was pending", s.tx[0].str().c_str()); }
    CHECK(c, !oth.open, "timeout-exact", "client %d: transfer with a timeout of %d ms did not end by tick %ld", oth.n, oth.tmo, s.tick); };
  int ntransfers = 1 + (int)c.t.below(6); bool nt = ntransfers >= 2; int malformed_cnt = 0, stale_cnt = 0, chained = 0;
  VLOG(c, "node %u, %u timer slots, %d transfer(s)", s.nodeid, s.ntmr, ntransfers);
  for (int x = 0; x < ntransfers; x++) {
    int n = CO_CSDO_N > 1 ? (int)c.t.below(2) : 0;
    s.api_begin(); CO_CSDO *cl = COCSdoFind(s.node, (uint8_t)n); s.api_end("COCSdoFind");
    CHECK(c, cl != nullptr, "harness", "client %d not available", n);
    if (oth.open && oth.n == n) { if (oth.silent) other_wait(g_cb[n], g_cb[n].count); else other_finish(g_cb[n], g_cb[n].count); }
    int base = s.timers_used() - (oth.open ? 1 : 0);
    bool inter_t = CO_CSDO_N > 1 && c.t.chance(100);
    bool up = c.t.coin();
    static const uint32_t M[6] = {4, 7, 8, 14, 256, 263};
    uint32_t size; { uint32_t r = c.t.below(6); size = r == 0 ? 1 + c.t.below(4) : r == 1 ? 248 + c.t.below(24) : r == 2 ? 7 * (1 + c.t.below(40)) : r == 3 ? 256 * (1 + c.t.below(7)) + c.t.below(17) - 8 : c.t.biased(1, 2000, M, 6); }
    // mode large-transfer: one segmented transfer around and beyond 64 KiB (65536 +- a few bytes, up to 66900, around 128 KiB)
    if (c.param == 1 && x == 0) { uint32_t r2 = c.t.below(8); size = r2 < 3 ? 65529 + c.t.below(16) : r2 < 6 ? 65536 + c.t.below(1400) : 131065 + c.t.below(16); c.cls("transfer-of-64KiB-or-more"); }
    int tmo = 1 + (int)c.t.below(c.t.coin() ? 6 : 40);
    uint32_t beh = c.t.below(8);      // 0..3 conforming, 4 abort at step k, 5 silent from step k, 6/7 malformed at step k
    uint32_t nsteps = size <= 4 ? 1 : 1 + (size + 6) / 7;
    uint32_t k = c.t.below(nsteps < 12 ? nsteps : (c.t.coin() ? 12 : nsteps));
    int idle = (int)c.t.below(12);
    uint16_t idx = (uint16_t)(0x2000 + c.t.below(16)); uint8_t sub = (uint8_t)c.t.below(4);
    uint8_t *ub = (uint8_t *)malloc(size); std::vector<uint8_t> sv(size), orig(size), rcv;
    uint16_t pseed = c.t.u16(); g_chain[n] = Chain();
    SplitMix r(pseed); for (uint32_t i = 0; i < size; i++) { sv[i] = (uint8_t)r.next(); ub[i] = up ? 0xEE : (uint8_t)r.next(); orig[i] = ub[i]; }
    // (derived from the payload seed, not drawn from the tape: the saved witnesses keep their meaning)
    { SplitMix q(0xC4A1u ^ pseed); if (q.next() % 5 == 0) { Chain &h = g_chain[n]; h.armed = true; h.size = 1 + (uint32_t)(q.next() % 4); h.idx = (uint16_t)(0x2100 + q.next() % 4); h.sub = (uint8_t)(q.next() % 3); memset(h.buf, 0xEE, 4); } }
    CB &cb = g_cb[n]; cb = CB();
    Chain &ch = g_chain[n];
    s.clear_tx();
    VLOG(c, "transfer %d: client %d %s %04X:%02X size %u timeout %d ms, server %s%s", x, n, up ? "upload" : "download", idx, sub, size, tmo,
         beh < 4 ? "conforming" : beh == 4 ? "aborts" : beh == 5 ? "goes silent" : "sends a malformed response", beh >= 4 ? (" at step " + std::to_string(k)).c_str() : "");
    s.api_begin();
    CO_ERR e = up ? COCSdoRequestUpload(cl, CO_DEV(idx, sub), ub, size, n ? done1 : done0, (uint32_t)tmo) : COCSdoRequestDownload(cl, CO_DEV(idx, sub), ub, size, n ? done1 : done0, (uint32_t)tmo);
    s.api_end("COCSdoRequest");
    CHECK(c, e == CO_ERR_NONE, "request-accepted", "request on the idle client %d refused with %d", n, e);
    { uint8_t other[4]; s.api_begin(); CO_ERR e2 = c.t.coin() ? COCSdoRequestUpload(cl, CO_DEV(idx, sub), other, 4, n ? done1 : done0, 5) : COCSdoRequestDownload(cl, CO_DEV(0x2001, 1), other, 4, n ? done1 : done0, 5); s.api_end("COCSdoRequest");
      CHECK(c, e2 == CO_ERR_SDO_BUSY, "busy-client-refuses", "a busy client accepted a further request (returned %d)", e2); CHECK(c, cb.count == 0, "exactly-one-callback", "the refused request invoked the callback"); }
    // in a quarter of the undisturbed transfers application timers occupy every remaining slot of the pool while the transfer runs: the transfer holds
    // its one timeout action and needs no second one at any moment (derived from the payload seed, not drawn: the saved witnesses keep their meaning)
    g_cbtmr_arm[n] = false; g_cbtmr_made[n] = false; g_cbtmr_id[n] = -1;
    if (c.param == 3 && !oth.open && !ch.armed) g_cbtmr_arm[n] = SplitMix(0xC7A1u ^ pseed).next() % 2 == 0;
    std::vector<int16_t> tight;
    if (!inter_t && !oth.open && !ch.armed && SplitMix(0x7167u ^ pseed).next() % 4 == 0) {
      s.api_begin(); for (int g = 0; g < 64 && s.timers_used() < (int)s.ntmr; g++) { int16_t id = COTmrCreate(&s.node->Tmr, 400000000u, 0, nop_cb, nullptr); if (id < 0) break; tight.push_back(id); } s.api_end("COTmrCreate");
      CHECK(c, s.timers_used() == (int)s.ntmr, "harness", "could not fill the timer pool"); c.cls("transfer-with-no-spare-timer-slot");
    }
    uint32_t off = 0, step = 0; int tgl = 0; long lastreq = s.tick; bool finished = false, conforming = true, ended_by_stale = false, reset_during = false; uint32_t expcode = 0; bool stale_t = c.t.chance(90);
    for (int guard = 0; !finished; guard++) {
      CHECK(c, guard < 6000 + (int)(size / 3), "progress", "transfer makes no progress");
      if (cb.count > 0) { finished = true; break; }
      // the client's request frame
      std::vector<Frame> q; for (auto &t : s.tx) q.push_back(t); s.clear_tx();
      if (conforming) CHECK(c, q.size() == 1, "client-frames", "client sent %zu frames at step %u (exactly one request expected)", q.size(), step);
      if (q.empty()) {   // only possible after a malformed response: the transfer must still end, by timeout at the latest
        for (int i = 0; i <= tmo + 1 && cb.count == 0; i++) tick();
        CHECK(c, cb.count == 1, "exactly-one-callback", "after a malformed server response the transfer never completed (callback count %d after its timeout)", cb.count);
        finished = true; break;
      }
      Frame &f = q[0]; VLOG(c, "  client -> %s", f.str().c_str());
      if (inter_t && c.t.chance(64)) {
        if (!oth.open) { other_begin(1 - n); if (!oth.silent && c.t.coin()) other_finish(cb, 0); }
        else if (oth.n != n && !oth.silent) other_finish(cb, 0);
      }
      CHECK(c, f.id == txid[n] && f.dlc == 8, "client-frames", "client frame %s: expected identifier %03X with 8 bytes", f.str().c_str(), txid[n]);
      Frame rsp; rsp.id = rxid[n]; rsp.dlc = 8;
      bool willfinish = false;
      if (conforming) {
        if (step == 0) {
          CHECK(c, f.u16(1) == idx && f.d[3] == sub, "request-multiplexer", "initiate request names %04X:%02X, the application asked for %04X:%02X", f.u16(1), f.d[3], idx, sub);
          rsp.d[1] = f.d[1]; rsp.d[2] = f.d[2]; rsp.d[3] = f.d[3];
          if (up) { CHECK(c, f.d[0] == 0x40, "upload-request", "upload initiate command %02X", f.d[0]);
            if (size <= 4) { rsp.d[0] = (uint8_t)(0x43 | ((4 - size) << 2)); memcpy(rsp.d + 4, sv.data(), size); willfinish = true; } else { rsp.d[0] = 0x41; for (int i = 0; i < 4; i++) rsp.d[4 + i] = (uint8_t)(size >> (8 * i)); } }
          else { if (size <= 4) { CHECK(c, f.d[0] == (0x23 | ((4 - size) << 2)), "download-announced-size", "expedited download command %02X for %u bytes", f.d[0], size); rcv.assign(f.d + 4, f.d + 4 + size); willfinish = true; }
                 else CHECK(c, f.d[0] == 0x21 && f.u32(4) == size, "download-announced-size", "segmented download initiate %s announces %u bytes, the user buffer has %u", f.str().c_str(), f.u32(4), size);
                 rsp.d[0] = 0x60; }
        } else if (up) {
          CHECK(c, f.d[0] == (0x60 | (tgl << 4)), "upload-toggle", "upload segment request %02X, expected toggle %d", f.d[0], tgl);
          uint32_t nn = std::min<uint32_t>(7, size - off); bool last = off + nn == size; rsp.d[0] = (uint8_t)((tgl << 4) | ((7 - nn) << 1) | (last ? 1 : 0)); memcpy(rsp.d + 1, sv.data() + off, nn); off += nn; tgl ^= 1; willfinish = last;
        } else {
          uint8_t cmd = f.d[0]; CHECK(c, ((cmd >> 4) & 1) == tgl && !(cmd & 0xE0), "download-toggle", "download segment command %02X, expected toggle %d", cmd, tgl);
          uint32_t nn = 7 - ((cmd >> 1) & 7); bool last = cmd & 1; uint32_t en = std::min<uint32_t>(7, size - (uint32_t)rcv.size());
          CHECK(c, nn == en && last == (rcv.size() + nn == size), "download-last-segment-marking", "download segment carries %u bytes (last flag %d) after %zu of %u bytes: expected %u bytes, last flag %d", nn, last, rcv.size(), size, en, rcv.size() + en == size);
          rcv.insert(rcv.end(), f.d + 1, f.d + 1 + nn); rsp.d[0] = (uint8_t)(0x20 | (tgl << 4)); tgl ^= 1; willfinish = rcv.size() == size;
        }
      } else { for (int i = 0; i < 8; i++) rsp.d[i] = c.t.byte(); }   // after a malformed response the server keeps talking nonsense
      bool respond = true;
      if (conforming && step == k) {
        if (beh == 4) { static const uint32_t AC[8] = {0x06332211u, 0x05040000u, 0x05040001u, 0x08000020u, 0x06020000u, 0x05030000u, 0x06010002u, 0x00000001u};   // incl. the codes the client itself uses
          uint32_t ac = AC[SplitMix(0xAB07u ^ pseed).next() % 8];                                                 // (derived from the payload seed: no extra tape choice)
          rsp = Frame::mk(rxid[n], 8, {0x80, (uint8_t)idx, (uint8_t)(idx >> 8), sub, (uint8_t)ac, (uint8_t)(ac >> 8), (uint8_t)(ac >> 16), (uint8_t)(ac >> 24)}); expcode = ac; willfinish = true; }
        else if (beh == 5) respond = false;
        else if (beh >= 6) {
          conforming = false; malformed_cnt++;
          uint32_t how = c.t.below(c.param == 2 ? 8 : 6);   // (mode nmt-change-while-waiting has two more kinds; the first mode keeps the alphabet its witnesses were recorded with)
          if (how == 0) rsp.d[0] ^= 0x10;                                    // wrong toggle
          else if (how == 1) { rsp.d[1] ^= 1; }                              // wrong multiplexer / data byte
          else if (how == 2) { rsp.d[0] = up ? 0x41 : 0x60; for (int i = 4; i < 8; i++) rsp.d[i] = 0xFF; }   // oversized announcement / repeated initiate
          else if (how == 3) { rsp.d[0] = up ? 0x00 : 0x20; }                // never-ending segments without last flag
          else if (how == 4) { rsp.d[0] = (uint8_t)(c.t.byte() | 0x80); if (rsp.d[0] == 0x80) { rsp.d[1] = (uint8_t)idx; rsp.d[2] = (uint8_t)(idx >> 8); rsp.d[3] = sub; } }   // wrong command class
          else if (how >= 6) { static const uint8_t EC[6] = {0x42, 0x43, 0x47, 0x4B, 0x4F, 0x46}; rsp.d[0] = EC[c.t.below(6)]; rsp.d[1] = (uint8_t)idx; rsp.d[2] = (uint8_t)(idx >> 8); rsp.d[3] = sub; for (int i = 4; i < 8; i++) rsp.d[i] = (uint8_t)(0xA1 + i); }   // an expedited upload answer for the right object that announces another number of bytes than the buffer holds, or none at all (e = 1, s = 0)
          else for (int i = 0; i < 8; i++) rsp.d[i] = c.t.byte();
        }
      }
      if (!respond) {   // the server went silent: the transfer ends at exactly its own timeout
        // mode nmt-change-while-waiting: the NMT master stops the node, sends it to PRE-OPERATIONAL or starts it while the client waits (derived from the
        // payload seed: no extra tape choice); the statement ties callback and abort frame to the timeout alone
        uint8_t ncs = 0; if (c.param == 2) { static const uint8_t CS[5] = {2, 128, 1, 130, 129}; ncs = CS[SplitMix(0x57A7u ^ pseed).next() % 5]; if ((ncs == 129 || ncs == 130) && (oth.open || inter_t || ch.armed)) ncs = 2; }   // (the reset only while nothing else of the client side is in flight)
        if (ncs == 129 || ncs == 130) {   // an NMT reset gives the transfer up at once: exactly one callback, and not with code 0 - the server never completed the transfer
          s.clear_tx(); s.rx(Frame::mk(0, 2, {ncs, 0})); VLOG(c, "  NMT reset (%u) while the client waits -> %d callback(s), code %08X", ncs, cb.count, cb.code); c.cls("nmt-reset-while-the-client-waits");
          CHECK(c, cb.count == 1, "exactly-one-callback", "an NMT reset while client %d waited for its server invoked the completion callback %d time(s)", n, cb.count);
          CHECK(c, cb.code != 0, "code-0-only-after-completion", "an NMT reset while client %d waited for its server completed the transfer with code 0 although the server never answered", n);
          for (auto &t : s.tx) CHECK(c, t.id == 0x700u + s.nodeid || t.id == txid[n], "client-frames", "the NMT reset made the node transmit %s", t.str().c_str());
          s.clear_tx(); expcode = cb.code; finished = true; reset_during = true; break;
        }
        if (ncs) { s.rx(Frame::mk(0, 2, {ncs, 0})); s.clear_tx(); VLOG(c, "  NMT command %u while the client waits", ncs); c.cls(ncs == 2 ? "node-stopped-while-the-client-waits" : "nmt-state-changed-while-the-client-waits"); }
        long due = lastreq + tmo;
        while (s.tick < due - 1) { tick(); CHECK(c, cb.count == 0 && s.tx.empty(), "timeout-exact", "transfer ended at tick %ld, its timeout of %d ms (armed at tick %ld) ends at tick %ld", s.tick, tmo, lastreq, due); }
        tick();
        CHECK(c, cb.count == 1 && cb.code == 0x05040000u, "timeout-exact", "at the timeout tick %ld: %d callback(s) with code %08X, expected one with 05040000", due, cb.count, cb.code);
        CHECK(c, s.tx.size() == 1 && s.tx[0].id == txid[n] && s.tx[0].d[0] == 0x80 && s.tx[0].u32(4) == 0x05040000u, "timeout-abort-frame", "at the timeout the client sent %zu frame(s)%s%s, expected one abort frame 05040000 on %03X", s.tx.size(), s.tx.empty() ? "" : ": ", s.tx.empty() ? "" : s.tx[0].str().c_str(), txid[n]);
        s.clear_tx(); expcode = 0x05040000u; finished = true;
        if (ncs == 2) { s.rx(Frame::mk(0, 2, {128, 0})); s.clear_tx(); }   // back to PRE-OPERATIONAL for the transfers that follow
        break;
      }
      int delay = (int)c.t.below(3); if (delay >= tmo) delay = 0;     // a late (but in time) answer
      // a frame that, by its command specifier, toggle bit or multiplexer, cannot be the awaited response (the answer to an earlier,
      // timed-out transfer arriving late) precedes the server's answer.  Admissible: (a) the client ignores it - no frame, no callback, the
      // transfer goes on as if it had not arrived; (b) the client ends the transfer there - exactly one callback with a non-zero code.
      if (conforming && stale_t && !(step == k && beh >= 4) && c.t.chance(77)) {
        Frame st; st.id = rxid[n]; st.dlc = 8; for (int i = 1; i < 8; i++) st.d[i] = c.t.byte();
        int awaited = step == 0 ? (up ? 2 : 3) : (up ? 0 : 1), at = (rsp.d[0] >> 4) & 1;
        uint32_t kind = c.t.below(5);
        bool early_seg = step == 0 && size > 4 && kind <= 1;   // segment-phase frame before the initiate response of a segmented transfer
        if (kind == 0) { int t = awaited == 0 ? (at ^ 1) : (int)c.t.below(2); st.d[0] = (uint8_t)((t << 4) | (c.t.below(8) << 1) | c.t.below(2)); }
        else if (kind == 1) { int t = awaited == 1 ? (at ^ 1) : (int)c.t.below(2); st.d[0] = (uint8_t)(0x20 | (t << 4)); }
        else {
          st.d[0] = kind == 2 ? (c.t.coin() ? 0x41 : (uint8_t)(0x42 | (c.t.below(4) << 2) | c.t.below(2))) : kind == 3 ? 0x60 : 0x80;
          uint16_t fi = idx; uint8_t fs = sub; if (c.t.coin()) fi = (uint16_t)(idx + 1 + c.t.below(0xFFFE)); else fs = (uint8_t)(sub + 1 + c.t.below(255));
          st.d[1] = (uint8_t)fi; st.d[2] = (uint8_t)(fi >> 8); st.d[3] = fs;
        }
        {
          VLOG(c, "  server -> %s   (stale: cannot be the awaited response)", st.str().c_str());
          stale_cnt++; s.rx(st);
          if (cb.count > 0) {
            CHECK(c, cb.count == 1, "exactly-one-callback", "%d callbacks after a stale frame", cb.count);
            CHECK(c, cb.code != 0, early_seg ? "early-segment-accepted" : "stale-frame-accepted", "the frame %s cannot be the awaited response (%s of %04X:%02X, step %u) and the server had not completed the transfer, yet the transfer was reported complete with code 0", st.str().c_str(), up ? "upload" : "download", idx, sub, step);
            for (auto &t : s.tx) CHECK(c, t.id == txid[n] && t.d[0] == 0x80, "client-frames", "after ending the transfer on a stale frame the client sent %s", t.str().c_str());
            s.clear_tx(); expcode = cb.code; s.rx(rsp);
            CHECK(c, cb.count == 1 && s.tx.empty(), "nothing-left-behind", "the server's answer to a transfer the client had already ended caused activity");
            ended_by_stale = true; finished = true; break;
          }
          CHECK(c, s.tx.empty(), early_seg ? "early-segment-accepted" : "stale-frame-accepted", "the frame %s cannot be the awaited response (%s of %04X:%02X, step %u); the client neither ignored it nor ended the transfer: it sent %s", st.str().c_str(), up ? "upload" : "download", idx, sub, step, s.tx[0].str().c_str());
        }
      }
      for (int d = 0; d < delay; d++) { tick(); CHECK(c, cb.count == 0 && s.tx.empty(), "timeout-exact", "activity while the answer was still in time"); }
      VLOG(c, "  server -> %s%s", rsp.str().c_str(), conforming ? "" : "   (malformed)");
      s.rx(rsp); lastreq = s.tick; step++;
      // a transfer that the client ends on a malformed answer ends with an abort frame or with nothing - a finished client has nothing else to say
      if (!conforming && cb.count == 1) for (auto &t : s.tx) CHECK(c, t.id == txid[n] && t.dlc == 8 && t.d[0] == 0x80, "client-frames", "the client ended the transfer with code %08X on the malformed answer %s and then sent %s (only an abort frame may follow)", cb.code, rsp.str().c_str(), t.str().c_str());
      if (conforming && willfinish) {
        CHECK(c, cb.count == 1, "exactly-one-callback", "the server completed the transfer: %d completion callback(s)", cb.count);
        CHECK(c, cb.code == expcode, "completion-code", "completion code %08X, expected %08X", cb.code, expcode);
        CHECK(c, s.tx.empty(), "client-frames", "the client sent %s after the transfer was complete", s.tx.empty() ? "" : s.tx[0].str().c_str());
        finished = true;
      } else if (conforming) CHECK(c, cb.count == 0, "exactly-one-callback", "completion callback (code %08X) before the transfer was complete (step %u)", cb.code, step);
    }
    CHECK(c, cb.count == 1, "exactly-one-callback", "%d completion callbacks for one transfer", cb.count);
    if (!tight.empty()) { s.api_begin(); for (int16_t id : tight) COTmrDelete(&s.node->Tmr, id); s.api_end("COTmrDelete"); }
    if (ch.tried) {
      chained++;
      if (ch.res == CO_ERR_NONE) {   // accepted from inside the callback: it must be a working transfer
        VLOG(c, "  request from inside the completion callback accepted");
        CHECK(c, ch.have_req && ch.req.id == txid[n] && ch.req.dlc == 8 && ch.req.d[0] == 0x40 && ch.req.u16(1) == ch.idx && ch.req.d[3] == ch.sub, "chained-request", "a request issued from inside the completion callback was accepted, but the client sent %s instead of the upload request for %04X:%02X", ch.have_req ? ch.req.str().c_str() : "nothing", ch.idx, ch.sub);
        Frame r; r.id = rxid[n]; r.dlc = 8; r.d[0] = (uint8_t)(0x43 | ((4 - ch.size) << 2)); r.d[1] = (uint8_t)ch.idx; r.d[2] = (uint8_t)(ch.idx >> 8); r.d[3] = ch.sub; for (uint32_t i = 0; i < ch.size; i++) r.d[4 + i] = (uint8_t)(0x61 + i);
        s.clear_tx(); s.rx(r);
        CHECK(c, ch.cbcount == 1 && ch.code == 0, "chained-request", "a request issued from inside the completion callback was accepted (CO_ERR_NONE); after the server's answer its completion callback ran %d time(s) with code %08X (once with code 0 expected)", ch.cbcount, ch.code);
        for (uint32_t i = 0; i < ch.size; i++) CHECK(c, ch.buf[i] == 0x61 + i, "chained-request", "the transfer requested from inside the completion callback delivered wrong data");
        CHECK(c, cb.count == 1, "exactly-one-callback", "the chained transfer invoked the finished transfer's accounting again");
        ch.active = false; s.clear_tx();
      } else VLOG(c, "  request from inside the completion callback refused with %d", (int)ch.res);
    }
    CHECK(c, cb.idx == idx && cb.sub == sub && cb.who == cl, "callback-arguments", "callback reports %04X:%02X, the transfer was for %04X:%02X", cb.idx, cb.sub, idx, sub);
    if (conforming && expcode == 0) {
      if (up) for (uint32_t i = 0; i < size; i++) CHECK(c, ub[i] == sv[i], "upload-data", "upload of %u bytes: user buffer byte %u is %02X, the server sent %02X", size, i, ub[i], sv[i]);
      else { CHECK(c, rcv.size() == size, "download-data", "the server received %zu bytes, the user buffer has %u", rcv.size(), size); for (uint32_t i = 0; i < size; i++) CHECK(c, rcv[i] == orig[i], "download-data", "download of %u bytes: byte %u received as %02X, user buffer holds %02X", size, i, rcv[i], orig[i]); }
    }
    if (!up && conforming) CHECK(c, !memcmp(ub, orig.data(), size), "user-buffer", "a download from a conforming server modified the user buffer");
    g_cbtmr_arm[n] = false;
    if (g_cbtmr_made[n] && g_cbtmr_id[n] >= 0) {   // the action the application created in the callback is the application's: still pending, and it alone can delete it
      s.api_begin(); int16_t r = COTmrDelete(&s.node->Tmr, g_cbtmr_id[n]); s.api_end("COTmrDelete");
      CHECK(c, r >= 0, "application-timer-untouched", "the timer action %d that the application created inside the completion callback (code %08X) is gone after the transfer: COTmrDelete returned %d", g_cbtmr_id[n], cb.code, r);
      c.cls("application-timer-created-in-the-completion-callback"); g_cbtmr_made[n] = false;
    }
    CHECK(c, s.timers_used() - (oth.open ? 1 : 0) == base, "nothing-left-behind", "after the transfer %d timer slot(s) are in use, %d before it (a finished transfer must leave no timer behind)", s.timers_used() - (oth.open ? 1 : 0), base);
    { s.api_begin(); CO_CSDO *again = COCSdoFind(s.node, (uint8_t)n); s.api_end("COCSdoFind"); CHECK(c, again == cl && cl->State == CO_CSDO_STATE_IDLE, "nothing-left-behind", "the client is not idle after completion"); }
    s.clear_tx(); s.clear_ev();
    // idle gap: no callback, no frame; a late frame from the server must not disturb the idle client
    if (c.t.chance(60)) { Frame late = Frame::mk(rxid[n], 8, {(uint8_t)(up ? 0x00 : 0x20), 1, 2, 3, 4, 5, 6, 7}); s.rx(late); CHECK(c, cb.count == 1 && s.tx.empty(), "nothing-left-behind", "a late server frame after completion caused activity"); }
    for (int i = 0; i < idle; i++) { tick(); CHECK(c, cb.count == 1 && s.tx.empty(), "nothing-left-behind", "activity %d tick(s) after completion (callbacks %d, frames %zu): something of the finished transfer was left behind", i + 1, cb.count, s.tx.size()); }
    free(ub);
    if (size > 4) nt = true;
    c.cls(beh < 4 ? "server-conforming" : beh == 4 ? "server-aborts" : beh == 5 ? "server-silent" : "server-malformed");
    if (size > 255) c.cls("size-over-255");
    if (ended_by_stale) c.cls("stale-frame-ended-transfer");
    c.ops += step + 1;
  }
  if (oth.open) { if (oth.silent) other_wait(g_cb[oth.n], 0); else other_finish(g_cb[oth.n], g_cb[oth.n].count); }
  // a request made while the timer pool is exhausted (decided from the configuration, no tape choice): either it is accepted and then completes normally,
  // or it is refused - then the client must still be usable as soon as a timer slot is free again
  if ((s.nodeid + s.ntmr) % 3 == 0) {
    std::vector<int16_t> fill; s.api_begin(); for (int g = 0; g < 64 && s.timers_used() < (int)s.ntmr; g++) { int16_t id = COTmrCreate(&s.node->Tmr, 5000, 0, nop_cb, nullptr); if (id < 0) break; fill.push_back(id); } s.api_end("COTmrCreate");
    CHECK(c, s.timers_used() == (int)s.ntmr, "harness", "could not exhaust the timer pool");
    s.api_begin(); CO_CSDO *cl0 = COCSdoFind(s.node, 0); s.api_end("COCSdoFind"); CHECK(c, cl0 != nullptr, "harness", "client 0 not available");
    g_chain[0] = Chain(); g_cb[0] = CB(); s.clear_tx(); uint8_t b4[4] = {0xEE, 0xEE, 0xEE, 0xEE};
    auto answer = [&]() { Frame r = Frame::mk(rxid[0], 8, {0x43, 0x00, 0x21, 0x00, 0x31, 0x32, 0x33, 0x34}); s.clear_tx(); s.rx(r);
      CHECK(c, g_cb[0].count == 1 && g_cb[0].code == 0 && !memcmp(b4, "1234", 4), "pool-exhausted-request", "a request accepted %s: after the server's answer %d callback(s), code %08X", "around an exhausted timer pool", g_cb[0].count, g_cb[0].code); };
    s.api_begin(); CO_ERR e1 = COCSdoRequestUpload(cl0, CO_DEV(0x2100, 0), b4, 4, done0, 50); s.api_end("COCSdoRequestUpload");
    VLOG(c, "request with an exhausted timer pool -> %d", (int)e1);
    if (e1 == CO_ERR_NONE) { CHECK(c, s.tx.size() == 1 && s.tx[0].id == txid[0] && s.tx[0].d[0] == 0x40, "pool-exhausted-request", "request accepted with an exhausted timer pool, but %zu frame(s) sent", s.tx.size()); answer(); }
    else {
      CHECK(c, s.tx.empty() && g_cb[0].count == 0, "pool-exhausted-request", "a refused request (error %d) sent a frame or invoked the callback", (int)e1);
      CHECK(c, !fill.empty(), "harness", "no application timer to free");
      s.api_begin(); COTmrDelete(&s.node->Tmr, fill.back()); s.api_end("COTmrDelete"); fill.pop_back();
      s.api_begin(); CO_ERR e2 = COCSdoRequestUpload(cl0, CO_DEV(0x2100, 0), b4, 4, done0, 50); s.api_end("COCSdoRequestUpload");
      CHECK(c, e2 == CO_ERR_NONE, "pool-exhausted-request", "after a request refused for lack of a timer (error %d) and with a timer slot free again, the next request on the idle client is refused with %d", (int)e1, (int)e2);
      CHECK(c, s.tx.size() == 1 && s.tx[0].id == txid[0] && s.tx[0].d[0] == 0x40, "pool-exhausted-request", "%zu frame(s) sent for the accepted request", s.tx.size()); answer();
    }
    s.api_begin(); for (int16_t id : fill) COTmrDelete(&s.node->Tmr, id); s.api_end("COTmrDelete"); s.clear_tx();
    c.cls("request-with-exhausted-timer-pool");
  }
  if (other_tmo_cnt) c.cls("concurrent-second-client-timed-out");
  if (other_cnt) c.cls("concurrent-second-client");
  if (stale_cnt) c.cls("stale-frame-injected");
  if (chained) c.cls("request-from-inside-the-callback");
  (void)malformed_cnt;
  c.nontrivial = nt;
}

Registrar reg(Prop{
    "C19",
    "Cases: node id 1..100, timer pool 4..16, client(s) 1280h (and 1281h in build n2); sequences of 1..6 back-to-back transfers (upload/download, size 1..2000 incl. 1..4, around 256 and multiples of 256 +- 8, multiples of 7; timeout 1..40 ms; idle gaps 0..11 ticks) against a scripted reference server: "
    "conforming; aborting at step k; silent from step k; answering late but in time; or malformed at step k (wrong toggle, wrong multiplexer, oversized announcement, segments without end, wrong command class, random bytes) and nonsense afterwards. A second request is issued while the client is busy. "
    "Oracle: exactly one completion callback per accepted request with the right arguments; code 0 and user buffer == server bytes (upload) / server received exactly the user bytes with announced size, toggles and last-segment marking (download); the server's abort code (from a set that includes 0504 0000h and the other codes the client itself uses: a server abort is never answered); 0504 0000h and one abort frame at exactly lastrequest + timeout when the server is silent; busy => CO_ERR_SDO_BUSY; "
    "A frame that cannot be the awaited response (wrong command specifier for the phase, wrong toggle bit, initiate response or abort for a different multiplexer: the late answer to an earlier transfer) may precede the server's answer: the client either ignores it (no frame, no callback, the transfer completes as without it) or ends the transfer there with a non-zero code - never code 0. "
    "In build n2 the second client runs an expedited transfer of its own concurrently (begun between two steps of the main transfer; completed there, at a later step or after the main transfer; or its server stays silent and it must end with 0504 0000h and an abort frame at exactly its own timeout of 2..61 ms while the main client's timers come and go): neither transfer may disturb the other. "
    "In a fifth of the transfers the application asks for its next transfer from inside the completion callback: refused (busy) or accepted - then that transfer has to complete exactly once with the server's bytes. "
    "In a quarter of the undisturbed transfers application timers occupy every remaining slot of the timer pool while the transfer runs (it needs no second slot at any moment). In a third of the configurations a request is made with the timer pool exhausted by application timers: accepted (and then completed normally) or refused - then the client must be usable again as soon as a slot is free. "
    "user buffers are exact-size heap blocks (ASan red zones); download buffers unmodified (conforming servers); timer-pool occupancy after completion equals the one before; client idle; no callback or frame during the idle gap or on a late server frame. For malformed servers only exactly-once (by the timeout at the latest), memory safety and nothing-left-behind are asserted. "
    "Mode nmt-change-while-waiting: when the server goes silent the NMT master stops the node, sends it to PRE-OPERATIONAL or starts it while the client waits: one callback with 0504 0000h and the abort frame at exactly the timeout all the same - or it resets the node (communication / node), which gives the transfer up at once: one callback, never with code 0. "
    "Mode large-transfer: the first transfer of the case moves 65529..66935 or 131065..131080 bytes (a firmware image) under the same oracle. "
    "Non-trivial: >= 2 transfers in the case or a segmented transfer. Distinct = distinct decoded choice sequence.",
    {Mode{"random", one_case, false, 1200000, 15000000, 0, 0, 400, 1500},
     Mode{"large-transfer", one_case, false, 3000, 60000, 1, 1, 200, 300},
     Mode{"nmt-change-while-waiting", one_case, false, 250000, 4000000, 2, 2, 400, 1500},
     Mode{"timer-in-callback", one_case, false, 150000, 2500000, 3, 3, 400, 1500}},
    {"timer frequency 1000 Hz (1 ms = 1 tick)", "for uploads the application passes the object's size as buffer size (the client refuses a different announced size by design)"}});

}  // namespace
