// C06 - dictionary lookup and typed access are exact for every dictionary and key (DESIGN.md §5 C06)
#include "sim/sim.h"
#include <algorithm>
using namespace vf;

namespace {

int g_initcnt[512];
// some entries refuse their initialisation (a function of the key, not drawn from the tape): every entry is still initialised exactly once
bool init_refuses(uint32_t key) { return ((CO_GET_DEV(key) * 2654435761u) >> 20) % 9 == 0; }
CO_ERR cnt_init(struct CO_OBJ_T *o, struct CO_NODE_T *n) { (void)n; g_initcnt[o->Data & 511]++; return init_refuses(o->Key) ? CO_ERR_TYPE_INIT : CO_ERR_NONE; }
uint32_t cnt_size(struct CO_OBJ_T *o, struct CO_NODE_T *n, uint32_t w) { (void)o; (void)n; (void)w; return 1; }
const CO_OBJ_TYPE CntType = {cnt_size, cnt_init, 0, 0, 0};

struct Dict {
  CO_OBJ *arr = nullptr; int n = 0; CO_DICT *cod;
  ~Dict() { free(arr); }
  void build(Sim &s, const std::vector<uint32_t> &keys) {   // keys sorted by index/sub
    n = (int)keys.size();
    arr = (CO_OBJ *)malloc(sizeof(CO_OBJ) * (n + 1));       // exactly entries + end marker: ASan red zone behind it
    for (int i = 0; i < n; i++) { arr[i].Key = keys[i]; arr[i].Type = &CntType; arr[i].Data = (CO_DATA)i; }
    arr[n].Key = 0; arr[n].Type = 0; arr[n].Data = 0;
    cod = &s.node->Dict;
    int r = CODictInit(cod, s.node, arr, (uint16_t)(n + 1));
    CHECK(s.c, r == n, "dict-init-count", "CODictInit counted %d entries, dictionary has %d", r, n);
  }
  CO_OBJ *linear(uint32_t key) const { for (int i = 0; i < n; i++) if (CO_GET_DEV(arr[i].Key) == CO_GET_DEV(key)) return &arr[i]; return nullptr; }
  void init_walk(Sim &s) {
    memset(g_initcnt, 0, sizeof g_initcnt);
    edge_reset();
    CO_ERR r = CODictObjInit(cod, s.node);
    bool any = false; for (int i = 0; i < n; i++) if (init_refuses(arr[i].Key)) any = true;
    if (any) s.c.cls("dictionary-with-refused-initialisation");
    CHECK(s.c, (r != CO_ERR_NONE) == any, "init-exactly-once", "CODictObjInit returned %d for a dictionary of %d entries of which %s refuses its initialisation", (int)r, n, any ? "at least one" : "none");
    for (int i = 0; i < n; i++)
      CHECK(s.c, g_initcnt[i] == 1, "init-exactly-once", "type initialisation of entry %d of %d (%04X:%02X) ran %d times", i, n, CO_GET_IDX(arr[i].Key), CO_GET_SUB(arr[i].Key), g_initcnt[i]);
  }
  void probe(Sim &s, uint32_t key) {
    edge_reset();
    CO_OBJ *f = CODictFind(cod, key), *e = linear(key);
    VLOG(s.c, "find %04X:%02X (flags %02X) -> %s", CO_GET_IDX(key), CO_GET_SUB(key), key & 0xFF, f ? "entry" : "none");
    CHECK(s.c, f == e, "lookup-iff-exists", "lookup of %04X:%02X (key flags %02X) in a dictionary of %d entries returned %s, a linear search %s", CO_GET_IDX(key), CO_GET_SUB(key), key & 0xFF, n,
          f ? "an entry" : "nothing", e ? (f ? "finds a different entry" : "finds the entry") : "finds nothing");
  }
};

const uint8_t FLAGS[4] = {0x00, 0x01, 0x80, 0xFF};

// (i) bounded exhaustive: every sorted dictionary over a small key universe x every probe x key-flag variants
void case_lookup_enum(Ctx &c) {
  Sim s(c); s.init_bare();
  int U = c.param;   // universe size: 8 (quick) / 10 (thorough)
  // the universe spans the whole 16-bit index space (first/last valid index, both sides of 8000h, neighbours that
  // differ only in the sub-index)
  static const uint32_t UNI[10] = {CO_DEV(0x0001, 0), CO_DEV(0x1000, 0), CO_DEV(0x1000, 1), CO_DEV(0x1000, 0xFF), CO_DEV(0x7FFF, 0xFF), CO_DEV(0x8000, 0), CO_DEV(0xA040, 1), CO_DEV(0xFFFF, 0xFF), CO_DEV(0x2000, 0), CO_DEV(0xFFFF, 0xFE)};
  std::vector<uint32_t> uni(UNI, UNI + U); std::sort(uni.begin(), uni.end());
  uint32_t mask = c.t.below(1u << U);
  std::vector<uint32_t> keys;
  for (int i = 0; i < U; i++) if (mask & (1u << i)) keys.push_back(uni[i] | ((i * 37 + 1) & 0xFF));
  Dict d; d.build(s, keys);
  VLOG(c, "dictionary mask %03X (%d entries)", mask, d.n);
  d.init_walk(s);
  static const uint32_t EXTRA[8] = {CO_DEV(0x0FFF, 0xFF), CO_DEV(0x1001, 0), CO_DEV(0xFFFF, 0xFD), CO_DEV(0x0001, 1), CO_DEV(0x1000, 2), CO_DEV(0x8000, 1), CO_DEV(0x7FFF, 0xFE), CO_DEV(0x0000, 1)};
  uint32_t p = c.t.below((uint32_t)U + 8), fl = c.t.below(4);
  uint32_t key = (p < (uint32_t)U ? uni[p] : EXTRA[p - U]) | FLAGS[fl];
  d.probe(s, key);
  c.ops += 2;
  if (d.n >= 2) c.nontrivial = true;
  c.cls(d.linear(key) ? "probe-present" : "probe-absent");
}

// (ii) random large dictionaries, many probes
void case_lookup_random(Ctx &c) {
  Sim s(c); s.init_bare();
  static const uint32_t M[3] = {1, 2, 255};
  int n = (int)c.t.biased(0, 400, M, 3);
  // keys anywhere in the 16-bit index / 8-bit sub-index space: clustered runs (records with many sub-indices, neighbouring
  // indices) and far jumps, so that dictionaries span 0001h..FFFFh like real ones (communication objects at 1000h.. next to
  // manufacturer objects at 2000h.., device profile objects at 6000h.. and network variables at A000h..)
  std::vector<uint32_t> keys; std::vector<uint32_t> raw;
  { uint32_t cur = CO_DEV(1 + c.t.below(0xFFFF), c.t.byte());
    for (int i = 0; i < n; i++) {
      uint32_t how = c.t.below(8);
      if (how < 4) cur += (1 + c.t.below(3)) << 8;                         // next sub-indices
      else if (how < 6) cur = (cur & 0xFFFF0000u) + 0x10000u * (1 + c.t.below(4)) + ((uint32_t)c.t.below(3) << 8);   // next indices
      else cur = CO_DEV(1 + c.t.below(0xFFFF), c.t.chance(128) ? 0 : c.t.byte());                                       // anywhere
      if (CO_GET_IDX(cur) == 0) cur = CO_DEV(1, 0);
      raw.push_back(CO_GET_DEV(cur));
    }
    std::sort(raw.begin(), raw.end()); raw.erase(std::unique(raw.begin(), raw.end()), raw.end());
    for (uint32_t k : raw) keys.push_back(k | c.t.byte()); }
  Dict d; d.build(s, keys);
  VLOG(c, "dictionary of %d entries", d.n);
  d.init_walk(s);
  int probes = 4 + (int)c.t.below(24);
  for (int i = 0; i < probes; i++) {
    uint32_t key; uint32_t how = c.t.below(6);
    if (how < 2 && d.n) key = d.arr[c.t.below(d.n)].Key ^ c.t.byte();          // present, flags differ
    else if (how == 2 && d.n) key = d.arr[c.t.coin() ? 0 : d.n - 1].Key;        // first / last
    else if (how == 3 && d.n) key = d.arr[c.t.below(d.n)].Key + (c.t.coin() ? 0x100 : -0x100);   // neighbour
    else if (how == 4) key = CO_DEV(c.t.coin() ? 0x0001 : 0xFFFF, c.t.byte());  // below first / above last
    else key = CO_DEV(1 + c.t.below(0xFFFF), c.t.byte()) | c.t.byte();
    if (CO_GET_IDX(key) == 0) continue;   // index 0000h is not a valid key (DESIGN: domain note)
    d.probe(s, key); c.ops++;
  }
  if (d.n >= 2) c.nontrivial = true;
  c.cls(d.n == 0 ? "dict-empty" : d.n < 16 ? "dict-small" : "dict-large");
}

// (iii) typed access.  kinds: width {1,2,4} x {direct, referenced} x {plain, node-id relative}
struct Typed {
  Sim &s; Dict d; uint8_t *r8; uint16_t *r16; uint32_t *r32;
  std::vector<uint32_t> keys;
  explicit Typed(Sim &sim) : s(sim) {}
};
const CO_OBJ_TYPE *int_type(int w) { return w == 1 ? CO_TUNSIGNED8 : w == 2 ? CO_TUNSIGNED16 : CO_TUNSIGNED32; }

CO_ERR rd(CO_DICT *cod, uint32_t key, int w, uint32_t *v) {
  edge_reset();
  if (w == 1) { uint8_t x = 0xEE; CO_ERR e = CODictRdByte(cod, key, &x); *v = x; return e; }
  if (w == 2) { uint16_t x = 0xEEEE; CO_ERR e = CODictRdWord(cod, key, &x); *v = x; return e; }
  uint32_t x = 0xEEEEEEEE; CO_ERR e = CODictRdLong(cod, key, &x); *v = x; return e;
}
CO_ERR wr(CO_DICT *cod, uint32_t key, int w, uint32_t v) {
  edge_reset();
  if (w == 1) return CODictWrByte(cod, key, (uint8_t)v);
  if (w == 2) return CODictWrWord(cod, key, (uint16_t)v);
  return CODictWrLong(cod, key, v);
}

void typed_case(Ctx &c, uint32_t kind, uint8_t nodeid, uint32_t block, bool enumerated) {
  int w = (kind % 3) == 0 ? 1 : (kind % 3) == 1 ? 2 : 4;
  bool direct = (kind / 3) & 1, nid = (kind / 6) & 1;
  Sim s(c); s.nodeid = nodeid; s.init_bare();
  // every other case the application assigns the node id at run time, the way the API offers it for a node in INITIALISATION (CONmtSetNodeId) - decided from
  // values already drawn, no tape choice; the id the node then reports is the one node-id-relative entries are relative to
  if ((kind + block + nodeid) % 2) {
    s.node->Nmt.Node = s.node; s.node->Nmt.Mode = CO_INIT; s.node->NodeId = (uint8_t)(nodeid == 1 ? 2 : 1);
    edge_reset(); CONmtSetNodeId(&s.node->Nmt, nodeid); uint8_t got = CONmtGetNodeId(&s.node->Nmt);
    CHECK(c, got == nodeid && s.node->Error == CO_ERR_NONE, "nodeid-relative-store", "CONmtSetNodeId(%u) on a node in INITIALISATION: the node reports node id %u (node error %d)", nodeid, got, (int)s.node->Error);
    c.cls("node-id-assigned-through-CONmtSetNodeId");
  }
  // dictionary: the entry under test at 2000:01 plus one referenced entry of each other width (mismatch probes)
  uint32_t *store = (uint32_t *)s.alloc(w, "value");   // exactly w bytes: a wider access is an ASan report
  uint8_t fl = (uint8_t)(CO_OBJ_____RW | (direct ? CO_OBJ_D_____ : 0) | (nid ? CO_OBJ__N____ : 0));
  uint8_t *o8 = s.alloc(1, "other8"); uint8_t *o16 = s.alloc(2, "other16"); uint8_t *o32 = s.alloc(4, "other32");
  CO_OBJ *arr = (CO_OBJ *)malloc(sizeof(CO_OBJ) * 5);
  arr[0].Key = CO_KEY(0x2000, 1, fl); arr[0].Type = int_type(w); arr[0].Data = direct ? 0 : (CO_DATA)store;
  arr[1].Key = CO_KEY(0x2000, 2, CO_OBJ_____RW); arr[1].Type = CO_TUNSIGNED8; arr[1].Data = (CO_DATA)o8;
  arr[2].Key = CO_KEY(0x2000, 3, CO_OBJ_____RW); arr[2].Type = CO_TUNSIGNED16; arr[2].Data = (CO_DATA)o16;
  arr[3].Key = CO_KEY(0x2000, 4, CO_OBJ_____RW); arr[3].Type = CO_TUNSIGNED32; arr[3].Data = (CO_DATA)o32;
  arr[4].Key = 0; arr[4].Type = 0; arr[4].Data = 0;
  CO_DICT *cod = &s.node->Dict;
  CODictInit(cod, s.node, arr, 5);
  uint32_t key = CO_DEV(0x2000, 1);
  uint32_t maskw = w == 4 ? 0xFFFFFFFFu : (1u << (8 * w)) - 1;
  VLOG(c, "entry: %d-bit %s%s, node id %u, value block %u", 8 * w, direct ? "direct" : "referenced", nid ? " node-id relative" : "", nodeid, block);
  auto one = [&](uint32_t v) {
    CO_ERR e = wr(cod, key, w, v);
    CHECK(c, e == CO_ERR_NONE, "typed-roundtrip", "%d-bit write of %X to a %d-bit entry failed with %d", 8 * w, v, 8 * w, e);
    uint32_t stored = direct ? (uint32_t)arr[0].Data & maskw : (w == 1 ? *(uint8_t *)store : w == 2 ? *(uint16_t *)store : *(uint32_t *)store);
    uint32_t want = nid ? (v - nodeid) & maskw : v;
    CHECK(c, stored == want, nid ? "nodeid-relative-store" : "typed-store", "after writing %X (node id %u) the stored value is %X, expected %X", v, nodeid, stored, want);
    uint32_t g = 0; e = rd(cod, key, w, &g);
    CHECK(c, e == CO_ERR_NONE && g == v, "typed-roundtrip", "read after writing %X returned %X (error %d)", v, g, e);
    // the same value through the other public path: the object API on the entry that the lookup returns (written through one path, read through the other)
    if ((v ^ (v >> 8)) % 3 == 0) {
      edge_reset(); CO_OBJ *ent = CODictFind(cod, key); CHECK(c, ent == &arr[0], "lookup-iff-exists", "CODictFind(2000:01) did not return the entry");
      uint32_t x = 0xEEEEEEEEu; edge_reset(); e = COObjRdValue(ent, s.node, &x, (uint8_t)w); x &= maskw;
      CHECK(c, e == CO_ERR_NONE && x == v, "typed-roundtrip", "COObjRdValue after CODictWr of %X returned %X (error %d)", v, x, e);
      uint32_t v2 = (v * 2654435761u + 0x9E37u) & maskw, y = v2; edge_reset(); e = COObjWrValue(ent, s.node, &y, (uint8_t)w);
      CHECK(c, e == CO_ERR_NONE, "typed-roundtrip", "COObjWrValue of %X to a %d-bit entry failed with %d", v2, 8 * w, e);
      uint32_t st2 = direct ? (uint32_t)arr[0].Data & maskw : (w == 1 ? *(uint8_t *)store : w == 2 ? *(uint16_t *)store : *(uint32_t *)store);
      CHECK(c, st2 == (nid ? (v2 - nodeid) & maskw : v2), nid ? "nodeid-relative-store" : "typed-store", "after COObjWrValue of %X (node id %u) the stored value is %X", v2, nodeid, st2);
      g = 0; e = rd(cod, key, w, &g);
      CHECK(c, e == CO_ERR_NONE && g == v2, "typed-roundtrip", "CODictRd after COObjWrValue of %X returned %X (error %d)", v2, g, e);
      uint32_t sz = COObjGetSize(ent, s.node, (uint32_t)w);
      CHECK(c, sz == (uint32_t)w, "exact-width", "COObjGetSize(width %d) of a %d-bit entry is %u", w, 8 * w, sz);
    }
    c.ops++;
  };
  if (w == 1) for (uint32_t v = 0; v < 256; v++) one(v);
  else if (w == 2) for (uint32_t v = block * 2048; v < block * 2048 + 2048; v++) one(v);
  else {
    static const uint32_t B[12] = {0, 1, 0x7F, 0x80, 0xFF, 0x100, 0xFFFF, 0x10000, 0x7FFFFFFF, 0x80000000u, 0xFFFFFFFEu, 0xFFFFFFFFu};
    for (uint32_t v : B) { one(v); one(v + nodeid); }
    int nr = enumerated ? 0 : 64;
    for (int i = 0; i < nr; i++) one(c.t.u32());
    if (enumerated) { SplitMix r(block * 7919 + kind); for (int i = 0; i < 512; i++) one((uint32_t)r.next()); }
  }
  // exact width: every other width must fail on this entry and leave it untouched; and vice versa on the neighbours
  one(0xA5C3E178u & maskw);
  uint32_t before = direct ? (uint32_t)arr[0].Data : 0; uint8_t raw[4] = {0, 0, 0, 0}; if (!direct) memcpy(raw, store, w);
  for (int ow : {1, 2, 4}) {
    if (ow == w) continue;
    uint32_t g;
    CO_ERR e1 = rd(cod, key, ow, &g);
    CHECK(c, e1 != CO_ERR_NONE, "exact-width", "%d-bit read of a %d-bit entry succeeded", 8 * ow, 8 * w);
    CO_ERR e2 = wr(cod, key, ow, 0x5A5A5A5A);
    CHECK(c, e2 != CO_ERR_NONE, "exact-width", "%d-bit write to a %d-bit entry succeeded", 8 * ow, 8 * w);
    if (direct) CHECK(c, (uint32_t)arr[0].Data == before, "exact-width", "a refused %d-bit write changed the %d-bit entry", 8 * ow, 8 * w);
    else CHECK(c, !memcmp(raw, store, w), "exact-width", "a refused %d-bit write changed the %d-bit entry", 8 * ow, 8 * w);
    c.ops += 2;
  }
  // absent key
  uint32_t g; CHECK(c, rd(cod, CO_DEV(0x2000, 9), w, &g) == CO_ERR_OBJ_NOT_FOUND, "typed-absent", "typed read of an absent entry did not report 'not found'");
  free(arr);
  c.nontrivial = true;
  c.cls(w == 1 ? "typed-8" : w == 2 ? "typed-16" : "typed-32");
  if (nid) c.cls("typed-nodeid-relative");
}
void case_typed_enum(Ctx &c) {
  uint32_t kind = c.t.below(12);
  static const uint8_t NID[4] = {1, 2, 64, 127};
  uint8_t nodeid = NID[c.t.below(4)];
  uint32_t block = ((kind % 3) == 1) ? c.t.below(32) : ((kind % 3) == 2 ? c.t.below(4) : 0);
  typed_case(c, kind, nodeid, block, true);
}
void case_typed_random(Ctx &c) {
  uint32_t kind = c.t.below(12);
  uint8_t nodeid = (uint8_t)(1 + c.t.below(127));
  typed_case(c, kind, nodeid, c.t.below(32), false);
}

// (iv) buffer access on domains and strings
void case_buffer(Ctx &c) {
  Sim s(c); s.init_bare();
  static const uint32_t M[6] = {4, 7, 255, 256, 889, 1024};
  uint32_t size = c.t.biased(1, 4000, M, 6);
  bool is_str = c.t.chance(48);
  CO_OBJ *arr = (CO_OBJ *)malloc(sizeof(CO_OBJ) * 2);
  CO_OBJ_DOM *dom = nullptr; CO_OBJ_STR *str = nullptr; uint8_t *store;
  std::vector<uint8_t> ref(size);
  SplitMix r(c.t.u32());
  for (auto &b : ref) { b = (uint8_t)r.next(); if (is_str && b == 0) b = 1; }
  if (is_str) { str = s.string(std::string((char *)ref.data(), size), "string"); store = str->Start; arr[0].Type = CO_TSTRING; arr[0].Data = (CO_DATA)str; arr[0].Key = CO_KEY(0x2000, 0, CO_OBJ_____R_); }
  else { dom = s.domain(size, "domain"); store = dom->Start; memcpy(store, ref.data(), size); arr[0].Type = CO_TDOMAIN; arr[0].Data = (CO_DATA)dom; arr[0].Key = CO_KEY(0x2000, 0, CO_OBJ_____RW); }
  arr[1].Key = 0; arr[1].Type = 0; arr[1].Data = 0;
  CO_DICT *cod = &s.node->Dict; CODictInit(cod, s.node, arr, 2); CODictObjInit(cod, s.node);
  VLOG(c, "%s of %u bytes", is_str ? "string" : "domain", size);
  uint32_t off = 0; bool big = false; int nops = 1 + (int)c.t.below(6);
  for (int i = 0; i < nops; i++) {
    uint32_t len = c.t.biased(0, 4000, M, 6);
    if (c.t.chance(40)) len = size; else if (c.t.chance(40)) len = size + 1 + c.t.below(8);
    bool start = i == 0 || c.t.coin(), write = !is_str && c.t.coin();
    if (!start && off >= size && c.t.coin()) start = true;
    // a stale offset must not matter for a start
    if (start) { if (dom) dom->Offset = c.t.below(size + 1); if (str) str->Offset = c.t.below(size + 1); off = 0; }
    // "everything that is left": a continued access may ask for up to 2^32-1 bytes; the object's size limits what is moved (derived from values
    // already drawn, no tape choice); the buffer then holds exactly the remaining bytes
    bool rest = !start && (len + size) % 5 == 0; if (rest) c.cls("buffer-continue-asks-for-all-that-is-left");
    uint32_t req = rest ? 0xFFFFFFFFu - (len % 3) : len;
    uint32_t m = std::min(req, size - off);
    uint32_t cap = rest ? m : len;
    uint8_t *buf = (uint8_t *)malloc(cap + 1);   // exact: ASan catches any access beyond cap+1
    edge_reset();
    if (!write) {
      memset(buf, 0xEE, cap + 1);
      CO_ERR e = start ? CODictRdBuffer(cod, CO_DEV(0x2000, 0), buf, req) : COObjRdBufCont(&arr[0], s.node, buf, req);
      VLOG(c, "%s read len %u at offset %u -> %d", start ? "start" : "continue", req, off, e);
      CHECK(c, e == CO_ERR_NONE, "buffer-read", "buffer read (len %u, size %u) failed with %d", req, size, e);
      for (uint32_t k = 0; k < m; k++) CHECK(c, buf[k] == ref[off + k], "buffer-read-exact", "buffer read of %u bytes at offset %u from an object of %u bytes: byte %u is %02X, object holds %02X (exactly min(len, size-offset) = %u bytes must be moved)", req, off, size, k, buf[k], ref[off + k], m);
      for (uint32_t k = m; k < cap + 1; k++) CHECK(c, buf[k] == 0xEE, "buffer-read-exact", "buffer read of %u bytes at offset %u from an object of %u bytes wrote buffer byte %u (only %u bytes may be moved)", req, off, size, k, m);
      CHECK(c, !memcmp(store, ref.data(), size), "buffer-read-exact", "a buffer read changed the object");
    } else {
      for (uint32_t k = 0; k < cap + 1; k++) buf[k] = (uint8_t)r.next();
      CO_ERR e = start ? CODictWrBuffer(cod, CO_DEV(0x2000, 0), buf, req) : COObjWrBufCont(&arr[0], s.node, buf, req);
      VLOG(c, "%s write len %u at offset %u -> %d", start ? "start" : "continue", req, off, e);
      CHECK(c, e == CO_ERR_NONE, "buffer-write", "buffer write (len %u, size %u) failed with %d", req, size, e);
      for (uint32_t k = 0; k < m; k++) ref[off + k] = buf[k];
      for (uint32_t k = 0; k < size; k++) CHECK(c, store[k] == ref[k], "buffer-write-exact", "buffer write of %u bytes at offset %u into an object of %u bytes: object byte %u is %02X, expected %02X (exactly %u bytes must be moved)", req, off, size, k, store[k], ref[k], m);
    }
    off += m; if (len > 255) big = true;
    free(buf); c.ops++;
  }
  free(arr);
  if (big) c.nontrivial = true;
  c.cls(is_str ? "buffer-string" : "buffer-domain"); if (big) c.cls("buffer-len-over-255");
}

Registrar reg(Prop{
    "C06",
    "Cases: (lookup-enum) every sorted, end-marked dictionary over a universe of 8 keys (10 in thorough) x every probe key of the universe plus 8 outside keys x 4 flag variants of the search key, enumerated completely, with a counting type that records type initialisation per entry; "
    "(lookup-random) random dictionaries of 0..400 entries with 4..27 probes each; (typed-enum) every 8-bit value and every 16-bit value (blocks of 2048) and boundary+pseudo-random 32-bit values for each of the 12 entry kinds {8,16,32 bit} x {direct, referenced} x {plain, node-id relative} and node ids {1,2,64,127}, each with wrong-width probes; "
    "(typed-random) the same with node ids 1..127 and random 32-bit values; (buffer) domains/strings of 1..4000 bytes (boundary-biased around 4,7,255,256,889,1024) with start/continue read/write sequences of lengths 0..4000, a fifth of the continued accesses asking for (nearly) 2^32-1 bytes into a buffer that holds exactly what is left of the object. Every dictionary array is an exact-size heap block (ASan red zone behind the end marker). "
    "Non-trivial: lookup with a dictionary of >= 2 entries; any typed case (all write non-zero values); buffer case with a length > 255. Distinct = distinct decoded choice sequence.",
    {
        Mode{"lookup-enum", case_lookup_enum, true, 0, 0, 8, 10, 0, 0},
        Mode{"typed-enum", case_typed_enum, true, 0, 0, 0, 0, 0, 0},
        Mode{"lookup-random", case_lookup_random, false, 2000000, 30000000, 0, 0, 700, 1400},
        Mode{"typed-random", case_typed_random, false, 200000, 3000000, 0, 0, 300, 300},
        Mode{"buffer", case_buffer, false, 3000000, 40000000, 0, 0, 64, 64},
    },
    {"index 0000h is not generated as a search key (not a valid CANopen index; it is the end marker's key)",
     "the exact-width clause is checked between integer entries; domains and strings are exercised through the buffer API only",
     "expected lookup result = linear search over the harness's copy of the dictionary"}});

}  // namespace
