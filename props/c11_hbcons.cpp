// C11 - heartbeat consumer signals exactly the missed heartbeats (DESIGN.md §5 C11)
#include "model/node.h"
using namespace vf;

namespace {

struct ME { int node = 0, time = 0; bool active = false; long due = -1; int events = 0; int state = 0; };
// the nodes that send heartbeats and are asked about: 10..15 and node id 0 (the heartbeat of the 'master node' on identifier 700h - a consumer entry may name it)
int pick_node(Ctx &c) { uint32_t k = c.t.below(7); return k == 6 ? 0 : 10 + (int)k; }
int decode_state(uint8_t s) { return s == 0 ? 1 : s == 127 ? 2 : s == 5 ? 3 : s == 4 ? 4 : 0; }   // CO_MODE numbering, 0 = invalid

void one_case(Ctx &c) {
  Sim s(c); World w(s);
  s.nodeid = (uint8_t)(1 + c.t.below(9));
  // mode other-frequencies: timer clocks that neither divide nor are divided by 1000 Hz as well; every generated time is a whole number of ticks
  uint32_t num = 1, den = 1;
  if (c.param == 1) { static const uint32_t F[7][3] = {{500, 1, 2}, {1500, 3, 2}, {2000, 2, 1}, {2500, 5, 2}, {4000, 4, 1}, {300, 3, 10}, {1250, 5, 4}}; uint32_t k = c.t.below(7); s.freq = F[k][0]; num = F[k][1]; den = F[k][2]; char b[40]; snprintf(b, sizeof b, "timer-frequency-%u-Hz", s.freq); c.cls(b); }
  auto tk = [&](int ms) -> long { return (long)ms * num / den; };
  w.mandatory();
  int nen = 1 + (int)c.t.below(4);
  std::vector<ME> me(nen);
  std::vector<std::pair<uint8_t, uint16_t>> ent;
  for (int i = 0; i < nen; i++) {
    bool on = c.t.coin();
    me[i].time = on ? (c.t.chance(200) ? 2 + (int)c.t.below(10) : 20 + (int)c.t.below(200)) * (int)den : 0;
    me[i].node = on ? 10 + i : 0;                     // statically configured entries name distinct nodes
    me[i].active = on;
    ent.push_back({(uint8_t)me[i].node, (uint16_t)me[i].time});
  }
  std::vector<CO_HBCONS *> hc = add_hbcons(w, ent);
  w.finish();
  CHECK(c, s.init_err == CO_ERR_NONE, "harness", "node initialisation reported error %d", s.init_err);
  SdoClient cl(s, w.req[0], w.rsp[0]);
  VLOG(c, "%d consumer entries", nen);
  int mode = 2; int resets = 0; int writes_after_start = 0; bool monitoring_started = false; int maxactive = 0; bool saturated = false;
  auto tick = [&]() {
    s.clear_ev(); s.step_tick(); long T = s.tick;
    std::vector<int> exp;
    for (auto &m : me) if (m.active && m.due == T) { m.due = T + tk(m.time); if (m.events < 255) m.events++; else saturated = true; exp.push_back(m.node); }
    std::vector<int> got; int changes = 0;
    for (auto &e : s.ev) { if (e.k == EV_HBEVENT) got.push_back((int)e.a); else if (e.k == EV_HBCHANGE) changes++; }
    CHECK(c, changes == 0, "change-only-on-reception", "a state-change notification was given during a timer step");
    std::sort(exp.begin(), exp.end()); std::sort(got.begin(), got.end());
    if (exp != got) {
      std::string a, b; for (int x : exp) a += std::to_string(x) + " "; for (int x : got) b += std::to_string(x) + " ";
      c.fail(got.size() > exp.size() ? "event-without-silence" : "missed-heartbeat-not-signalled", "tick %ld: heartbeat events signalled for nodes [%s], expected [%s]", T, b.c_str(), a.c_str());
    }
  };
  int steps = 0;
  while (!c.t.exhausted() && steps < 250) {
    steps++; c.ops++;
    static const uint16_t W[9] = {40, 10, 30, 22, 8, 8, 4, 4, 6};
    uint32_t op = c.t.weighted(W);
    s.clear_ev(); s.clear_tx();
    if (op == 0) { VLOG(c, "tick -> %ld", s.tick + 1); tick(); }
    else if (op == 1) { uint32_t n = 1 + c.t.below(30); VLOG(c, "%u ticks from %ld", n, s.tick); for (uint32_t i = 0; i < n; i++) tick(); }
    else if (op == 2) {   // heartbeat frame from a monitored or unmonitored node, arbitrary state byte
      int n = pick_node(c); static const uint8_t SB[12] = {0, 127, 5, 4, 0x33, 127, 5, 0x85, 0xFF, 0x80, 0x84, 0x7E}; uint8_t sb = SB[c.t.below(12)];   // incl. defined codes with the reserved bit 7 set: no valid state
      if (mode == 0) continue;
      s.rx(Frame::mk(0x700u + n, 1, {sb}));
      std::vector<std::pair<int, int>> exp;
      for (auto &m : me) if (m.active && m.node == n) { m.due = s.tick + tk(m.time); int st = decode_state(sb); if (st != m.state) exp.push_back({n, st}); m.state = st; monitoring_started = true; break; }
      std::vector<std::pair<int, int>> got; int events = 0, app = 0;
      for (auto &e : s.ev) { if (e.k == EV_HBCHANGE) got.push_back({(int)e.a, (int)e.b}); else if (e.k == EV_HBEVENT) events++; else if (e.k == EV_CANRX) app++; }
      VLOG(c, "heartbeat of node %d, state byte %02X at tick %ld: %zu change notification(s)", n, sb, s.tick, got.size());
      CHECK(c, got == exp, "change-iff-state-differs", "heartbeat of node %d with state byte %02X: %zu state-change notification(s)%s, expected %zu", n, sb, got.size(),
            got.empty() ? "" : (" (node " + std::to_string(got[0].first) + ", state " + std::to_string(got[0].second) + ")").c_str(), exp.size());
      CHECK(c, events == 0, "event-without-silence", "a heartbeat event was signalled on reception of a heartbeat");
    } else if (op == 3) { // write (node, time) to an entry through SDO or the API
      int i = (int)c.t.below(nen); int n = c.t.chance(200) ? pick_node(c) : (int)c.t.below(128);
      int tm = c.t.below(3) == 0 ? 0 : (c.t.chance(200) ? 2 + (int)c.t.below(10) : 20 + (int)c.t.below(200)) * (int)den;
      uint32_t v = (uint32_t)tm | (uint32_t)n << 16;
      bool dup = false; if (tm > 0) for (auto &m : me) if (m.active && m.node == n) dup = true;
      bool api = mode == 4 || c.t.coin();
      std::vector<ME> before = me;
      uint32_t code = 0; CO_ERR err = CO_ERR_NONE;
      if (api) { s.api_begin(); err = CODictWrLong(&s.node->Dict, CO_DEV(0x1016, 1 + i), v); s.api_end("CODictWrLong"); }
      else code = cl.write(0x1016, (uint8_t)(1 + i), v, 4);
      VLOG(c, "write entry %d := (node %d, time %d) via %s -> %s", i + 1, n, tm, api ? "API" : "SDO", api ? (err ? "error" : "ok") : (code ? "abort" : "ok"));
      if (dup) {
        if (api) CHECK(c, err == CO_ERR_OBJ_INCOMPATIBLE, "monitored-node-refused", "API write of (node %d, time %d) to entry %d returned %d although the node is already monitored", n, tm, i + 1, err);
        else CHECK(c, code == 0x06040043u, "monitored-node-refused", "SDO write of (node %d, time %d) to entry %d answered %08X, expected abort 06040043 (node already monitored)", n, tm, i + 1, code);
      } else {
        if (api) CHECK(c, err == CO_ERR_NONE, "valid-write-accepted", "API write of (node %d, time %d) to entry %d failed with %d", n, tm, i + 1, err);
        else CHECK(c, code == 0, "valid-write-accepted", "SDO write of (node %d, time %d) to entry %d refused with %08X", n, tm, i + 1, code);
        me[i].node = n; me[i].time = tm; me[i].active = tm > 0; me[i].due = -1; me[i].events = 0; me[i].state = 0;
      }
      if (monitoring_started) writes_after_start++;
      int ev = 0; for (auto &e : s.ev) if (e.k == EV_HBEVENT || e.k == EV_HBCHANGE) ev++;
      CHECK(c, ev == 0, "write-gives-no-notification", "a write to 1016h produced %d notification(s)", ev);
    } else if (op == 4) { // event counter read
      int n = pick_node(c);
      s.api_begin(); int r = CONmtGetHbEvents(&s.node->Nmt, (uint8_t)n); s.api_end("CONmtGetHbEvents");
      int e = -1; for (auto &m : me) if (m.active && m.node == n) { e = m.events; m.events = 0; }
      VLOG(c, "GetHbEvents(node %d) -> %d", n, r);
      CHECK(c, r == e, "event-counter", "CONmtGetHbEvents(node %d) returned %d, expected %d (saturating at 255, cleared by reading)", n, r, e);
    } else if (op == 5) { // last state
      int n = pick_node(c);
      s.api_begin(); int r = (int)CONmtLastHbState(&s.node->Nmt, (uint8_t)n); s.api_end("CONmtLastHbState");
      int e = 0; for (auto &m : me) if (m.active && m.node == n) e = m.state;
      CHECK(c, r == e, "last-state", "CONmtLastHbState(node %d) returned %d, expected %d", n, r, e);
    } else if (op == 6) { // run until k further expiries of an armed entry, so that the saturation at 255 is reached
      int k = c.t.coin() ? 250 + (int)c.t.below(50) : 1 + (int)c.t.below(40);
      int best = -1; for (int i = 0; i < nen; i++) if (me[i].active && me[i].due >= 0 && (best < 0 || me[i].time < me[best].time)) best = i;
      if (best < 0) continue;
      long n = (long)k * tk(me[best].time); if (n > 4000) n = 4000;
      VLOG(c, "run %ld ticks (about %d expiries of entry %d)", n, k, best + 1);
      for (long i = 0; i < n; i++) tick();
    } else if (op == 7) { // NMT state change: consumption continues in PRE-OP, OPERATIONAL and STOPPED
      uint32_t m = c.t.below(5);
      if (m < 3) { s.rx(Frame::mk(0, 2, {(uint8_t)(m == 0 ? 1 : m == 1 ? 128 : 2), 0})); mode = m == 0 ? 3 : m == 1 ? 2 : 4; VLOG(c, "NMT -> mode %d", mode); }
      else {   // NMT reset communication / node: every configured entry is activated afresh - monitoring starts again with the first heartbeat, counters and last states are cleared,
               // and nothing of the earlier monitoring (a running supervision time) may survive
        s.rx(Frame::mk(0, 2, {(uint8_t)(m == 3 ? 130 : 129), 0})); mode = 2; resets++;
        for (auto &x : me) { x.active = x.time > 0; x.due = -1; x.events = 0; x.state = 0; }
        VLOG(c, "NMT reset %s at tick %ld", m == 3 ? "communication" : "node", s.tick);
      }
    } else {              // read an entry back through SDO
      if (mode == 4) continue;
      int i = (int)c.t.below(nen); uint32_t v = 0; uint32_t code = cl.read(0x1016, (uint8_t)(1 + i), &v);
      uint32_t e = (uint32_t)me[i].time | (uint32_t)me[i].node << 16;
      CHECK(c, code == 0 && v == e, "entry-readback", "reading entry %d returned %08X (abort %08X), expected %08X", i + 1, v, code, e);
    }
    int na = 0; for (auto &m : me) na += m.active; if (na > maxactive) maxactive = na;
    for (int i = 0; i < nen; i++)
      CHECK(c, hc[i]->Time == me[i].time && hc[i]->NodeId == me[i].node, "entry-unchanged-unless-accepted", "entry %d holds (node %d, time %d), expected (node %d, time %d)", i + 1, hc[i]->NodeId, hc[i]->Time, me[i].node, me[i].time);
  }
  if (maxactive >= 2 && writes_after_start >= 1) c.nontrivial = true;
  if (maxactive >= 2) c.cls("two-or-more-active-entries");
  if (writes_after_start) c.cls("write-after-monitoring-started");
  if (saturated) c.cls("counter-saturated-at-255");
  if (resets) c.cls("nmt-reset-in-history");
}

Registrar reg(Prop{
    "C11",
    "Cases: 1016h with 1..4 entries, each initially configured (distinct nodes, time 2..220 ms) or empty; histories of up to 250 ops: ticks (single, bursts of 1..30, 'run until about k expiries' with k up to 300 so that the saturation at 255 is reached), heartbeat frames from monitored and unmonitored nodes (node ids 10..15 and 0) with arbitrary state bytes, "
    "SDO/API writes of (node,time) to any entry (node already monitored by this/another entry, time 0 / non-zero, re-targeting an active entry), CONmtGetHbEvents, CONmtLastHbState, SDO read-back, NMT state changes. "
    "Oracle: reference monitor per entry: armed by the first heartbeat, event callback + counter exactly at last_hb + T and every further T, counter saturating at 255 and cleared by reading, change callback iff the decoded state differs, write rules (0604 0043h and nothing changes / time 0 deactivates exactly that entry), other entries' schedules undisturbed. "
    "Non-trivial: >= 2 entries active at some point and >= 1 write after monitoring had started. Distinct = distinct decoded choice sequence.",
    {Mode{"random", one_case, false, 1500000, 20000000, 0, 0, 300, 500},
     Mode{"other-frequencies", one_case, false, 300000, 5000000, 1, 1, 300, 500}},
    {"timer frequency 1000 Hz (1 ms = 1 tick); mode other-frequencies: 300, 500, 1250, 1500, 2000, 2500 or 4000 Hz with consumer times that are whole numbers of ticks", "a state byte other than 00h, 04h, 05h, 7Fh - including these codes with the reserved bit 7 set - is no valid state (reported as CO_INVALID), as CONmtModeDecode documents", "a write that re-targets the entry's own node with a non-zero time counts as 'node already monitored' (as in the implementation and the statement's wording)"}});

}  // namespace
