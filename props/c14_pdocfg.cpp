// C14 - PDO reconfiguration keeps every accepted configuration valid (DESIGN.md §5 C14)
#include "model/node.h"
using namespace vf;

namespace {

struct Cfg { uint32_t id; uint8_t type, num; uint32_t map[8]; };

}  // namespace

// also run as a mode of C04 (the mapping abort codes 0604 0041h/0042h belong to C04's statement and need PDO objects)
void vf::c14_case(Ctx &c) {
  Sim s(c); World w(s);
  s.nodeid = (uint8_t)(1 + c.t.below(127));
  w.mandatory();
  // candidate objects: mappable RW 8/16/32, mappable read-only, mappable write-only, not mappable
  struct O { uint8_t sub; int bytes; bool map, rd, wr; } OB[6] = {{1, 1, true, true, true}, {2, 2, true, true, true}, {3, 4, true, true, true}, {4, 1, true, true, false}, {5, 1, true, false, true}, {6, 1, false, true, true}};
  for (auto &o : OB) w.add_int(0x2100, o.sub, o.bytes, false, false, o.rd, o.wr, 0x11u * o.sub, o.map, false);
  int nsub = 4 + (int)c.t.below(5);
  int tp = (int)c.t.below(CO_TPDO_N < 4 ? CO_TPDO_N : 4), rp = (int)c.t.below(CO_RPDO_N < 4 ? CO_RPDO_N : 4);      // which TPDO / RPDO channel the node has (parameter objects 1800h+tp, 1A00h+tp, 1400h+rp, 1600h+rp)
  uint32_t tbase = 0x180u + 0x100u * (uint32_t)tp + s.nodeid, rbase = 0x200u + 0x100u * (uint32_t)rp + s.nodeid;
  TpdoCfg tc = add_tpdo(w, tp, 0xC0000000u | tbase, 254, 0, 0, {}, nsub);
  RpdoCfg rc = add_rpdo(w, rp, 0x80000000u | rbase, 254, {}, nsub);
  add_sync(w, 0x80, 0);
  // mode with-witness-tpdo (param 2): a second TPDO on another channel, valid, event-driven, mapping an asynchronous object of its own - nobody reconfigures it,
  // so whatever a client does to the first one, it is sent exactly when its object changes in OPERATIONAL and answers no SYNC
  const bool wit = c.param == 2; int tw = -1; uint32_t wbase = 0; int wit_probes = 0;
  if (wit) { tw = (tp + 1 + (int)c.t.below(3)) % 4; wbase = 0x180u + 0x100u * (uint32_t)tw + s.nodeid;
    w.add_int(0x2100, 7, 1, false, false, true, true, 0x77, true, true); add_tpdo(w, tw, 0x40000000u | wbase, 254, 0, 0, {MAPENT(0x2100, 7, 8)}, 1); }
  w.finish();
  TObj *ob[6]; for (int i = 0; i < 6; i++) ob[i] = w.lookup(0x2100, OB[i].sub);
  SdoClient cl(s, w.req[0], w.rsp[0]);
  Cfg st[2], ac[2]; bool act[2] = {false, false};
  memset(st, 0, sizeof st); memset(ac, 0, sizeof ac);
  st[0].id = 0xC0000000u | tbase; st[0].type = 254; st[1].id = 0x80000000u | rbase; st[1].type = 254;
  int mode = 2; int accepted = 0, refused = 0; bool activated_after = false;
  // mode with-inhibit (param 1): the inhibit time is written with non-zero values too, for any transmission type, and a few ticks may pass; a transmission the
  // inhibit time may be holding back is not constrained (the statement does not say how an inhibit time applies), everything else is
  const bool winh = c.param == 1; bool sent_recently = false, inh_seen = false; int tickops = 0, inh_holds = 0;
  Cfg rp_cfg; memset(&rp_cfg, 0, sizeof rp_cfg);
  int synccnt = 0; bool rpend = false, sync_probed = false, timing_written = false;   // SYNCs counted since the TPDO's activation; a synchronous RPDO frame may be buffered
  auto findobj = [&](uint32_t m) -> int { for (int i = 0; i < 6; i++) if ((m >> 8) == ((0x2100u << 8) | OB[i].sub)) return i; return -1; };
  auto verdict = [&](uint32_t code, bool refuse, uint32_t want, const char *what, uint32_t val) {
    if (refuse) { CHECK(c, code != 0, "precondition-enforced", "%s := %08X was accepted although the CiA 301 preconditions do not hold", what, val); if (want) CHECK(c, code == want, "abort-code", "%s := %08X refused with %08X, expected %08X", what, val, code, want); refused++; }
    else { CHECK(c, code == 0, "allowed-write-accepted", "%s := %08X refused with %08X although all preconditions hold", what, val, code); accepted++; }
  };
  auto stored_equal = [&]() {
    Cfg g[2]; g[0].id = *tc.id; g[0].type = *tc.type; g[0].num = *tc.num; g[1].id = *rc.id; g[1].type = *rc.type; g[1].num = *rc.num;
    for (int i = 0; i < 8; i++) { g[0].map[i] = i < nsub ? *tc.map[i] : 0; g[1].map[i] = i < nsub ? *rc.map[i] : 0; }
    for (int k = 0; k < 2; k++) {
      CHECK(c, g[k].id == st[k].id && g[k].type == st[k].type && g[k].num == st[k].num, "stored-value-unchanged-on-refusal", "%s communication/count parameters hold id %08X type %u count %u, expected id %08X type %u count %u", k ? "RPDO" : "TPDO", g[k].id, g[k].type, g[k].num, st[k].id, st[k].type, st[k].num);
      for (int i = 0; i < nsub; i++) CHECK(c, g[k].map[i] == st[k].map[i], "stored-value-unchanged-on-refusal", "%s mapping entry %d holds %08X, expected %08X", k ? "RPDO" : "TPDO", i + 1, g[k].map[i], st[k].map[i]);
    }
  };
  auto load = [&](int k) { ac[k] = st[k]; act[k] = true; if (accepted && refused) activated_after = true; if (k == 0) synccnt = 0;
    int tot = 0; for (int i = 0; i < ac[k].num; i++) { if (ac[k].map[i] == 0) continue;   /* entry never configured (initial dictionary content, not something a client wrote) */
      CHECK(c, findobj(ac[k].map[i]) >= 0, "activated-mapping-valid", "activated %s maps the non-existent object %08X", k ? "RPDO" : "TPDO", ac[k].map[i]); tot += (ac[k].map[i] & 0xFF) >> 3; }
    CHECK(c, tot <= 8, "activated-mapping-valid", "activated %s maps %d bytes", k ? "RPDO" : "TPDO", tot); };
  int steps = 0;
  while (!c.t.exhausted() && steps < (c.thorough ? 140 : 70)) {
    steps++; c.ops++;
    int k = (int)c.t.below(2); uint16_t com = (uint16_t)(k ? 0x1400 + rp : 0x1800 + tp), mp = (uint16_t)(k ? 0x1600 + rp : 0x1A00 + tp);
    static const uint16_t W[9] = {22, 8, 22, 30, 8, 6, 6, 8, 6}, WI[10] = {22, 10, 16, 22, 8, 10, 4, 14, 8, 6}, WW[11] = {22, 10, 18, 24, 8, 6, 4, 10, 4, 0, 14};
    uint32_t op = wit ? c.t.weighted(WW) : winh ? c.t.weighted(WI) : c.t.weighted(W);
    if (winh && k == 1 && op <= 3 && c.t.chance(150)) k = 0, com = (uint16_t)(0x1800 + tp), mp = (uint16_t)(0x1A00 + tp);   // this mode is about the TPDO
    s.clear_tx();
    if (op == 0) {        // COB-ID
      uint32_t base = k ? rbase : tbase;
      uint32_t nid = (c.t.chance(60) ? base + 1 : base) | (c.t.coin() ? 0x80000000u : 0) | (k ? (c.t.chance(30) ? 0x40000000u : 0) : (c.t.chance(220) ? 0x40000000u : 0)) | (c.t.chance(25) ? 0x20000000u : 0);
      uint32_t code = cl.write(com, 1, nid, 4);
      bool refuse = false, either = false;
      if (nid & 0x20000000u) refuse = true;                                        // extended identifiers are refused
      else if (!k && !(nid & 0x40000000u)) refuse = true;                          // RTR-allowed is refused (TPDO)
      else if (!(st[k].id & 0x80000000u) && !(nid & 0x80000000u)) { refuse = true; if ((nid & 0x7FFFFFFFu) == (st[k].id & 0x7FFFFFFFu)) either = true; }   // valid -> valid: bits 0..29 may not change; identical value: refused or accepted, nothing changes
      VLOG(c, "%s COB-ID := %08X -> %08X", k ? "RPDO" : "TPDO", nid, code);
      if (either) { if (code == 0) { st[k].id = nid; accepted++; if (mode == 3) load(k); } else refused++; }
      else { verdict(code, refuse, 0, k ? "1400h:1" : "1800h:1", nid);   /* the statement names no abort code for COB-ID refusals */ if (!refuse) { st[k].id = nid; if (mode == 3) load(k); } }
    } else if (op == 1) { // transmission type
      static const uint8_t TT[6] = {254, 255, 1, 0, 240, 241}; uint8_t nt = TT[c.t.below(6)];
      uint32_t code = cl.write(com, 2, nt, 1);
      bool refuse = !(st[k].id & 0x80000000u);
      VLOG(c, "%s type := %u -> %08X", k ? "RPDO" : "TPDO", nt, code);
      verdict(code, refuse, 0, k ? "1400h:2" : "1800h:2", nt); if (!refuse) st[k].type = nt;
    } else if (op == 2) { // mapping count
      uint8_t n = (uint8_t)c.t.below(10);
      uint32_t code = cl.write(mp, 0, n, 1);
      bool refuse = false; uint32_t want = 0;
      if (!(st[k].id & 0x80000000u)) refuse = true;
      else if (n > 8) { refuse = true; want = 0x06040042u; }
      else { int sum = 0; for (int i = 0; i < n; i++) { if (i >= nsub) { refuse = true; want = 0x06040041u; break; } sum += (st[k].map[i] & 0xFF) >> 3; } if (!refuse && sum > 8) { refuse = true; want = 0x06040042u; } }
      VLOG(c, "%s mapping count := %u -> %08X", k ? "RPDO" : "TPDO", n, code);
      verdict(code, refuse, want, k ? "1600h:0" : "1A00h:0", n); if (!refuse) st[k].num = n;
    } else if (op == 3) { // mapping entry
      int i = (int)c.t.below(nsub); uint32_t kk = c.t.below(9); uint32_t m;
      if (kk < 6) { int by = OB[kk].bytes; if (c.t.chance(40)) by = (int[]){1, 2, 4, 8}[c.t.below(4)]; m = (0x2100u << 16) | ((uint32_t)OB[kk].sub << 8) | (uint32_t)(by * 8); }
      else if (kk == 6) m = 0x30000108; else if (kk == 7) m = 0x21000908; else m = 0x21000340;   // absent index, absent sub-index, 64 bit
      uint32_t code = cl.write(mp, (uint8_t)(1 + i), m, 4);
      bool refuse = false; uint32_t want = 0; int o = findobj(m);
      if (!(st[k].id & 0x80000000u) || st[k].num != 0) refuse = true;
      else if (o < 0 || !OB[o].map || (k ? !OB[o].wr : !OB[o].rd)) { refuse = true; want = 0x06040041u; }
      VLOG(c, "%s mapping entry %d := %08X -> %08X", k ? "RPDO" : "TPDO", i + 1, m, code);
      verdict(code, refuse, want, k ? "1600h:n" : "1A00h:n", m); if (!refuse) st[k].map[i] = m;
    } else if (op == 4) { // NMT start / pre-operational
      int nm = mode == 3 ? 2 : 3; s.rx(Frame::mk(0, 2, {(uint8_t)(nm == 3 ? 1 : 128), 0})); mode = nm; VLOG(c, "NMT -> mode %d", nm);
      if (nm == 3) { load(0); load(1); }
    } else if (op == 5) { // TPDO activation probe
      if (mode != 3) continue;
      SplitMix r(c.t.u16()); for (int i = 0; i < 4; i++) { uint8_t b[4]; uint32_t v = (uint32_t)r.next(); memcpy(b, &v, 4); memcpy(ob[i]->store, b, ob[i]->width); }
      s.clear_tx(); s.api_begin(); COTPdoTrigPdo(s.node->TPdo, (uint16_t)tp); s.api_end("COTPdoTrigPdo");
      bool consistent = true; int tot = 0; for (int i = 0; i < ac[0].num; i++) { int o = findobj(ac[0].map[i]); int by = (ac[0].map[i] & 0xFF) >> 3; if (o < 0 || by != OB[o].bytes) consistent = false; tot += by; }
      int e = act[0] && !(ac[0].id & 0x80000000u) ? 1 : 0;
      VLOG(c, "probe: trigger TPDO -> %zu frame(s)", s.tx.size());
      if (winh && e == 1) { if (*tc.inhibit != 0) inh_seen = true; if (inh_seen && sent_recently) { e = (int)s.tx.size() <= 1 ? (int)s.tx.size() : 1; inh_holds++; } sent_recently = true; }
      CHECK(c, (int)s.tx.size() == e, "takes-effect-as-stored", "triggering the TPDO (activated COB-ID %08X): %zu frame(s), expected %d", ac[0].id, s.tx.size(), e);
      if (e && consistent && s.tx.size() == 1) {
        uint8_t ex[8]; int p = 0; for (int i = 0; i < ac[0].num; i++) { int o = findobj(ac[0].map[i]); memcpy(ex + p, ob[o]->store, OB[o].bytes); p += OB[o].bytes; }
        CHECK(c, s.tx[0].id == (ac[0].id & 0x7FFu) && s.tx[0].dlc == p && !memcmp(s.tx[0].d, ex, p), "takes-effect-as-stored", "TPDO frame %s does not match the activated configuration (id %03X, %d mapped bytes)", s.tx[0].str().c_str(), ac[0].id & 0x7FF, p);
      }
    } else if (op == 8) { // event time (any value; no time passes in these histories) and inhibit time := 0 of the TPDO: the statement names no precondition for them,
      // so either verdict is admitted - but they must not disturb what the following probes observe
      bool ev = c.t.coin(); uint16_t v = ev ? (uint16_t[]){0, 10, 100, 1000}[c.t.below(4)] : 0;
      if (winh) { if (ev) { if (v == 10) v = 100; } else v = (uint16_t)(10 * c.t.below(6)); }   // inhibit time 0..5 ms; event times stay beyond the ticks a case lets pass
      uint32_t code = cl.write((uint16_t)(0x1800 + tp), ev ? 5 : 3, v, 2);
      VLOG(c, "TPDO %s time := %u -> %08X", ev ? "event" : "inhibit", v, code);
      if (code == 0) timing_written = true;
      if (*tc.inhibit != 0) inh_seen = true;
    } else if (op == 10) { // mode with-witness-tpdo: the witness TPDO's asynchronous object changes
      TObj *wo = w.lookup(0x2100, 7); uint8_t nv = (uint8_t)(wo->store[0] + 1 + c.t.below(200));
      s.clear_tx(); s.api_begin(); CODictWrByte(&s.node->Dict, CO_DEV(0x2100, 7), nv); s.api_end("CODictWrByte");
      int e = mode == 3 ? 1 : 0; VLOG(c, "probe: the witness TPDO's object := %02X -> %zu frame(s)", nv, s.tx.size());
      CHECK(c, (int)s.tx.size() == e, "takes-effect-as-stored", "the asynchronous object of the untouched TPDO %d (COB-ID %03X) changed in mode %d: %zu frame(s), expected %d", tw, wbase, mode, s.tx.size(), e);
      if (e) CHECK(c, s.tx[0].id == wbase && s.tx[0].dlc == 1 && s.tx[0].d[0] == nv, "takes-effect-as-stored", "the untouched TPDO %d sent %s, expected %03X [1] %02X", tw, s.tx[0].str().c_str(), wbase, nv);
      s.clear_tx(); wit_probes++;
    } else if (op == 9) { // mode with-inhibit: 6 ticks pass (every inhibit time of this mode ends, no event time is reached): a transmission that was held back may go out
      if (tickops >= 12) continue; tickops++;
      for (int i = 0; i < 6; i++) s.step_tick();
      VLOG(c, "6 ticks -> %zu frame(s)", s.tx.size());
      CHECK(c, s.tx.size() <= (sent_recently && inh_seen ? 1u : 0u), "takes-effect-as-stored", "%zu frame(s) while 6 ticks passed (%s)", s.tx.size(), sent_recently && inh_seen ? "at most the one transmission the inhibit time held back is expected" : "nothing was held back, no event time is that short");
      sent_recently = !s.tx.empty(); s.clear_tx();   // a transmission released inside these ticks starts its own inhibit time
    } else if (op == 7) { // SYNC activation probe: a synchronous TPDO of type n answers every n-th SYNC since its activation, any other TPDO no SYNC
      if (mode != 3) continue;
      SplitMix r(c.t.u16()); for (int i = 0; i < 4; i++) { uint8_t b[4]; uint32_t v = (uint32_t)r.next(); memcpy(b, &v, 4); memcpy(ob[i]->store, b, ob[i]->width); }
      std::vector<uint8_t> model = s.snapshot();
      uint8_t pre[4][4]; for (int i = 0; i < 4; i++) memcpy(pre[i], ob[i]->store, ob[i]->width);   // the values at the moment of the SYNC: a buffered synchronous RPDO is applied after the TPDOs were sent
      s.clear_tx(); s.rx(Frame::mk(0x80, 0, {}));
      int e = 0;
      if (act[0] && !(ac[0].id & 0x80000000u)) { if (ac[0].type >= 1 && ac[0].type <= 240) { synccnt++; e = synccnt == ac[0].type; if (e) synccnt = 0; } else if (ac[0].type < 254) e = -1; }   // type 0 and reserved types: not constrained
      VLOG(c, "probe: SYNC -> %zu frame(s) (activated TPDO type %u, SYNC count %d)", s.tx.size(), ac[0].type, synccnt);
      if (winh && e == 1) { if (*tc.inhibit != 0) inh_seen = true; if (inh_seen && sent_recently) { e = -1; inh_holds++; CHECK(c, s.tx.size() <= 1, "takes-effect-as-stored", "%zu frames on one SYNC", s.tx.size()); } sent_recently = true; }
      for (int i = 0; i < ac[0].num; i++) if (findobj(ac[0].map[i]) < 0) e = -1;   // a count that covers never-configured (0) entries: the activation fails half-way, not constrained
      if (e >= 0) CHECK(c, (int)s.tx.size() == e, "takes-effect-as-stored", "SYNC with the activated TPDO configuration (COB-ID %08X, type %u, %d SYNC(s) since the last transmission or activation): %zu frame(s), expected %d", ac[0].id, ac[0].type, synccnt, s.tx.size(), e);
      if (e == 1 && s.tx.size() == 1) {
        bool consistent = true; for (int i = 0; i < ac[0].num; i++) { int o = findobj(ac[0].map[i]); int by = (ac[0].map[i] & 0xFF) >> 3; if (o < 0 || by != OB[o].bytes) consistent = false; }
        if (consistent && !rpend) { uint8_t ex[8]; int p = 0; for (int i = 0; i < ac[0].num; i++) { int o = findobj(ac[0].map[i]); if (o < 4) memcpy(ex + p, pre[o], OB[o].bytes); else memcpy(ex + p, ob[o]->store, OB[o].bytes); p += OB[o].bytes; }
          CHECK(c, s.tx[0].id == (ac[0].id & 0x7FFu) && s.tx[0].dlc == p && !memcmp(s.tx[0].d, ex, p), "takes-effect-as-stored", "TPDO frame %s on SYNC does not match the activated configuration (id %03X, %d mapped bytes)", s.tx[0].str().c_str(), ac[0].id & 0x7FF, p); }
      }
      if (!rpend) { std::string d = s.diff_snapshot(model, s.snapshot()); CHECK(c, d.empty(), "takes-effect-as-stored", "a SYNC that follows no reception of a synchronous RPDO changed objects: %s", d.c_str()); }
      else if (rp_cfg.num != ac[1].num || memcmp(rp_cfg.map, ac[1].map, sizeof rp_cfg.map)) {   // the RPDO was re-mapped (and re-activated) since the frame arrived: the frame belongs to a configuration that no longer exists
        std::string d = s.diff_snapshot(model, s.snapshot()); c.cls("sync-after-a-buffered-rpdo-frame-and-a-re-mapping");
        CHECK(c, d.empty(), "takes-effect-as-stored", "a frame buffered under the previous mapping of the RPDO was written to the objects of the mapping activated since: %s", d.c_str()); }
      rpend = false; sync_probed = true;
    } else {              // RPDO activation probe
      if (mode != 3) continue;
      Frame f; f.id = c.t.chance(200) ? rbase : rbase + 1; f.dlc = 8; for (int i = 0; i < 8; i++) f.d[i] = c.t.byte();
      bool consistent = true; for (int i = 0; i < ac[1].num; i++) { int o = findobj(ac[1].map[i]); int by = (ac[1].map[i] & 0xFF) >> 3; if (o < 0 || by != OB[o].bytes) consistent = false; }
      std::vector<uint8_t> model = s.snapshot();
      s.rx(f);
      bool hit = act[1] && ac[1].type > 240 && !(ac[1].id & 0x80000000u) && (ac[1].id & 0x7FFu) == f.id;
      if (act[1] && ac[1].type <= 240 && !(ac[1].id & 0x80000000u) && (ac[1].id & 0x7FFu) == f.id) { rpend = true; rp_cfg = ac[1]; }   // buffered until the next SYNC (its effect is C13's business) - under the mapping that is active now
      VLOG(c, "probe: RPDO frame %s -> %s", f.str().c_str(), hit ? "mapped objects written" : "no effect");
      if (hit && !consistent) continue;
      if (hit) { int p = 0; for (int i = 0; i < ac[1].num; i++) { int o = findobj(ac[1].map[i]); w.expect_write(model, *ob[o], f.d + p, OB[o].bytes); p += OB[o].bytes; } }
      std::string d = s.diff_snapshot(model, s.snapshot());
      CHECK(c, d.empty(), "takes-effect-as-stored", "RPDO frame %s with the activated configuration (id %08X, count %u): %s", f.str().c_str(), ac[1].id, ac[1].num, d.c_str());
    }
    if (winh && (op == 5 || op == 7) && !s.tx.empty()) sent_recently = true;   // whatever made the TPDO transmit (also the unconstrained types) starts its inhibit time
    stored_equal();
  }
  if (accepted && refused && activated_after) c.nontrivial = true;
  if (accepted && refused) c.cls("accepted-and-refused-writes"); if (activated_after) c.cls("activation-after-reconfiguration"); if (sync_probed) c.cls("sync-probe"); if (timing_written) c.cls("event-or-inhibit-time-written"); if (inh_holds) c.cls("transmission-requested-while-an-inhibit-time-may-be-running"); if (wit_probes) c.cls("untouched-second-tpdo-probed");
}

namespace {

Registrar reg(Prop{
    "C14",
    "Cases: node id 1..127, one TPDO and one RPDO on a generated channel number 0..3 (initially invalid, empty mapping, 4..8 mapping sub-indices present) and candidate objects {mappable RW 8/16/32 bit, mappable read-only, mappable write-only, not mappable}; histories of up to 70 (140) expedited SDO writes to 14xx/16xx/18xx/1Axx sub-indices with values from a covering domain "
    "(valid/invalid bit, id change, EXT and RTR bits, types, counts 0..9, entries naming existing / absent index / absent sub-index / non-mappable / wrong-access objects with lengths 8..64 bit), interleaved with writes of the TPDO's event time and inhibit time (:= 0), NMT start / pre-operational and activation probes (trigger the TPDO, send the RPDO frame, send a SYNC). "
    "Oracle: rule model: accepted only under the CiA 301 preconditions of the statement, abort code 0604 0041h / 0604 0042h where the reason is named (otherwise any abort), every refused write leaves all stored values unchanged, clearly allowed writes are accepted, "
    "invariant at each activation (<= 8 mapped bytes, all targets exist), and the activated PDO behaves exactly as the stored configuration (frame identifier/DLC/content, RPDO effect via full snapshot, a synchronous TPDO of type n answers every n-th SYNC since its activation and an event-driven or invalid one none). Mode with-inhibit: the inhibit time is written with 0..5 ms for any transmission type and groups of 6 ticks may pass; a transmission requested while an inhibit time may be running may be sent or held back (at most one frame then goes out when time passes), every other expectation stands - in particular a TPDO that is event-driven or invalid as stored answers no SYNC. "
    "Mode with-witness-tpdo: a second, valid, event-driven TPDO on another channel maps an asynchronous object of its own and is never reconfigured: whatever a client does to the first one, it is sent exactly when its object changes in OPERATIONAL (and the SYNC and trigger probes still see only what the first one owes). "
    "Non-trivial: >= 1 accepted and >= 1 refused write and an activation after them. Distinct = distinct decoded choice sequence.",
    {Mode{"random", vf::c14_case, false, 1000000, 20000000, 0, 0, 300, 600},
     Mode{"with-inhibit", vf::c14_case, false, 400000, 8000000, 1, 1, 300, 600},
     Mode{"with-witness-tpdo", vf::c14_case, false, 400000, 8000000, 2, 2, 300, 600}},
    {"a valid->valid COB-ID write with the identical value may be refused or accepted", "the length field of a mapping entry is not checked against the object width by the statement; activation probes are evaluated for width-consistent mappings only",
     "a refusal whose reason the statement does not name may carry any abort code"}});

}  // namespace
