// C08 - timer pools stay consistent under interrupt preemption and deferred processing (DESIGN.md §5 C08)
// The harness owns COTmrLock/COTmrUnlock: tick-service calls are injected before every lock acquisition,
// after every release and between calls; COTmrProcess is an independent operation.
#include "sim/sim.h"
#include "model/sdo.h"
using namespace vf;

namespace {

struct Act { bool active = false; long lo = 0, hi = 0; uint32_t cyc = 0; int id = -1; };

struct C08 {
  Ctx &c; Sim s;
  std::vector<Act> m;
  long svc = 0;            // service calls so far == s.tick
  long proc_start = 0;
  bool in_process = false, with_clear = false, in_reinit = false;
  int budget = 0;          // injections still allowed in the current operation
  int injected = 0, elapsed_deletes = 0, fired = 0, clears = 0, clears_elapsed = 0, far = 0;
  // mode with-clear: some actions play the part of the stack's own timers (their ids are entered in the node structure where COTmrClear looks
  // for them: heartbeat producer, TPDO event / inhibit, one heartbeat consumer, SYNC producer); COTmrClear must cancel exactly those - pending or
  // elapsed-but-unprocessed alike - and leave the application's actions alone
  CO_HBCONS hbc;
  int16_t *owner_slot(int k) { return k == 0 ? &s.node->Nmt.Tmr : k == 1 ? &s.node->TPdo[0].EvTmr : k == 2 ? &s.node->TPdo[CO_TPDO_N - 1].InTmr : k == 3 ? &hbc.Tmr : &s.node->Sync.Tmr; }
  void stack_fields_init() {
    s.node->Nmt.Tmr = -1; for (int n = 0; n < CO_TPDO_N; n++) { s.node->TPdo[n].EvTmr = -1; s.node->TPdo[n].InTmr = -1; }
    memset(&hbc, 0, sizeof hbc); hbc.Tmr = -1; hbc.Next = 0; s.node->Nmt.HbCons = &hbc; s.node->Sync.Tmr = -1;
  }
  void disown(int id) { for (int k = 0; k < 5; k++) if (*owner_slot(k) == id) *owner_slot(k) = -1; }
  bool owned(int id) { for (int k = 0; k < 5; k++) if (*owner_slot(k) == id) return true; return false; }
  explicit C08(Ctx &cx) : c(cx), s(cx) {}

  int nactive() const { int n = 0; for (auto &a : m) n += a.active; return n; }
  int holder(int id) const { for (size_t k = 0; k < m.size(); k++) if (m[k].active && m[k].id == id) return (int)k; return -1; }

  void one_service(const char *where) {
    svc++;
    s.tick++;
    edge_reset();
    COTmrService(&s.node->Tmr);
    if (in_reinit) return;   // in the middle of a second CONodeInit the lists are being rebuilt: judged when the call has returned
    std::string e = s.tmr_check(in_process);
    CHECK(c, e.empty(), "pool-conservation", "after the service call of tick %ld (%s): %s", svc, where, e.c_str());
  }
  void inject(bool at_lock) {
    if (budget <= 0) return;
    static const uint16_t W[4] = {150, 60, 26, 20};
    uint32_t k = c.t.weighted(W);
    if (k == 0) return;
    budget--;
    uint32_t n = k == 1 ? 1 : k == 2 ? 2 : std::min<uint32_t>(s.tcnt ? s.tcnt : 1, 40);
    VLOG(c, "      <%u service call(s) preempt %s, ticks %ld..%ld>", n, at_lock ? "before lock" : "after unlock", svc + 1, svc + n);
    for (uint32_t i = 0; i < n; i++) one_service(at_lock ? "before a lock acquisition" : "after a lock release");
    injected++;
  }
  static void cb(void *p);
  void on_cb(int tag) {
    CHECK(c, in_process, "callback-context", "callback of tag %d ran outside COTmrProcess", tag);
    CHECK(c, tag >= 0 && tag < (int)m.size(), "callback-arg", "callback with unknown argument");
    Act &a = m[tag];
    VLOG(c, "      callback tag %d (id %d) at tick %ld, window [%ld,%ld]", tag, a.id, svc, a.lo, a.hi);
    CHECK(c, a.active, "no-run-after-delete", "callback of tag %d (id %d) ran at tick %ld although it is not pending (deletion confirmed, or one-shot already run: run twice)", tag, a.id, svc);
    CHECK(c, svc >= a.lo, "not-early-not-twice", "callback of tag %d ran at tick %ld, before its earliest due tick %ld (early, or twice for one expiry)", tag, svc, a.lo);
    fired++;
    if (a.cyc) { a.lo = proc_start + a.cyc; a.hi = svc + a.cyc; }
    else { a.active = false; if (with_clear) disown(a.id); }
  }
  void create(uint32_t st, uint32_t cy) {
    int tag = (int)m.size(); long before = svc;
    s.api_begin();
    int id = COTmrCreate(&s.node->Tmr, st, cy, cb, (void *)(intptr_t)(tag + 1));
    s.api_end("COTmrCreate");
    VLOG(c, "create(start=%u, cycle=%u) -> id %d (tag %d)", st, cy, id, tag);
    bool expectfail = (st == 0 && cy == 0) || nactive() >= (int)s.ntmr;
    CHECK(c, (id < 0) == expectfail, "create-iff-capacity", "create(%u,%u) returned %d with %d of %u slots in use", st, cy, id, nactive(), s.ntmr);
    Act a;
    if (id >= 0) {
      CHECK(c, holder(id) < 0, "create-id-unique", "create returned id %d which a pending action still holds", id);
      uint32_t d = st ? st : cy;
      a.active = true; a.cyc = cy; a.id = id; a.lo = before + d; a.hi = svc + d;
    }
    m.push_back(a);
  }
  void del(int id) {
    int h = holder(id);
    bool was_elapsed = h >= 0 && m[h].hi <= svc;
    VLOG(c, "delete(id %d)%s ...", id, was_elapsed ? "   (action has elapsed, not yet processed)" : "");
    s.api_begin();
    int r = COTmrDelete(&s.node->Tmr, (int16_t)id);
    s.api_end("COTmrDelete");
    VLOG(c, "  ... -> %d", r);
    CHECK(c, (r == 0) == (h >= 0), "delete-result", "delete(id %d) returned %d but the model %s a pending action with this id%s", id, r, h >= 0 ? "has" : "has no",
          was_elapsed ? " (elapsed, unprocessed)" : "");
    if (h >= 0) { m[h].active = false; if (was_elapsed) elapsed_deletes++; if (with_clear) disown(id); }
  }
  void clear() {
    std::vector<int> mine; bool any_elapsed = false;
    for (size_t k = 0; k < m.size(); k++) if (m[k].active && owned(m[k].id)) { mine.push_back((int)k); if (m[k].hi <= svc) any_elapsed = true; }
    VLOG(c, "COTmrClear (%zu stack-owned action(s)%s) ...", mine.size(), any_elapsed ? ", elapsed and not yet processed among them" : "");
    s.api_begin(); COTmrClear(&s.node->Tmr); s.api_end("COTmrClear");
    for (int k : mine) m[k].active = false;
    for (int k = 0; k < 5; k++) CHECK(c, *owner_slot(k) == -1, "clear-forgets-stack-timers", "after COTmrClear the stack still remembers timer id %d (owner %d)", *owner_slot(k), k);
    clears++; if (any_elapsed) clears_elapsed++;
  }
  void process() {
    proc_start = svc;
    VLOG(c, "process {");
    in_process = true; s.api_begin(); COTmrProcess(&s.node->Tmr); s.api_end("COTmrProcess"); in_process = false;
    VLOG(c, "}");
    for (size_t k = 0; k < m.size(); k++)
      CHECK(c, !(m[k].active && m[k].hi <= proc_start), "not-lost", "action tag %zu (id %d) fell due by tick %ld, COTmrProcess began at tick %ld and returned without running it", k, m[k].id, m[k].hi, proc_start);
  }
  void after_op(const char *what) {
    std::string e = s.tmr_check(false);
    CHECK(c, e.empty(), "pool-conservation", "after %s: %s", what, e.c_str());
    CHECK(c, s.timers_used() == nactive(), "slot-accounting", "after %s: %d action slots in use, %d actions pending in the model", what, s.timers_used(), nactive());
  }
};
C08 *g = nullptr;
void C08::cb(void *p) { g->on_cb((int)(intptr_t)p - 1); }

void case_impl(Ctx &c, bool with_clear) {
  C08 x(c); g = &x; x.with_clear = with_clear;
  x.s.ntmr = (uint16_t)(1 + c.t.below(c.thorough ? 16 : 6));
  x.s.init_timer_only();
  if (with_clear) x.stack_fields_init();
  x.s.preempt = [&](bool lock) { x.inject(lock); };
  VLOG(c, "pool=%u", x.s.ntmr);
  int steps = 0;
  while (!c.t.exhausted() && steps < 300) {
    steps++; c.ops++;
    x.budget = (int)c.t.below(4);
    static const uint16_t W[5] = {30, 18, 22, 8, 22}, WC[6] = {30, 18, 22, 8, 22, 10};
    uint32_t op = with_clear ? c.t.weighted(WC) : c.t.weighted(W);   // mode "random" keeps the alphabet the saved witnesses were recorded with
    if (op == 5) { x.clear(); x.after_op("COTmrClear"); }
    else if (op == 0) {
      if (c.param == 1 && c.t.chance(70)) {   // mode far-and-near: legal tick counts around 2^16, 2^31 and 2^32 - 1 next to the short ones
        static const uint32_t MARK[5] = {0x10000u, 0x7FFFFFFFu, 0x80000000u, 0xABA95000u, 0xFFFFFFF0u}; uint32_t m = MARK[c.t.below(5)] - 8 + c.t.below(16);
        x.create(c.t.coin() ? m : 0, c.t.coin() ? m : c.t.below(4)); x.far++;
      } else
      x.create(c.t.below(5), c.t.below(4));
      if (with_clear && x.m.back().active && c.t.coin()) { int k = (int)c.t.below(5); if (*x.owner_slot(k) == -1) { *x.owner_slot(k) = (int16_t)x.m.back().id; VLOG(c, "  (id %d now belongs to the stack, owner %d)", x.m.back().id, k); } }
      x.after_op("create"); }
    else if (op == 1) {
      // bias toward actions that have elapsed but are not processed yet
      std::vector<int> el, act;
      for (auto &a : x.m) if (a.active) { act.push_back(a.id); if (a.hi <= x.svc) el.push_back(a.id); }
      int id;
      uint32_t k = c.t.below(8);
      if (k < 4 && !el.empty()) id = el[c.t.below((uint32_t)el.size())];
      else if (k < 7 && !act.empty()) id = act[c.t.below((uint32_t)act.size())];
      else id = (int)c.t.below(x.s.ntmr + 2) - 1;
      x.del(id); x.after_op("delete");
    } else if (op == 2) { uint32_t n = 1 + c.t.below(3); VLOG(c, "%u service call(s), ticks %ld..%ld", n, x.svc + 1, x.svc + n); for (uint32_t i = 0; i < n; i++) x.one_service("between calls"); }
    else if (op == 3) { uint32_t n = std::min<uint32_t>(x.s.tcnt ? x.s.tcnt : 1, 40); VLOG(c, "%u service call(s) until the next expiry, ticks %ld..%ld", n, x.svc + 1, x.svc + n); for (uint32_t i = 0; i < n; i++) x.one_service("between calls"); }
    else { x.process(); x.after_op("process"); }
  }
  x.budget = 0;
  x.process(); x.after_op("final process");
  if (x.injected > 0 || x.elapsed_deletes > 0) c.nontrivial = true;
  if (x.injected) c.cls("service-injected-at-lock-boundary");
  if (x.elapsed_deletes) c.cls("delete-of-elapsed-unprocessed");
  if (x.fired) c.cls("callback-fired");
  if (!x.injected && !x.elapsed_deletes) c.cls("no-preemption");
  if (x.far) c.cls(x.fired ? "action-2^16..2^32-ticks-away-created-and-callback-fired" : "action-2^16..2^32-ticks-away-created");
  if (x.clears) c.cls("stack-timers-cleared"); if (x.clears_elapsed) c.cls("stack-timer-cleared-while-elapsed-and-unprocessed");
}
// mode node-reinit: a complete node whose application initialises the stack a second time without a power cycle (CONodeInit on the same memory, with or
// without CONodeStop before) while application timers are pending and the hardware timer is armed - the tick interrupt may preempt at every lock
// boundary inside CONodeInit too; afterwards the timer manager is empty and consistent, and goes on working
void case_reinit(Ctx &c) {
  C08 x(c); g = &x;
  x.s.ntmr = (uint16_t)(1 + c.t.below(c.thorough ? 16 : 6));
  x.s.nodeid = (uint8_t)(1 + c.t.below(127));
  World w(x.s); w.mandatory(); w.finish(c.t.coin());
  x.s.clear_tx(); x.s.clear_ev();
  x.s.preempt = [&](bool lock) { x.inject(lock); };
  VLOG(c, "pool=%u, complete node", x.s.ntmr);
  int steps = 0, reinits = 0, reinits_armed = 0, stops = 0;
  while (!c.t.exhausted() && steps < 200) {
    steps++; c.ops++;
    x.budget = (int)c.t.below(4);
    static const uint16_t W[7] = {34, 12, 20, 8, 14, 14, 6};
    uint32_t op = c.t.weighted(W);
    if (op == 6) {   // CONodeStop alone: it ends the communication, not the application's timed actions - they stay pending and go on firing (COTmrClear: "the timers created by the application will still be active")
      VLOG(c, "CONodeStop (%d application action(s) pending)", x.nactive());
      x.s.api_begin(); CONodeStop(x.s.node); x.s.api_end("CONodeStop"); x.s.clear_tx(); x.s.clear_ev(); stops++;
      x.after_op("CONodeStop");
    } else
    if (op == 0) { x.create(c.t.below(5), c.t.below(4)); x.after_op("create"); }
    else if (op == 1) { std::vector<int> act; for (auto &a : x.m) if (a.active) act.push_back(a.id); int id = !act.empty() && c.t.chance(200) ? act[c.t.below((uint32_t)act.size())] : (int)c.t.below(x.s.ntmr + 2) - 1; x.del(id); x.after_op("delete"); }
    else if (op == 2) { uint32_t n = 1 + c.t.below(3); VLOG(c, "%u service call(s)", n); for (uint32_t i = 0; i < n; i++) x.one_service("between calls"); }
    else if (op == 3) { uint32_t n = std::min<uint32_t>(x.s.tcnt ? x.s.tcnt : 1, 40); for (uint32_t i = 0; i < n; i++) x.one_service("between calls"); }
    else if (op == 4) { x.process(); x.after_op("process"); }
    else {
      bool stop = c.t.coin(); bool armed = x.s.tcnt > 0;
      VLOG(c, "%sCONodeInit on the same memory (%d action(s) pending, hardware timer %s) ...", stop ? "CONodeStop, " : "", x.nactive(), armed ? "armed" : "idle");
      x.in_reinit = true;
      if (stop) { x.s.api_begin(); CONodeStop(x.s.node); x.s.api_end("CONodeStop"); }
      x.s.reinit();
      x.in_reinit = false;
      for (auto &a : x.m) a.active = false;     // the timer manager starts afresh: nothing is pending, nothing will fire
      x.s.clear_tx(); x.s.clear_ev(); reinits++; if (armed) reinits_armed++;
      x.after_op("the second CONodeInit");
      CHECK(c, x.s.tcnt == 0, "pool-conservation", "after the second CONodeInit nothing is pending, but the hardware timer is armed with %u tick(s)", x.s.tcnt);
    }
  }
  x.budget = 0; x.process(); x.after_op("final process");
  if (x.injected > 0 || reinits_armed > 0) c.nontrivial = true;
  if (x.injected) c.cls("service-injected-at-lock-boundary");
  if (stops) c.cls("node-stopped-with-application-actions-pending");
  if (reinits) c.cls("second-initialisation-on-the-same-memory"); if (reinits_armed) c.cls("second-initialisation-with-the-hardware-timer-armed");
  if (x.fired) c.cls("callback-fired");
}
void case_random(Ctx &c) { case_impl(c, false); }
void case_clear(Ctx &c) { case_impl(c, true); }

Registrar reg(Prop{
    "C08",
    "Cases are task-level operation sequences {create, delete (biased to elapsed-but-unprocessed actions), service ticks, process} on the real timer manager (pool 1..6, 1..16 in thorough) together with a schedule: "
    "at every preemption point the harness owns (before each COTmrLock acquisition, after each COTmrUnlock release, between calls) the tape decides how many tick-service calls preempt (0, 1, 2, until-next-expiry). "
    "Mode with-clear adds COTmrClear (what an NMT reset and CONodeStop call): half of the created actions are entered in the node structure as the stack's own timers (heartbeat producer, TPDO event/inhibit, a heartbeat consumer, SYNC producer); COTmrClear must cancel exactly those - pending or elapsed-but-unprocessed - forget their ids, and leave the application's actions alone. "
    "Mode node-reinit: a complete node; the application initialises the stack a second time on the same memory (CONodeStop or not, then CONodeInit) while application timers are pending and the hardware timer is armed, with preemption at the lock boundaries inside CONodeInit as well; afterwards nothing is pending, the pool is whole and the manager goes on working. Mode far-and-near: a quarter of the created actions lie around 2^16, 2^31 or 2^32-1 ticks ahead. Oracle: interval reference model (admissible due window per expiry) + pool walk after every call and every injected service. "
    "Non-trivial: at least one service call was injected at a lock boundary, or a delete hit an elapsed-but-unprocessed action. Distinct = distinct decoded choice sequence.",
    {Mode{"random", case_random, false, 3000000, 100000000, 0, 0, 260, 500},
     Mode{"with-clear", case_clear, false, 800000, 20000000, 0, 0, 260, 500},
     Mode{"far-and-near", case_random, false, 500000, 10000000, 1, 1, 260, 500},
     Mode{"node-reinit", case_reinit, false, 300000, 6000000, 0, 0, 260, 500}},
    {"the tick service is never injected while the lock is held (that is the contract COTmrLock/COTmrUnlock implement)",
     "timer driver = down counter as in drv_timer_swcycle.c",
     "while COTmrProcess runs, actions being dispatched may be linked nowhere: action-slot conservation is then checked as an upper bound, time-slot conservation exactly"}});

}  // namespace
