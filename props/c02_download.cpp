// C02 - a confirmed SDO download leaves exactly the client's bytes in the object (DESIGN.md §5 C02)
#include "model/sdo.h"
using namespace vf;

namespace {

const uint32_t MARKS[8] = {4, 7, 8, 14, 889, 890, 896, 1778};

struct Setup {
  Sim s; World w;
  TObj *junk32 = nullptr, *junkdom = nullptr; int hi0 = -1;
  explicit Setup(Ctx &c) : s(c), w(s) {}
  void build(Ctx &c) {
    s.nodeid = (uint8_t)(1 + c.t.below(127));
    w.mandatory();
    int sub = 1; SplitMix iv(c.t.u16());
    for (int width : {1, 2, 4}) for (int direct = 0; direct < 2; direct++) for (int nid = 0; nid < 2; nid++)
      w.add_int(0x2000, (uint8_t)sub++, width, direct, nid, true, true, (uint32_t)iv.next());
    w.add_domain(0x2100, 0, c.t.chance(90) ? 890 + c.t.below((c.thorough ? 4000 : 2000) - 889) : c.t.biased(1, c.thorough ? 4000 : 2000, MARKS, 8), true, true, (uint32_t)iv.next());
    w.add_domain(0x2101, 0, c.t.biased(1, 64, MARKS, 3), true, true, (uint32_t)iv.next());
    junk32 = &w.add_int(0x2200, 0, 4, false, false, true, true, 0x12345678);
    junkdom = &w.add_domain(0x2201, 0, 50, true, true, 77);
    // mode wide-dictionary: writable objects in the network-variable area and at the top of the index space, 8000h and more indices away from the rest
    // ... and the SDO client records 1280h.. with COB-ID entries of type CO_TSDO_ID, both still switched off (80000000h, the CiA 301 default), as the
    // repository's own dictionaries declare them: the application may prepare its client (write a COB-ID that keeps it off) between any two frames of a download
    if (c.param == 1) for (int k = 0; k < CO_CSDO_N; k++) {
      s.add(CO_KEY(0x1280 + k, 0, CO_OBJ_D___R_), CO_TUNSIGNED8, 3);
      s.add(CO_KEY(0x1280 + k, 1, CO_OBJ_____RW), CO_TSDO_ID, (CO_DATA)s.var<uint32_t>("128x:1", 0x80000000u));
      s.add(CO_KEY(0x1280 + k, 2, CO_OBJ_____RW), CO_TSDO_ID, (CO_DATA)s.var<uint32_t>("128x:2", 0x80000000u));
      s.add(CO_KEY(0x1280 + k, 3, CO_OBJ_____RW), CO_TUNSIGNED8, (CO_DATA)s.var<uint8_t>("128x:3", (uint8_t)(0x20 + k)));
    }
    if (c.param == 1) { hi0 = (int)w.objs.size(); w.add_domain(0xA100, 0, c.t.biased(1, 1200, MARKS, 8), true, true, (uint32_t)iv.next()); w.add_int(0xA200, 1, 4, false, true, true, true, (uint32_t)iv.next());
      w.add_int(0xA200, 2, 2, true, false, true, true, (uint32_t)iv.next()); w.add_int(0xFFFE, 0, 1, false, false, true, true, (uint32_t)iv.next()); w.add_int(0x9000, 0, 4, false, false, true, true, (uint32_t)iv.next()); }
    w.finish();
    junk32 = w.lookup(0x2200, 0); junkdom = w.lookup(0x2201, 0);
  }
};

void case_impl(Ctx &c, bool prefix) {
  Setup S(c); S.build(c);
  Sim &s = S.s; World &w = S.w;
  SdoClient cl(s, w.req[0], w.rsp[0]);
  int junk_frames = 0;
#if CO_SSDO_N > 1
  SdoClient other(s, w.req[1], w.rsp[1]);
  bool interleave = c.t.coin();
  if (interleave) cl.between = [&]() {
    if (!c.t.chance(70)) return;
    // traffic on the second server addressing OTHER objects; its answers are not this property's business
    std::vector<Frame> keep = s.tx;
    uint32_t k = c.t.below(8); Frame f;
    if (k == 0) f = other.mk(0x23, 0x2200, 0, c.t.u32());
    else if (k == 1) f = other.mk(0x40, 0x2201, 0, 0);
    else if (k == 2) { f = other.mk(0x60, 0, 0, 0); f.d[0] = (uint8_t)(0x60 | (c.t.below(2) << 4)); }
    else if (k == 3) f = other.mk(0x21, 0x2201, 0, 50);
    else if (k == 4) { f = other.mk(0, 0, 0, 0); f.d[0] = (uint8_t)(c.t.below(2) << 4); for (int i = 1; i < 8; i++) f.d[i] = c.t.byte(); }
    else if (k == 5) f = other.mk(0xA0, 0x2201, 0, 5);
    else if (k == 6) f = other.mk(0x80, 0x2201, 0, 0x08000000);
    else { f = other.mk(c.t.byte(), 0x2201, 0, c.t.u32()); }
    VLOG(c, "  [server 2] -> %s", f.str().c_str());
    s.clear_tx(); s.rx(f);
    for (auto &t : s.tx) CHECK(c, t.id != w.rsp[0], "servers-independent", "traffic on the second server made the first server send %s", t.str().c_str());
    s.tx = keep; junk_frames++;
  };
#endif
  int client_writes = 0;
  if (c.param == 1) { auto prev = cl.between; cl.between = [&, prev]() {
      if (prev) prev();
      if (!c.t.chance(36)) return;
      int k = CO_CSDO_N > 1 ? (int)c.t.below(2) : 0; uint8_t sub = (uint8_t)(1 + c.t.below(2)); uint32_t v = 0x80000000u | ((sub == 1 ? 0x600u : 0x580u) + 0x20 + c.t.below(4));
      s.api_begin(); CO_ERR e = CODictWrLong(&s.node->Dict, CO_DEV(0x1280 + k, sub), v); s.api_end("CODictWrLong");
      CHECK(c, e == CO_ERR_NONE, "harness", "CODictWrLong(%04Xh:%u, %08X) failed with %d", 0x1280 + k, sub, v, (int)e);
      VLOG(c, "  (the application writes %08X to %04Xh:%u - its SDO client stays switched off)", v, 0x1280 + k, sub); client_writes++; }; }
  int ntransfers = 1 + (int)c.t.below(c.thorough ? 4 : 3);
  bool nt = false;
  int prefixes = 0;
  for (int tr = 0; tr < ntransfers && !c.t.exhausted(); tr++) {
    // mode after-server-abort: the transfer before this one was a segmented upload which the SERVER ended with a toggle error after k segments
    // (the client then starts its next transfer, as a conforming client does): nothing of it may leak into the download under test
    if (prefix && c.t.chance(150) && w.objs[12].size > 21) {
      TObj &po = w.objs[12]; int k = 1 + (int)c.t.below(2); std::vector<Frame> keep = s.tx;
      s.clear_tx(); s.rx(cl.mk(0x40, po.idx, po.sub, 0));
      for (int i = 0; i < k; i++) { Frame q = cl.mk((uint8_t)(0x60 | ((i & 1) << 4)), 0, 0, 0); s.rx(q); }
      s.clear_tx(); Frame bad = cl.mk((uint8_t)(0x60 | (((k & 1) ^ 1) << 4)), 0, 0, 0); s.rx(bad);     // wrong toggle
      bool ab = false; for (auto &t : s.tx) if (t.id == w.rsp[0] && t.d[0] == 0x80 && t.u32(4) == 0x05030000u) ab = true;
      CHECK(c, ab, "dl-init-response", "a segment request with the wrong toggle bit (after %d upload segments of %04X:%02X) was not aborted with 0503 0000h", k, po.idx, po.sub);
      VLOG(c, " (previous transfer: segmented upload of %04X:%02X ended by the server with a toggle error after %d segments)", po.idx, po.sub, k);
      s.tx = keep; prefixes++;
    }
    TObj &o = w.objs[S.hi0 >= 0 && c.t.coin() ? (uint32_t)S.hi0 + c.t.below(5) : c.t.chance(80) ? 12 : c.t.below(14)];     // 12 integer kinds + 2 domains (the large one favoured)
    if (o.idx >= 0x9000) c.cls("object-at-index-9000h-or-above");
    uint32_t mode = c.t.below(3);         // 0 expedited, 1 segmented, 2 block
    bool ind = c.t.coin();
    uint32_t plen;
    bool wrong_len = false;
    if (o.kind == TObj::INT) {
      plen = o.width;
      if (c.t.chance(28)) {
        // announced: any other length; not announced: only lengths the server can recognise as too short
        // (an unannounced payload longer than the object is outside the domain, see assumptions)
        plen = 1 + c.t.below(mode == 0 ? 4 : 9);
        if (!ind && plen > (uint32_t)o.width) plen = o.width;
        wrong_len = plen != (uint32_t)o.width;
      }
      if (mode == 0 && !ind) { plen = o.width; wrong_len = false; }     // e=1,s=0: the server takes the object's width from the 4 data bytes
    } else {
      plen = c.t.chance(140) ? o.size : 1 + c.t.below(o.size);            // a DOMAIN accepts a partial write in every mode
      if (mode == 0 && (plen > 4 || !ind)) mode = 1 + c.t.below(2);
    }
    if (mode == 0 && plen > 4) mode = 1;
    std::vector<uint8_t> pay(plen);
    if (plen > 8) { SplitMix r(c.t.u16()); for (auto &b : pay) b = (uint8_t)r.next(); }   // large payloads must not eat the tape
    else for (auto &b : pay) b = c.t.byte();
    std::vector<uint8_t> before = s.snapshot();
    SdoRes r;
    int max_losses = c.thorough ? 6 : 3;
    if (mode == 0) r = cl.download_exp(o.idx, o.sub, pay, ind, c.t.u32());
    else if (mode == 1) r = cl.download_seg(o.idx, o.sub, pay, ind, c.t.u32());
    else r = cl.download_blk(o.idx, o.sub, pay, ind, c.t.coin() ? max_losses : 0, c.t.u32());
    std::vector<uint8_t> after = s.snapshot();
    std::vector<uint8_t> expect = before;
    const char *modename = mode == 0 ? "expedited" : mode == 1 ? "segmented" : "block";
    if (wrong_len) {
      // not a payload this object can hold: the download must not be confirmed and must change nothing
      CHECK(c, r.aborted, "wrong-length-not-confirmed", "%s download of %u bytes into the %d-byte object %04X:%02X was confirmed", modename, plen, o.width, o.idx, o.sub);
      if (ind && mode != 2) {
        uint32_t want = plen > (uint32_t)o.width ? 0x06070012u : 0x06070013u;
        CHECK(c, r.code == want, "wrong-length-code", "%s download announcing %u bytes for the %d-byte object %04X:%02X refused with %08X, expected %08X", modename, plen, o.width, o.idx, o.sub, r.code, want);
      } else if (ind && mode == 2 && plen > (uint32_t)o.width) {
        CHECK(c, r.code == 0x06070012u, "wrong-length-code", "block download announcing %u bytes for the %d-byte object refused with %08X, expected 06070012", plen, o.width, r.code);
      }
      c.cls("refused-wrong-length");
    } else {
      CHECK(c, !r.aborted, "conforming-download-confirmed", "conforming %s download of %u bytes (size %sindicated) to %04X:%02X (%s, size %u) was aborted with %08X", modename, plen, ind ? "" : "not ", o.idx, o.sub,
            o.kind == TObj::INT ? "integer" : "domain", o.size, r.code);
      w.expect_write(expect, o, pay.data(), plen);
      if (r.requests >= 2 || r.losses > 0) nt = true;
      c.cls(mode == 0 ? "expedited" : mode == 1 ? "segmented" : "block");
      if (r.losses) c.cls("block-with-retransmission");
      if (plen > 889) c.cls("payload-over-889");
    }
#if CO_SSDO_N > 1
    // the second server's own objects may have been changed by its own traffic
    for (TObj *j : {S.junk32, S.junkdom}) { size_t off = w.snap_off(*j); for (uint32_t i = 0; i < j->size; i++) expect[off + i] = after[off + i]; }
#endif
    if (client_writes) { size_t off = s.ndict * 8; for (auto &b : s.blocks) { if (!b.storage) continue; if (b.name.rfind("128x", 0) == 0) memcpy(&expect[off], b.p, b.n); off += b.n; } }   // what the application wrote to its own client record meanwhile
    std::string d = s.diff_snapshot(expect, after);
    CHECK(c, d.empty(), wrong_len ? "refusal-changes-nothing" : "object-equals-payload",
          "after the %s %s download of %u bytes to %04X:%02X (object size %u): %s", wrong_len ? "refused" : "confirmed", modename, plen, o.idx, o.sub, o.size, d.c_str());
    c.ops += r.requests;
  }
  if (junk_frames) { nt = true; c.cls("second-server-interleaved"); }
  if (prefixes) c.cls("previous-transfer-ended-by-server-toggle-abort"); if (client_writes) c.cls("application-prepared-its-sdo-client-between-two-frames");
  c.nontrivial = nt;
}

void one_case(Ctx &c) { case_impl(c, false); }
void prefix_case(Ctx &c) { case_impl(c, true); }

// mode large-domain: "every writable object" includes domains beyond 64 KiB (a firmware image); one long segmented or block download into one,
// its end placed around the point where 65536 bytes of the domain remain
void large_case(Ctx &c) {
  Sim s(c); World w(s);
  s.nodeid = (uint8_t)(1 + c.t.below(127));
  w.mandatory();
  uint32_t extra = c.t.coin() ? c.t.below(40) : c.t.below(3000);
  uint32_t size = 65536 + extra;
  TObj &o0 = w.add_domain(0x2100, 0, size, true, true, c.t.u16()); (void)o0;
  w.add_int(0x2200, 0, 4, false, false, true, true, 0x12345678);
  w.finish();
  TObj &o = *w.lookup(0x2100, 0);
  SdoClient cl(s, w.req[0], w.rsp[0]);
  uint32_t plen = extra + 1 + c.t.below(2500); if (c.t.chance(20)) plen = 1 + c.t.below(60); if (plen > size) plen = size;
  bool blk = c.t.chance(200), ind = c.t.coin();
  std::vector<uint8_t> pay(plen); { SplitMix r(c.t.u16()); for (auto &b : pay) b = (uint8_t)r.next(); }
  std::vector<uint8_t> before = s.snapshot();
  SdoRes r = blk ? cl.download_blk(o.idx, o.sub, pay, ind, c.t.coin() ? 2 : 0, c.t.u32()) : cl.download_seg(o.idx, o.sub, pay, ind, c.t.u32());
  const char *modename = blk ? "block" : "segmented";
  CHECK(c, !r.aborted, "conforming-download-confirmed", "conforming %s download of %u bytes (size %sindicated) to the %u-byte domain %04X:%02X was aborted with %08X", modename, plen, ind ? "" : "not ", size, o.idx, o.sub, r.code);
  std::vector<uint8_t> expect = before; w.expect_write(expect, o, pay.data(), plen);
  std::string d = s.diff_snapshot(expect, s.snapshot());
  CHECK(c, d.empty(), "object-equals-payload", "after the confirmed %s download of %u bytes to %04X:%02X (object size %u): %s", modename, plen, o.idx, o.sub, size, d.c_str());
  c.ops += r.requests; c.nontrivial = r.requests >= 2;
  c.cls(blk ? "block" : "segmented"); c.cls("domain-over-64KiB"); if (plen > extra) c.cls("write-position-passes-size-minus-65536");
}

Registrar reg(Prop{
    "C02",
    "Cases: node id 1..127; dictionary with all 12 writable integer kinds {8,16,32 bit} x {direct, referenced} x {plain, node-id relative} and domains of 1..2000 (4000 in thorough) bytes, sizes boundary-biased around 4,7,8,14,889,890,896,1778; "
    "1..3 transfers by a reference conforming client: expedited / segmented / block, size announced or not, payload any length the object can hold (domains: 1..size), random fill of the last segment, up to 3 (6) segments lost in transit inside block sub-blocks followed by go-back-N retransmission, "
    "in build n2 interleaved with traffic on the second server addressing other objects; 1 in 9 integer transfers use a wrong length and must then be refused without effect. "
    "Mode after-server-abort: a segmented upload which the server ended with a toggle error precedes the download under test. Mode wide-dictionary: the dictionary also holds writable objects at 9000h, A100h, A200h and FFFEh (every writable object: also those 8000h and more indices away from the communication objects), half of the transfers address them. Mode large-domain: one segmented or block download of up to 5500 bytes into a domain of 65536..68535 bytes, its end placed around the point where 65536 bytes of the domain remain. Oracle: every response checked against CiA 301 (command, toggle, ackseq, block size 1..127, multiplexer), then a snapshot of ALL object storage must equal the snapshot before with exactly the payload applied. "
    "Non-trivial: a confirmed transfer of >= 2 request/response round trips, or a retransmission, or interleaved second-server traffic. Distinct = distinct decoded choice sequence.",
    {Mode{"random", one_case, false, 1100000, 22000000, 0, 0, 200, 400},
     Mode{"after-server-abort", prefix_case, false, 400000, 8000000, 0, 0, 200, 400},
     Mode{"large-domain", large_case, false, 30000, 600000, 0, 0, 64, 64},
     Mode{"wide-dictionary", one_case, false, 200000, 4000000, 1, 1, 200, 400}},
    {"a payload longer than the object is outside the domain (the object cannot hold it); for integers a length different from the width must be refused",
     "losses never hit the final segment of a sub-block (a conforming client would time out and abort, which is no confirmed download)",
     "reserved bytes of responses are not compared; the next block size may be any value 1..127 and is honoured by the client"}});

}  // namespace
