// C20 - a reset communication is indistinguishable from a fresh start (DESIGN.md §5 C20)
// Metamorphic: node A runs [H; reset; P]; node B is a fresh node whose object storage is A's storage right after the
// reset and runs [init+start; P]; the observable traces of P must be equal.
#include "model/node.h"
using namespace vf;

namespace {

struct OpRec { uint32_t op; uint32_t a, b, c; };
struct Cfg { uint8_t nodeid; uint16_t hbt; uint32_t syncid, cyc; bool hc_on[2]; uint16_t hc_time[2]; uint8_t ttype[2]; uint16_t tinh[2], tev[2]; uint8_t rtype; };

void cs_done(CO_CSDO *c, uint16_t i, uint8_t s, uint32_t code) { (void)c; if (g_sim) { Event e; e.k = EV_CSDO; e.tick = g_sim->tick; e.a = code; e.b = (uint32_t)i << 8 | s; g_sim->ev.push_back(e); } }
void app_cb(void *p) { (void)p; }

struct NodeX {
  Ctx &c; Sim s; World w; std::vector<CO_HBCONS *> hc; uint8_t csbuf[64]; bool cont_probe = false; std::vector<std::string> extra;   // extra: results of API queries (mode with-queries)
  explicit NodeX(Ctx &cx) : c(cx), s(cx), w(s) {}
  void build(const Cfg &g) {
    s.nodeid = g.nodeid;
    w.mandatory(false, g.hbt);
    add_sync(w, g.syncid, g.cyc);
    hc = add_hbcons(w, {{(uint8_t)(g.hc_on[0] ? 5 : 0), g.hc_time[0]}, {(uint8_t)(g.hc_on[1] ? 6 : 0), g.hc_time[1]}});
    w.add_int(0x2100, 1, 1, false, false, true, true, 0, true, true);
    w.add_int(0x2100, 2, 2, false, false, true, true, 0x1111, true, false);
    w.add_int(0x2100, 3, 4, false, false, true, true, 0x22222222, true, false);
    for (int p = 0; p < 2; p++) add_tpdo(w, p, 0x40000180u + 0x100u * p + g.nodeid, g.ttype[p], g.tinh[p], g.tev[p], {MAPENT(0x2100, 1, 8), p ? MAPENT(0x2100, 3, 32) : MAPENT(0x2100, 2, 16)}, 2);
    add_rpdo(w, 0, 0x200u + g.nodeid, g.rtype, {MAPENT(0x2100, 1, 8), MAPENT(0x2100, 2, 16)}, 2);
    s.add(CO_KEY(0x1280, 0, CO_OBJ_D___R_), CO_TUNSIGNED8, 3);
    s.add(CO_KEY(0x1280, 1, CO_OBJ_____RW), CO_TUNSIGNED32, (CO_DATA)s.var<uint32_t>("1280:1", 0x600));
    s.add(CO_KEY(0x1280, 2, CO_OBJ_____RW), CO_TUNSIGNED32, (CO_DATA)s.var<uint32_t>("1280:2", 0x580));
    s.add(CO_KEY(0x1280, 3, CO_OBJ_____RW), CO_TUNSIGNED8, (CO_DATA)s.var<uint8_t>("1280:3", 0x30));
  }
  // one operation (used for H and for P); every event it causes lands in s.tx / s.ev
  void exec(const OpRec &o, bool inH) {
    uint8_t nid = s.node->NodeId;
    auto sdo = [&](uint8_t cmd, uint16_t idx, uint8_t sub, uint32_t v) { Frame f; f.id = 0x600u + nid; f.dlc = 8; f.d[0] = cmd; f.d[1] = (uint8_t)idx; f.d[2] = (uint8_t)(idx >> 8); f.d[3] = sub; for (int i = 0; i < 4; i++) f.d[4 + i] = (uint8_t)(v >> (8 * i)); s.rx(f); };
    switch (o.op) {
      case 0: case 1: case 2: case 3: case 4: case 5: case 6: { uint32_t k = 1 + o.a % 4; for (uint32_t q = 0; q < k; q++) s.step_tick(); break; }
      case 7: s.rx(Frame::mk(0x700u + 5 + o.a % 3, 1, {(uint8_t[]){0, 127, 5, 4}[o.b % 4]})); break;
      case 8: s.rx(Frame::mk(0x80u + o.a % 2, 0, {})); break;
      case 9: sdo(0x2B, 0x1017, 0, (uint16_t[]){0, 3, 7, 20}[o.a % 4]); break;
      case 10: sdo(0x23, 0x1005, 0, (0x80u + o.a % 2) | ((o.b % 2) ? 0x40000000u : 0)); break;
      case 11: sdo(0x23, 0x1006, 0, 1000u * (o.a % 6)); break;
      case 12: sdo(0x23, 0x1016, (uint8_t)(1 + o.a % 2), (uint32_t)((o.b % 3) ? 4 + o.c % 8 : 0) | (uint32_t)(5 + o.b % 3) << 16); break;
      case 13: { uint32_t m = o.a % 3; s.rx(Frame::mk(0, 2, {(uint8_t)(m == 0 ? 1 : m == 1 ? 128 : 2), (uint8_t)(o.b % 2 ? 0 : nid)})); break; }
      case 14: s.api_begin(); COTPdoTrigPdo(s.node->TPdo, (uint16_t)(o.a % 2)); s.api_end("COTPdoTrigPdo"); break;
      case 15: s.api_begin(); CODictWrByte(&s.node->Dict, CO_DEV(0x2100, 1), (uint8_t)(o.a % 3)); s.api_end("CODictWrByte"); break;
      case 16: s.api_begin(); if (o.b % 2) COEmcySet(&s.node->Emcy, (uint8_t)(o.a % 3), 0); else COEmcyClr(&s.node->Emcy, (uint8_t)(o.a % 3)); s.api_end("COEmcy"); break;
      case 17: { static const uint16_t IDX[7] = {0x1017, 0x1005, 0x1006, 0x1001, 0x1800, 0x2100, 0x1014}; uint16_t idx = IDX[o.a % 7]; sdo(0x40, idx, idx == 0x1800 ? 5 : idx == 0x2100 ? 1 : 0, 0); break; }
      case 18: s.rx(Frame::mk(0x200u + nid, 8, {(uint8_t)o.a, (uint8_t)o.b, (uint8_t)o.c, 0, 0, 0, 0, 0})); break;
      case 19: { uint32_t k = o.a % 3; if (!inH) { if (cont_probe && k == 1) sdo(0x60, 0, 0, 0); else if (cont_probe && k == 2) sdo(0xA2, 0, 0, 0); else sdo(0x40, 0x1000, 0, 0); break; }   /* cont_probe: a client that goes on with a transfer the reset has discarded */ if (k == 0) sdo(0x40, 0x1000, 0, 0); else if (k == 1) sdo(0xA0, 0x1018, 1, 4); else sdo(0xC0, 0x2100, 3, 0); break; }   // transfers left open (history only)
      case 20: { s.api_begin(); CO_CSDO *cl = COCSdoFind(s.node, 0); if (cl) { CO_ERR e = COCSdoRequestUpload(cl, CO_DEV(0x2000, 1), csbuf, (o.a % 2) ? 4 : 20, cs_done, 5 + o.b % 20); Event ev; ev.k = EV_CSDO; ev.tick = s.tick; ev.a = 0xEEEE0000u | (uint32_t)e; ev.b = 0; s.ev.push_back(ev); } s.api_end("COCSdoRequestUpload"); break; }
      case 21: s.rx(Frame::mk(0x580u + 0x30 + (o.a % 4 == 3 ? 1 : 0), 8, {0x43, 0x00, 0x20, 1, 1, 2, 3, 4})); break;
      case 22: { uint32_t k = o.a % 4;   // LSS: switch only / inquire only (answered only in configuration state) / configure / both
        if (k == 0) s.rx(Frame::mk(0x7E5, 8, {4, (uint8_t)(o.b % 2), 0, 0, 0, 0, 0, 0}));
        else if (k == 1) s.rx(Frame::mk(0x7E5, 8, {(uint8_t)(o.b % 4 == 3 ? 76 : 94), 0, 0, 0, 0, 0, 0, 0}));   // inquire node id / identify non-configured remote slave
        else if (k == 2) { s.rx(Frame::mk(0x7E5, 8, {17, (uint8_t)(o.b % 8 == 7 ? 255 : 1 + o.b % 100), 0, 0, 0, 0, 0, 0})); /* 255: the node becomes a non-configured LSS slave */ if (o.c % 2) s.rx(Frame::mk(0x7E5, 8, {23, 0, 0, 0, 0, 0, 0, 0})); }   // configure node id (+ store configuration: the reset then changes the node id)
        else { s.rx(Frame::mk(0x7E5, 8, {4, (uint8_t)(o.b % 2), 0, 0, 0, 0, 0, 0})); s.rx(Frame::mk(0x7E5, 8, {94, 0, 0, 0, 0, 0, 0, 0})); }
        break; }
      case 23: sdo(0x2B, (uint16_t)(0x1800 + o.b % 2), 5, (uint16_t[]){0, 5, 9}[o.a % 3]); break;
      case 24: sdo(0x23, (uint16_t)(0x1800 + o.b % 2), 1, (0x40000180u + 0x100u * (o.b % 2) + nid) | ((o.a % 2) ? 0x80000000u : 0)); break;
      // mode with-queries: what the application learns through the query API is part of the node's observable behaviour
      case 26: { uint8_t n = (uint8_t)(5 + o.a % 3); s.api_begin(); int16_t r = CONmtGetHbEvents(&s.node->Nmt, n); s.api_end("CONmtGetHbEvents"); char b[64]; snprintf(b, sizeof b, "query hb-events node %u -> %d", n, r); extra.push_back(b); break; }
      case 27: { uint8_t n = (uint8_t)(5 + o.a % 3); s.api_begin(); int r = (int)CONmtLastHbState(&s.node->Nmt, n); s.api_end("CONmtLastHbState"); char b[64]; snprintf(b, sizeof b, "query hb-last-state node %u -> %d", n, r); extra.push_back(b); break; }
      case 28: { s.api_begin(); int16_t cnt = COEmcyCnt(&s.node->Emcy); int16_t g0 = COEmcyGet(&s.node->Emcy, (uint8_t)(o.a % 3)); uint8_t reg = 0; CODictRdByte(&s.node->Dict, CO_DEV(0x1001, 0), &reg); s.api_end("COEmcyCnt");
                 char b[96]; snprintf(b, sizeof b, "query emcy count %d, error %u active %d, 1001h %02X", cnt, o.a % 3, g0, reg); extra.push_back(b); break; }
      case 29: { s.api_begin(); int m = (int)CONmtGetMode(&s.node->Nmt); uint8_t id = CONmtGetNodeId(&s.node->Nmt); s.api_end("CONmtGetMode"); char b[64]; snprintf(b, sizeof b, "query mode %d node-id %u", m, id); extra.push_back(b); break; }
      case 30: { s.api_begin(); CO_ERR e = CONodeGetErr(s.node); s.api_end("CONodeGetErr"); char b[64]; snprintf(b, sizeof b, "query node error -> %d", (int)e); extra.push_back(b); break; }   // mode tight-pool only
      default: if (o.a % 3 == 2) sdo(0x2F, 0x1280, 3, 0x30u + o.b % 2);    // the SDO client's server node id (takes effect at the next reset / start)
               else s.rx(Frame::mk(0x123, 2, {1, 2}));
               break;
    }
  }
  // canonical, order-insensitive rendering of what one P step produced
  std::vector<std::string> render(long base) {
    std::vector<std::string> v; char b[160];
    for (auto &t : s.tx) { snprintf(b, sizeof b, "@%ld tx %s", t.tick - base, t.str().c_str()); v.push_back(b); }
    for (auto &e : s.ev) {
      const char *k = e.k == EV_MODE ? "mode" : e.k == EV_RESETREQ ? "resetreq" : e.k == EV_HBEVENT ? "hb-event" : e.k == EV_HBCHANGE ? "hb-change" : e.k == EV_CANRX ? "app-rx" : e.k == EV_CSDO ? "csdo" : e.k == EV_PDORX ? "pdo-rx" : e.k == EV_PDOTX ? "pdo-tx" : e.k == EV_SYNCUPD ? "sync-upd" : nullptr;
      if (!k) continue;
      snprintf(b, sizeof b, "@%ld cb %s %X %X%s%s", e.tick - base, k, e.a, e.b, (e.k == EV_CANRX || e.k == EV_PDOTX || e.k == EV_PDORX) ? " " : "", (e.k == EV_CANRX || e.k == EV_PDOTX || e.k == EV_PDORX) ? e.f.str().c_str() : ""); v.push_back(b);
    }
    for (auto &x : extra) v.push_back(x); extra.clear();
    std::sort(v.begin(), v.end()); s.clear_tx(); s.clear_ev();
    return v;
  }
};

void case_impl(Ctx &c, int variant) {   // 0 random, 1 reset-from-callback, 2 with-queries, 3 reset-before-start
  const bool from_callback = variant == 1, prestart = variant == 3, tight = variant == 4; const uint32_t nops = tight ? 31 : variant == 2 ? 30 : 26;
  Cfg g; g.nodeid = (uint8_t)(1 + c.t.below(40));
  g.hbt = (uint16_t[]){0, 5, 10}[c.t.below(3)]; g.syncid = 0x80 | (c.t.coin() ? 0x40000000u : 0); g.cyc = 1000u * (1 + c.t.below(5));
  for (int i = 0; i < 2; i++) { g.hc_on[i] = c.t.coin(); g.hc_time[i] = g.hc_on[i] ? (uint16_t)(4 + c.t.below(8)) : 0; }
  for (int p = 0; p < 2; p++) { g.ttype[p] = p == 0 ? 254 : (c.t.coin() ? (uint8_t)(1 + c.t.below(3)) : 255); g.tinh[p] = (g.ttype[p] >= 254 && c.t.coin()) ? (uint16_t)(10 * (1 + c.t.below(5))) : 0; g.tev[p] = c.t.coin() ? (uint16_t)(3 + c.t.below(10)) : 0; }
  g.rtype = c.t.coin() ? 254 : 1;
  auto gen = [&](int maxn) { std::vector<OpRec> v; int n = (int)c.t.below(maxn + 1); for (int i = 0; i < n && !c.t.exhausted(); i++) v.push_back(OpRec{c.t.below(nops), c.t.byte(), c.t.byte(), c.t.byte()}); return v; };
  bool with_app_timer = c.t.coin(); bool reset_node = c.t.chance(70);
  // mode tight-pool: a timer pool of 1..3 slots, which the configured services cannot all get - the same ones go without after the reset as after a fresh
  // start, and the node error the application is told is the same; no application timer (it would take a slot from the services of the one node only)
  uint16_t pool = 0; if (tight) { pool = (uint16_t)(1 + c.t.below(3)); with_app_timer = false; }
  std::vector<OpRec> H = gen(c.thorough ? 120 : 60), P = gen(c.thorough ? 90 : 60);
  if (P.size() < 8) for (int i = (int)P.size(); i < 8; i++) P.push_back(OpRec{(uint32_t)(i % 7), 1, 0, 0});
  // ---- node A
  NodeX A(c); if (tight) A.s.ntmr = pool; A.cont_probe = variant >= 2; A.build(g); A.w.finish(!prestart);   // mode reset-before-start: the history happens between CONodeInit and CONodeStart, the application then resets through the API and starts the node
  int apptmr = -1; if (with_app_timer) { A.s.api_begin(); apptmr = COTmrCreate(&A.s.node->Tmr, 3, 7, app_cb, 0); A.s.api_end("COTmrCreate"); }
  VLOG(c, "node %u: history of %zu ops, reset %s, probe of %zu ops%s", g.nodeid, H.size(), reset_node ? "node" : "communication", P.size(), with_app_timer ? ", one cyclic application timer" : "");
  bool changed_param = false, nonidle = false;
  for (auto &o : H) { VLOG(c, "history op %u (%u,%u,%u)", o.op, o.a, o.b, o.c); A.exec(o, true); if ((o.op >= 9 && o.op <= 12) || o.op == 23 || o.op == 24 || o.op == 13 || (o.op == 25 && o.a % 3 == 2)) changed_param = true; if (o.op == 19 || o.op == 20 || o.op == 16) nonidle = true; c.ops++; }
  A.s.clear_tx(); A.s.clear_ev();
  // mode reset-from-callback: the application reacts to a lost heartbeat by resetting the node from inside CONmtHbConsEvent();
  // the reset frame is the fall-back when no consumer times out within 300 ticks
  bool fired = false;
  if (from_callback) {
    for (int n = 5; n <= 7; n++) A.s.rx(Frame::mk(0x700u + (uint32_t)n, 1, {5}));
    A.s.hb_event_hook = [&](uint8_t) { if (fired) return; fired = true; CONmtReset(&A.s.node->Nmt, reset_node ? CO_RESET_NODE : CO_RESET_COM); };
    for (int i = 0; i < 300 && !fired; i++) { A.s.clear_tx(); A.s.clear_ev(); A.s.step_tick(); }
    A.s.hb_event_hook = nullptr;
  }
  if (tight) { A.s.api_begin(); CONodeGetErr(A.s.node); A.s.api_end("CONodeGetErr"); }   // the application has fetched whatever the history left in the node error
  // in a third of the cases the tick interrupt has just run and the elapsed actions are not processed yet when the reset command is handled
  // (decided from the history length, no tape choice): the reset has to clear them like the pending ones
  if (!fired && H.size() % 3 == 1) { A.s.service(); c.cls("reset-with-elapsed-unprocessed-timer-actions"); }
  if (prestart) { A.s.api_begin(); CONmtReset(&A.s.node->Nmt, reset_node ? CO_RESET_NODE : CO_RESET_COM); A.s.api_end("CONmtReset"); A.s.clear_tx(); A.s.clear_ev(); A.s.start(); }
  else if (!fired) A.s.rx(Frame::mk(0, 2, {(uint8_t)(reset_node ? 129 : 130), 0}));
  c.cls(prestart ? "reset-through-the-api-before-the-node-was-started" : fired ? "reset-issued-from-the-heartbeat-event-callback" : "reset-by-nmt-command");
  long baseA = A.s.tick;
  std::vector<std::string> resetTrace = A.render(baseA);
  // the storage right after the reset is node B's initial storage
  NodeX B(c); g_sim = &B.s; if (tight) B.s.ntmr = pool; B.cont_probe = variant >= 2; B.build(g);
  CHECK(c, A.s.blocks.size() == B.s.blocks.size(), "harness", "recipe not deterministic");
  for (size_t i = 0; i < A.s.blocks.size(); i++) { Block &a = A.s.blocks[i], &b = B.s.blocks[i]; CHECK(c, a.n == b.n && a.name == b.name, "harness", "recipe not deterministic"); if (a.storage) memcpy(b.p, a.p, a.n); }
  for (size_t i = 0; i < A.hc.size(); i++) { B.hc[i]->Time = A.hc[i]->Time; B.hc[i]->NodeId = A.hc[i]->NodeId; }
  B.s.lss_have = A.s.lss_have; B.s.lss_baud = A.s.lss_baud; B.s.lss_node = A.s.lss_node;     // the non-volatile LSS configuration belongs to the values the fresh node holds
  if (A.s.lss_have && A.s.lss_node && A.s.lss_node != g.nodeid) c.cls("node-id-changed-by-stored-lss-configuration");
  int occA = A.s.timers_used();
  B.w.finish(false); B.s.clear_tx(); B.s.clear_ev();
  g_sim = &B.s; B.s.start();
  std::vector<std::string> startTrace = B.render(0);
  int occB = B.s.timers_used();
  if (tight) { CO_ERR ea = CONodeGetErr(A.s.node), eb = CONodeGetErr(B.s.node); c.cls(eb == CO_ERR_NONE ? "tight-pool-all-services-served" : "tight-pool-a-service-went-without-a-timer");
    CHECK(c, ea == eb, "reset-equals-fresh-start", "node error after the reset is %d, after a fresh start with the same values %d (timer pool of %u slot(s))", (int)ea, (int)eb, pool); }
  int applive = with_app_timer ? 1 : 0; (void)apptmr;
  // boot-up: the reset trace holds mode INIT, mode PRE-OP, reset request, boot-up frame; the fresh start holds mode PRE-OP and the boot-up frame
  auto has = [](const std::vector<std::string> &v, const char *needle) { for (auto &x : v) if (x.find(needle) != std::string::npos) return true; return false; };
  char boot[64]; snprintf(boot, sizeof boot, "tx %03X [1] 00", 0x700u + A.s.node->NodeId);   // (the node id in force after the reset: a stored LSS configuration may have changed it)
  CHECK(c, has(resetTrace, boot) && has(startTrace, boot), "boot-up", "boot-up frame missing after %s", has(startTrace, boot) ? "the reset" : "the fresh start");
  CHECK(c, occA == occB + applive, "no-timer-slot-leaked", "timer slots in use right after the reset: %d; a fresh node uses %d (+ %d live application timer(s))", occA, occB, applive);
  // ---- probe sequence on both
  for (size_t i = 0; i < P.size(); i++) {
    g_sim = &A.s; A.exec(P[i], false); std::vector<std::string> ta = A.render(baseA);
    g_sim = &B.s; B.exec(P[i], false); std::vector<std::string> tb = B.render(0);
    if (ta != tb) {
      std::string da, db; for (auto &x : ta) da += "\n      " + x; for (auto &x : tb) db += "\n      " + x;
      c.fail("reset-equals-fresh-start", "probe step %zu (op %u/%u/%u/%u): the node that went through the history and the reset reacted%s\n    the fresh node holding the same values reacted%s", i, P[i].op, P[i].a, P[i].b, P[i].c, da.empty() ? " with nothing" : da.c_str(), db.empty() ? " with nothing" : db.c_str());
    }
    if (c.logging) { VLOG(c, "probe %zu: op %u -> %zu event(s)", i, P[i].op, ta.size()); }
    c.ops++;
  }
  int occA2 = A.s.timers_used(), occB2 = B.s.timers_used();
  CHECK(c, occA2 == occB2 + applive, "no-timer-slot-leaked", "timer slots in use after the probe sequence: %d vs %d on the fresh node (+ %d application timer)", occA2, occB2, applive);
  g_sim = &A.s;
  if (changed_param || nonidle) c.nontrivial = true;
  if (changed_param) c.cls("history-changed-communication-parameters"); if (nonidle) c.cls("history-left-a-service-non-idle"); c.cls(reset_node ? "reset-node" : "reset-communication");
}

void one_case(Ctx &c) { case_impl(c, 0); }
void callback_case(Ctx &c) { case_impl(c, 1); }
void query_case(Ctx &c) { case_impl(c, 2); }
void prestart_case(Ctx &c) { case_impl(c, 3); }
void tight_case(Ctx &c) { case_impl(c, 4); }

Registrar reg(Prop{
    "C20",
    "Cases: a node with heartbeat producer, SYNC consumer/producer, two heartbeat consumer entries, two TPDOs (event/inhibit/sync types), an RPDO, an SDO client, LSS and EMCY (generated configuration); a history H of 0..60 (120) ops from 26 kinds (ticks, heartbeat/SYNC/RPDO/LSS (switch, inquire, identify non-configured slave, configure node id 1..100 or 255, store)/foreign frames, SDO write to the SDO client's server node id 1280h:3, SDO writes to 1017h/1005h/1006h/1016h/18xxh:1/18xxh:5, NMT start/stop, triggers, object writes, EMCY set/clear, SDO transfers left open in three protocol states, client requests left busy, an optional cyclic application timer), "
    "then NMT reset communication (or reset node; in mode reset-from-callback the application issues it with CONmtReset() from inside the heartbeat-consumer event callback when a monitored node falls silent), then a probe sequence P of 8..60 (90) ops of the same kinds (conforming traffic only). Mode with-queries adds four kinds of API queries to H and P whose results are part of the trace (CONmtGetHbEvents, CONmtLastHbState, COEmcyCnt/COEmcyGet/1001h, CONmtGetMode/CONmtGetNodeId). Mode reset-before-start: H happens between CONodeInit and CONodeStart, the application then calls CONmtReset() and starts the node. Mode tight-pool: a timer pool of 1..3 slots which the configured services cannot all get; the node error (fetched by the application before the reset) is part of the comparison, right after the reset / start and as a query in P. "
    "Oracle (metamorphic): node B is a fresh node whose object storage equals A's storage right after the reset; after init+start it executes the same P; per probe step the sorted list of transmitted frames (with ticks relative to reset/start) and application callbacks (mode changes, heartbeat events/changes, frames handed to the application, client completions, PDO callbacks) must be identical; timer-pool occupancy of A equals B's plus live application timers right after the reset and after P. "
    "Non-trivial: H changed at least one communication parameter or NMT state, or left a service non-idle (open SDO transfer, busy client, active emergency). Distinct = distinct decoded choice sequence.",
    {Mode{"random", one_case, false, 750000, 9000000, 0, 0, 500, 900},
     Mode{"reset-from-callback", callback_case, false, 250000, 3000000, 0, 0, 500, 900},
     Mode{"with-queries", query_case, false, 250000, 3000000, 0, 0, 500, 900},
     Mode{"reset-before-start", prestart_case, false, 120000, 1500000, 0, 0, 500, 900},
     Mode{"tight-pool", tight_case, false, 150000, 2000000, 0, 0, 500, 900}},
    {"dictionaries without parameter groups (their reload differs by design) and without 1003h (the history survives a reset but not a fresh initialisation, by design)", "the order of events inside one probe step is not compared (sorted lists)", "application timer callbacks are not part of the trace"}});

}  // namespace
