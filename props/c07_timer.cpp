// C07 - every timed action fires exactly when due, exactly once per expiry (DESIGN.md §5 C07)
// Timer manager alone, lock-step (every tick is followed by a processing step).
#include "sim/sim.h"
using namespace vf;

namespace {

struct Act { bool active = false; long due = 0; uint32_t cyc = 0; int id = -1; int script = 0; uint32_t sa = 0, sb = 0; bool ran = false; };

struct C07 {
  Ctx &c; Sim s;
  std::vector<Act> m;      // model actions, index = tag
  long T = 0;              // current tick (== s.tick)
  bool in_process = false;
  int fired = 0, maxpending = 0, huge = 0;
  explicit C07(Ctx &cx) : c(cx), s(cx) {}

  int nactive() const { int n = 0; for (auto &a : m) n += a.active; return n; }
  int holder(int id) const { for (size_t k = 0; k < m.size(); k++) if (m[k].active && m[k].id == id) return (int)k; return -1; }

  static void cb(void *p);
  void on_cb(int tag);

  int create(uint32_t st, uint32_t cy, int script, uint32_t sa, uint32_t sb) {
    int tag = (int)m.size();
    s.api_begin();
    int id = COTmrCreate(&s.node->Tmr, st, cy, cb, (void *)(intptr_t)(tag + 1));
    bool expectfail = (st == 0 && cy == 0) || nactive() >= (int)s.ntmr;
    VLOG(c, "%screate(start=%u, cycle=%u%s) -> id %d", in_process ? "    callback: " : "", st, cy,
         script == 1 ? ", on expiry: create" : script == 2 ? ", on expiry: delete" : "", id);
    CHECK(c, (id < 0) == expectfail, "create-iff-capacity", "create(start=%u,cycle=%u) returned %d with %d of %u slots in use (both times zero: %d)",
          st, cy, id, nactive(), s.ntmr, st == 0 && cy == 0);
    Act a;
    if (id >= 0) {
      CHECK(c, id < (int)s.ntmr, "create-id-range", "create returned id %d outside the pool of %u", id, s.ntmr);
      CHECK(c, holder(id) < 0, "create-id-unique", "create returned id %d which is still held by a pending action", id);
      a.active = true; a.due = T + (st ? st : cy); a.cyc = cy; a.id = id; a.script = script; a.sa = sa; a.sb = sb;
    }
    m.push_back(a);
    return id;
  }
  void del(int id) {
    s.api_begin();
    int r = COTmrDelete(&s.node->Tmr, (int16_t)id);
    int h = holder(id);
    VLOG(c, "%sdelete(id %d) -> %d", in_process ? "    callback: " : "", id, r);
    if (h >= 0 && in_process && m[h].due == T && !m[h].ran) {
      // sibling of the running callback, due in this very step and not yet run: the statement only
      // constrains confirmed deletions (DESIGN §3 table): 0 => must not run, <0 => still runs
      if (r == 0) m[h].active = false;
      return;
    }
    CHECK(c, (r == 0) == (h >= 0), "delete-result", "delete(id %d) returned %d but the model %s a pending action with this id", id, r, h >= 0 ? "has" : "has no");
    if (h >= 0) m[h].active = false;
  }
  void step() {
    T++;
    for (auto &a : m) a.ran = false;
    s.service();
    CHECK(c, s.tick == T, "harness", "tick bookkeeping");
    VLOG(c, "tick -> %ld, process", T);
    in_process = true; s.process_timers(); in_process = false;
    for (size_t k = 0; k < m.size(); k++)
      CHECK(c, !(m[k].active && m[k].due <= T), "fires-when-due", "action tag %zu (id %d) fell due at tick %ld but did not run in the processing step of tick %ld", k, m[k].id, m[k].due, T);
    std::string e = s.tmr_check();
    CHECK(c, e.empty(), "pool-consistent", "after tick %ld: %s", T, e.c_str());
    CHECK(c, s.timers_used() == nactive(), "slot-accounting", "after tick %ld: %d action slots in use, model has %d pending actions (a one-shot action must free its slot)", T, s.timers_used(), nactive());
  }
  // advance k ticks; ticks on which nothing can elapse are skipped by moving the (harness-owned) down counter
  void advance(uint32_t k) {
    while (k > 0) {
      uint32_t skip = 0;
      if (s.tcnt == 0) skip = k; else if (s.tcnt > 1) skip = std::min<uint32_t>(k, s.tcnt - 1);
      if (skip > 0) {
        for (auto &a : m) CHECK(c, !(a.active && a.due <= T + (long)skip), "fires-when-due", "an action is due at tick %ld but the timer driver was armed for a later tick", a.due);
        s.tcnt -= (s.tcnt ? skip : 0); s.tick += skip; T += skip; k -= skip;
      } else { step(); k--; }
    }
  }
};

C07 *g = nullptr;
void C07::cb(void *p) { g->on_cb((int)(intptr_t)p - 1); }
void C07::on_cb(int tag) {
  CHECK(c, in_process, "callback-context", "callback of tag %d ran outside the processing step", tag);
  CHECK(c, tag >= 0 && tag < (int)m.size(), "callback-arg", "callback with unknown argument %d", tag);
  Act &a = m[tag];
  VLOG(c, "    tick %ld: callback tag %d (id %d)", T, tag, a.id);
  CHECK(c, a.active, "no-run-after-delete", "callback of tag %d (id %d) ran at tick %ld although it is not pending (deleted, or one-shot already expired)", tag, a.id, T);
  CHECK(c, a.due == T, "fires-when-due", "callback of tag %d ran at tick %ld, due at %ld", tag, T, a.due);
  CHECK(c, !a.ran, "once-per-expiry", "callback of tag %d ran twice in tick %ld", tag, T);
  a.ran = true; fired++;
  int script = a.script; uint32_t sa = a.sa, sb = a.sb;
  if (a.cyc) a.due = T + a.cyc; else a.active = false;
  if (script == 1) create(sa, sb, 0, 0, 0);
  else if (script == 2) del((int)sa);
}

const uint32_t SMALL[6] = {0, 1, 2, 3, 5, 8};

void run_ops(Ctx &c, C07 &x, bool enumerated, int depth) {
  g = &x;
  int steps = 0;
  while (enumerated ? steps < depth : (!c.t.exhausted() && steps < 400)) {
    steps++; c.ops++;
    if (enumerated) {
      // 9 representative (start,cycle) pairs, 3 scripted creates, 4 deletes, 1 step = 17 letters
      static const uint32_t PAIR[9][2] = {{0, 0}, {0, 1}, {0, 2}, {1, 0}, {1, 1}, {2, 0}, {2, 1}, {1, 2}, {3, 0}};
      uint32_t op = c.t.below(17);
      if (op < 9) x.create(PAIR[op][0], PAIR[op][1], 0, 0, 0);
      else if (op == 9) x.create(1, 0, 2, 0, 0);       // one-shot that deletes id 0 when it fires
      else if (op == 10) x.create(1, 1, 2, 1, 0);      // cyclic that deletes id 1 when it fires
      else if (op == 11) x.create(1, 0, 1, 1, 0);      // one-shot that creates (1,0) when it fires
      else if (op < 16) x.del((int)op - 12);
      else x.step();
    } else {
      static const uint16_t W[5] = {30, 14, 40, 8, 8};
      uint32_t op = c.t.weighted(W);
      if (op == 0) {
        bool big = c.t.chance(c.param == 1 ? 90 : 24);
        uint32_t st, cy;
        if (big && c.param == 1) {   // mode huge-ticks: legal tick counts around 2^16, 2^31 and 2^32 - 1 (a 60 s heartbeat on a 48 MHz timer is 2 880 000 000 ticks)
          static const uint32_t MARK[6] = {0x10000u, 0x7FFFFFFFu, 0x80000000u, 0xABA95000u, 0xFFFFFFF0u, 0x1000000u};
          auto huge = [&]() -> uint32_t { uint32_t m = MARK[c.t.below(6)]; return m - 8 + c.t.below(16); };
          st = c.t.chance(40) ? 0 : huge(); cy = c.t.chance(128) ? 0 : c.t.coin() ? huge() : SMALL[c.t.below(6)]; if (st == 0 && cy == 0) st = huge();
          x.huge++;
        } else {
          st = big ? c.t.below(1u << 20) : SMALL[c.t.below(6)];
          cy = big ? c.t.below(1u << 20) : SMALL[c.t.below(6)];
        }
        int script = c.t.chance(64) ? 1 + (int)c.t.below(2) : 0;
        uint32_t sa = 0, sb = 0;
        if (script == 1) { sa = SMALL[c.t.below(6)]; sb = SMALL[c.t.below(6)]; }
        if (script == 2) sa = c.t.below(x.s.ntmr + 1);
        x.create(st, cy, script, sa, sb);
      } else if (op == 1) {
        int id = (int)c.t.below(x.s.ntmr + 2) - 1;
        x.del(id);
      } else if (op == 2) x.step();
      else if (op == 3) x.advance(1 + c.t.below(12));
      else {
        // jump close to / onto the next expiry
        uint32_t k = x.s.tcnt ? x.s.tcnt : 1 + c.t.below(1000);
        x.advance(k);
      }
    }
    int np = x.nactive(); if (np > x.maxpending) x.maxpending = np;
  }
  // drain: every pending one-shot must still fire, nothing else
  if (!enumerated) { for (int i = 0; i < 3 && x.s.tcnt; i++) x.advance(x.s.tcnt); }
  if (x.maxpending >= 2 && x.fired >= 1) { c.nontrivial = true; }
  c.cls(x.maxpending >= 2 ? "two-or-more-pending" : "at-most-one-pending");
  if (x.fired) c.cls("callback-fired");
  if (x.huge) c.cls(x.fired ? "action-2^16..2^32-ticks-away-pending-and-callback-fired" : "action-2^16..2^32-ticks-away-pending");
}

void case_enum(Ctx &c) {
  C07 x(c);
  x.s.ntmr = (uint16_t)(1 + c.t.below(3));
  x.s.init_timer_only();
  VLOG(c, "pool=%u (bounded-exhaustive, depth %d)", x.s.ntmr, c.param);
  run_ops(c, x, true, c.param);
}
void case_random(Ctx &c) {
  C07 x(c);
  x.s.ntmr = (uint16_t)(1 + c.t.below(16));
  x.s.init_timer_only();
  VLOG(c, "pool=%u", x.s.ntmr);
  run_ops(c, x, false, 0);
}

// time-to-tick conversion: monotonic in time, exact whenever time*freq/unit is a whole number
const uint32_t FREQS[] = {1, 2, 3, 7, 10, 50, 64, 100, 128, 250, 300, 333, 500, 999, 1000, 1001, 1024, 1500, 2000, 2500, 3000, 4096,
                          5000, 7500, 9999, 10000, 10001, 12000, 15000, 20000, 25000, 32768, 48000, 50000, 100000, 250000, 1000000,
                          1500000, 2000000, 65536};
void case_conv(Ctx &c) {
  C07 x(c);
  x.s.freq = c.t.chance(200) ? FREQS[c.t.below(sizeof FREQS / sizeof *FREQS)] : 1 + c.t.below(3000000);
  x.s.ntmr = 1; x.s.init_timer_only();
  uint32_t unit = c.t.coin() ? CO_TMR_UNIT_1MS : CO_TMR_UNIT_100US;
  uint32_t base = c.t.below(65536), span = c.param;
  VLOG(c, "freq=%u Hz unit=1/%u s times %u..+%u", x.s.freq, unit, base, span);
  uint32_t prev = 0; bool have = false; int exact = 0;
  for (uint32_t k = 0; k <= span && base + k <= 65535; k++) {
    uint16_t time = (uint16_t)(base + k);
    uint32_t ticks = COTmrGetTicks(&x.s.node->Tmr, time, unit);
    uint64_t prod = (uint64_t)time * x.s.freq;
    if (prod / unit <= 0xFFFFFFFFull) {   // result representable
      if (prod % unit == 0) { exact++; CHECK(c, ticks == prod / unit, "conversion-exact", "GetTicks(freq=%u, time=%u, unit=%u) = %u, exact value is %llu", x.s.freq, time, unit, ticks, (unsigned long long)(prod / unit)); }
      if (have) CHECK(c, ticks >= prev, "conversion-monotonic", "GetTicks(freq=%u, unit=%u) is not monotonic: time %u -> %u ticks, time %u -> %u ticks", x.s.freq, unit, time - 1, prev, time, ticks);
      prev = ticks; have = true;
    } else have = false;
    c.ops++;
  }
  bool odd = (x.s.freq % unit) && (unit % x.s.freq);
  if (odd && exact > 0) c.nontrivial = true;
  c.cls(odd ? "conv-freq-neither-divides" : "conv-freq-divides");
}

Registrar reg(Prop{
    "C07",
    "Cases are operation sequences over {create(start,cycle[,callback script]), delete(id), tick+process, multi-tick jumps} on the real timer manager with pool sizes 1..16, "
    "generated (a) exhaustively over a 17-letter alphabet x pools 1..3 to the depth bound and (b) randomly up to 400 ops, plus (c) tick conversions for a (frequency, unit, time range) and (d) mode huge-ticks: the random sequences with a third of the start/cycle values around 2^16, 2^24, 2^31 and 2^32-1 ticks. "
    "A sequence is non-trivial when at least two actions were pending simultaneously and at least one callback fired; a conversion case when the frequency neither divides nor is divided by the unit and at least one exact point was checked. "
    "Distinct = distinct decoded choice sequence (64-bit hash).",
    {
        Mode{"enum", case_enum, true, 0, 0, 5, 6, 0, 0},
        Mode{"random", case_random, false, 3000000, 60000000, 0, 0, 300, 600},
        Mode{"conv", case_conv, false, 300000, 4000000, 300, 3000, 16, 16},
        Mode{"huge-ticks", case_random, false, 400000, 8000000, 1, 1, 300, 600},
    },
    {"timer driver = down counter as in drv_timer_swcycle.c; one COTmrService call = one tick; every tick is followed by COTmrProcess (deferred processing is C08)",
     "a delete issued by a callback for a sibling action due in the same step may return 0 (sibling does not run) or <0 (sibling runs)",
     "multi-tick jumps over ticks where the driver cannot elapse move the harness-owned down counter instead of calling the service k times"}});

}  // namespace
