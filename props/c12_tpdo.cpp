// C12 - TPDOs carry the mapped values and obey trigger, inhibit, event and SYNC rules (DESIGN.md §5 C12)
#include "model/node.h"
using namespace vf;

namespace {

// dynamic state of one TPDO; where the statement leaves a choice (first event-timer expiry after activation of TPDO
// number n: any tick in [E, E+n]) several alternatives are tracked and an alternative is dropped when the node's
// behaviour contradicts it; the check fails when none is left
struct Dyn { long inh_end = -1, ev_due = -1; bool pending = false; int synccnt = 0; std::vector<std::vector<uint8_t>> out; };
struct MP {
  bool present = false, en = false; int type = 254; long I = 0, E = 0; bool insync = false;
  std::vector<Dyn> alt = std::vector<Dyn>(1);
  std::vector<int> objs; std::vector<int> bytes; TpdoCfg cfg; uint32_t id = 0;
};

struct C12 {
  Ctx &c; Sim s; World w;
  MP mp[4]; TObj *ob[5]; int mode = 2; long T = 0;
  int ov_obj = -1; std::vector<uint8_t> ov_val;   // value an object had at the moment of an emission that preceded a later write of the same step
  int deferred = 0, by_event = 0, by_sync = 0, ties = 0;
  explicit C12(Ctx &cx) : c(cx), s(cx), w(s) {}

  std::vector<uint8_t> content_now(int p) {
    std::vector<uint8_t> d;
    for (size_t i = 0; i < mp[p].objs.size(); i++) { int o = mp[p].objs[i]; std::vector<uint8_t> v = (o == ov_obj) ? ov_val : w.content(*ob[o]); for (int k = 0; k < mp[p].bytes[i]; k++) d.push_back(v[k]); }
    return d;
  }
  void tx1(int p, Dyn &a, int why, bool stats) {   // why: 0 trigger, 1 inhibit end, 2 event timer, 3 sync
    MP &m = mp[p];
    if (mode != 3 || !m.present || !m.en) return;
    if (a.inh_end >= 0) { a.pending = true; return; }
    a.ev_due = -1; if (m.I > 0) a.inh_end = T + m.I; if (m.E > 0) a.ev_due = T + m.E;
    if (stats) { if (why == 1) deferred++; else if (why == 2) by_event++; else if (why == 3) by_sync++; }
    a.out.push_back(content_now(p));
  }
  void tx(int p, int why) { for (size_t k = 0; k < mp[p].alt.size(); k++) tx1(p, mp[p].alt[k], why, k == 0); }
  void activate(int p) {      // (re)activation: entering OPERATIONAL, or re-validating / rewriting the COB-ID while OPERATIONAL
    MP &m = mp[p]; if (!m.present) return;
    m.insync = false;
    m.type = *m.cfg.type; m.I = *m.cfg.inhibit / 10; m.E = m.type >= 254 ? *m.cfg.event : 0; m.en = !(*m.cfg.id & 0x80000000u);
    if (m.en && m.type <= 240) m.insync = true;
    std::vector<std::vector<uint8_t>> keep; if (!m.alt.empty()) keep = m.alt[0].out;
    m.alt.clear();
    // first event-timer expiry after activation: the statement admits any tick in [E, E+n] for TPDO number n
    for (int d = 0; d <= (m.E > 0 ? p : 0); d++) { Dyn a; a.out = keep; if (m.E > 0) a.ev_due = T + m.E + d; m.alt.push_back(a); }
  }
  void tick() {
    T++;
    for (int p = 0; p < 4; p++) { MP &m = mp[p]; if (!m.present) continue;
      for (size_t k = 0; k < m.alt.size(); k++) { Dyn &a = m.alt[k];
        if (k == 0 && a.inh_end == T && a.ev_due == T && a.pending) ties++;
        if (a.inh_end == T) { a.inh_end = -1; if (a.pending) { a.pending = false; tx1(p, a, 1, k == 0); } }   // ties: inhibit first
        if (a.ev_due == T) { a.ev_due = -1; tx1(p, a, 2, k == 0); } } }
  }
  void compare(const char *what) {
    std::vector<Frame> got; for (auto &t : s.tx) if (t.id != w.rsp[0]) got.push_back(t);
    for (auto &g : got) { bool known = false; for (int p = 0; p < 4; p++) if (mp[p].present && g.id == mp[p].id) known = true;
      if (!known) c.fail("unrequested-transmission", "%s at tick %ld (mode %d): the node transmitted %s, which is no configured TPDO", what, T, mode, g.str().c_str()); }
    for (int p = 0; p < 4; p++) { MP &m = mp[p]; if (!m.present) continue;
      std::vector<std::vector<uint8_t>> obs; for (auto &g : got) if (g.id == m.id) obs.push_back(std::vector<uint8_t>(g.d, g.d + (g.dlc > 8 ? 8 : g.dlc)));
      std::sort(obs.begin(), obs.end());
      std::vector<Dyn> left;
      for (auto &a : m.alt) { std::vector<std::vector<uint8_t>> e = a.out; std::sort(e.begin(), e.end()); if (e == obs) { Dyn b = a; b.out.clear(); left.push_back(b); } }
      if (left.empty()) {
        const Dyn &a = m.alt[0]; std::string detail;
        for (auto &g : got) if (g.id == m.id) detail += " got " + g.str() + ";";
        for (auto &e : a.out) { Frame x; x.id = m.id; x.dlc = (uint8_t)e.size(); memcpy(x.d, e.data(), e.size()); detail += " expected " + x.str() + ";"; }
        const char *clause = obs.size() > a.out.size() ? "unrequested-transmission" : obs.size() < a.out.size() ? "lost-or-blocked-transmission" : "frame-content";
        c.fail(clause, "%s at tick %ld (mode %d): TPDO %d: %zu frame(s) transmitted, %zu expected (mapped values, little-endian, DLC = mapped bytes; %zu admissible timing alternative(s) considered):%s", what, T, mode, p, obs.size(), a.out.size(), m.alt.size(), detail.c_str());
      }
      // alternatives that agree so far and have become indistinguishable are merged
      std::vector<Dyn> uniq; for (auto &a : left) { bool dup = false; for (auto &u : uniq) if (u.inh_end == a.inh_end && u.ev_due == a.ev_due && u.pending == a.pending && u.synccnt == a.synccnt) dup = true; if (!dup) uniq.push_back(a); }
      m.alt = uniq;
    }
    s.clear_tx(); s.clear_ev();
  }
};

void case_impl(Ctx &c, bool ext, bool runs = false) {
  C12 x(c); Sim &s = x.s; World &w = x.w;
  s.nodeid = (uint8_t)(1 + c.t.below(127));
  w.mandatory();
  add_sync(w, 0x80, 0);
  // mode random-retype: which objects are stored directly in the dictionary entry and which carry the asynchronous-trigger flag is generated
  bool dir[5] = {false, false, false, false, false}, asy[5] = {true, false, true, false, false};
  // ... and which are node-id-relative (read = stored value + node id): bits of the same draw that were unused before, so the saved tapes keep their meaning
  bool nid[5] = {false, false, false, false, false};
  if (ext) { uint32_t f = c.t.below(1024); for (int o = 0; o < 5; o++) { dir[o] = (f >> o) & 1; if (o == 1 || o == 3 || o == 4) asy[o] = (f >> (5 + o)) & 1; }
             nid[0] = (f >> 5) & 1; nid[2] = (f >> 7) & 1; nid[3] = f % 5 == 0; if (nid[0] || nid[2] || nid[3]) c.cls("node-id-relative-mapped-object"); }
  w.add_int(0x2100, 1, 1, dir[0], nid[0], true, true, 0, true, asy[0]);            // 8-bit, asynchronous trigger
  w.add_int(0x2100, 2, 1, dir[1], false, true, true, 0x22, true, asy[1]);         // 8-bit
  w.add_int(0x2100, 3, 2, dir[2], nid[2], true, true, 0x1234, true, asy[2]);       // 16-bit, asynchronous trigger
  w.add_int(0x2100, 4, 4, dir[3], nid[3], true, true, 0xA1B2C3D4, true, asy[3]);   // 32-bit
  w.add_int(0x2100, 5, 4, dir[4], false, true, true, 0x00ABCDEF, true, asy[4]);   // 32-bit, mapped with 24 bit
  static const uint32_t MAPS[5] = {0x21000108, 0x21000208, 0x21000310, 0x21000420, 0x21000518};
  static const int BY[5] = {1, 1, 2, 4, 3};
  int ntp = 1 + (int)c.t.below(4);
  for (int p = 0; p < ntp; p++) {
    MP &m = x.mp[p]; m.present = true;
    uint32_t r = c.t.below(3); uint8_t type = r == 0 ? 254 : r == 1 ? 255 : (uint8_t)(c.t.chance(200) ? 1 + c.t.below(4) : 1 + c.t.below(240));
    if (p == 0 && c.t.coin()) type = 254;
    uint16_t ev = c.t.coin() ? (uint16_t)(1 + c.t.below(12)) : 0;
    uint16_t inh = (type >= 254 && c.t.coin()) ? (uint16_t)(10 * (1 + c.t.below(8))) : 0;    // CiA 301 defines the inhibit time for types 254/255
    if (inh && ev && c.t.chance(70)) ev = inh / 10;                                           // ties between inhibit and event expiry, on purpose
    std::vector<uint32_t> maps; int total = 0; bool used[5] = {false, false, false, false, false};
    int want = 1 + (int)c.t.below(5);
    for (int k = 0; k < want; k++) { int o = (int)c.t.below(5); if (used[o] || total + BY[o] > 8) continue; used[o] = true; maps.push_back(MAPS[o]); m.objs.push_back(o); m.bytes.push_back(BY[o]); total += BY[o]; }
    if (maps.empty()) { maps.push_back(MAPS[0]); m.objs.push_back(0); m.bytes.push_back(1); }
    m.id = 0x180u + 0x100u * p + s.nodeid;
    bool invalid = c.t.chance(30);
    m.cfg = add_tpdo(w, p, 0x40000000u | m.id | (invalid ? 0x80000000u : 0), type, inh, ev, maps, 8);
  }
  add_rpdo(w, 0, 0x200u + s.nodeid, 254, {MAPS[0], MAPS[2]}, 2);     // an RPDO that changes the asynchronous objects
  w.finish();
  for (int i = 0; i < 5; i++) x.ob[i] = w.lookup(0x2100, (uint8_t)(i + 1));
  SdoClient cl(s, w.req[0], w.rsp[0]);
  if (c.logging) for (int p = 0; p < ntp; p++) { MP &m = x.mp[p]; std::string d; for (size_t i = 0; i < m.objs.size(); i++) d += "obj" + std::to_string(m.objs[i] + 1) + "/" + std::to_string(m.bytes[i]) + " "; VLOG(c, "TPDO %d: id %08X type %u inhibit %u x100us event %u ms map: %s", p, *m.cfg.id, *m.cfg.type, *m.cfg.inhibit, *m.cfg.event, d.c_str()); }
  auto trig_obj_changed = [&](int o) { if (x.mode == 3) for (int p = 0; p < 4; p++) if (x.mp[p].present) for (int k : x.mp[p].objs) if (k == o) { x.tx(p, 0); break; } };
  bool quiet = false; uint32_t syncid = 0x80; int sync_moves = 0;   // mode sync-runs: a client may move the SYNC identifier 1005h between 80h and 90h (the node is a SYNC consumer)
  auto do_sync = [&]() {
      if (!quiet) VLOG(c, "SYNC"); s.rx(Frame::mk(syncid, 0, {}));
      if (x.mode == 2 || x.mode == 3) for (int p = 0; p < 4; p++) { MP &m = x.mp[p]; if (m.present && m.insync) for (size_t k = 0; k < m.alt.size(); k++) { Dyn &a = m.alt[k]; a.synccnt++; if (a.synccnt == m.type) { x.tx1(p, a, 3, k == 0); a.synccnt = 0; } } }
      x.compare("SYNC");
  };
  if (runs) { s.clear_tx(); s.rx(Frame::mk(0, 2, {1, 0})); x.mode = 3; for (int p = 0; p < 4; p++) x.activate(p); VLOG(c, "NMT -> mode 3"); for (int p = 0; p < 4; p++) for (auto &a : x.mp[p].alt) a.out.clear(); x.compare("NMT command"); }   // mode sync-runs starts in OPERATIONAL
  int steps = 0, retyped = 0, remapped = 0; uint32_t longest_run = 0;
  while (!c.t.exhausted() && steps < 200) {
    steps++; c.ops++;
    static const uint16_t W[12] = {60, 10, 14, 14, 6, 12, 8, 8, 4, 4, 4, 4}, WX[14] = {60, 10, 14, 14, 6, 12, 8, 8, 4, 4, 4, 4, 6, 6}, WY[18] = {40, 8, 10, 10, 4, 10, 8, 4, 2, 2, 4, 4, 6, 4, 30, 6, 6, 6};
    uint32_t op = runs ? c.t.weighted(WY) : ext ? c.t.weighted(WX) : c.t.weighted(W);   // mode "random" keeps the alphabet the saved witnesses were recorded with
    s.clear_tx(); s.clear_ev(); for (int p = 0; p < 4; p++) for (auto &a : x.mp[p].alt) a.out.clear();
    if (op == 0) { s.step_tick(); x.tick(); VLOG(c, "tick -> %ld", x.T); x.compare("tick"); }
    else if (op == 1) { uint32_t n = 2 + c.t.below(12); for (uint32_t i = 0; i < n; i++) { s.clear_tx(); s.step_tick(); x.tick(); x.compare("tick"); } VLOG(c, "%u ticks -> %ld", n, x.T); }
    else if (op == 2) { int p = (int)c.t.below(4); VLOG(c, "COTPdoTrigPdo(%d)", p); s.api_begin(); COTPdoTrigPdo(s.node->TPdo, (uint16_t)p); s.api_end("COTPdoTrigPdo"); x.tx(p, 0); x.compare("explicit trigger"); }
    else if (op == 3) {   // change a value through the API: asynchronous objects trigger when the value changes
      int o = (int)c.t.below(5); uint32_t v = c.t.chance(100) ? (uint32_t)x.w.content(*x.ob[o])[0] : c.t.u32(); if (o == 4) v &= 0x00FFFFFF;
      std::vector<uint8_t> before = w.content(*x.ob[o]);
      s.api_begin(); if (x.ob[o]->width == 1) CODictWrByte(&s.node->Dict, CO_DEV(0x2100, o + 1), (uint8_t)v); else if (x.ob[o]->width == 2) CODictWrWord(&s.node->Dict, CO_DEV(0x2100, o + 1), (uint16_t)v); else CODictWrLong(&s.node->Dict, CO_DEV(0x2100, o + 1), v); s.api_end("CODictWr");
      bool changed = before != w.content(*x.ob[o]);
      VLOG(c, "API write obj%d := %X (%s)", o + 1, v, changed ? "changed" : "same value");
      if (changed && x.ob[o]->async) trig_obj_changed(o);
      x.compare("value change through the API");
    } else if (op == 4) { // COTPdoTrigObj
      int o = (int)c.t.below(5); VLOG(c, "COTPdoTrigObj(obj%d)", o + 1);
      s.api_begin(); COTPdoTrigObj(s.node->TPdo, s.find(0x2100, (uint8_t)(o + 1))); s.api_end("COTPdoTrigObj"); trig_obj_changed(o); x.compare("object trigger");
    } else if (op == 5) { // SYNC
      do_sync();
    } else if (op == 14) { // mode sync-runs: k SYNCs in a row - "every n-th SYNC" must hold beyond the 255th and the 65535th SYNC of one OPERATIONAL phase
      static const uint32_t MARK[5] = {250, 256, 300, 512, 770}; uint32_t kk = c.t.below(32);
      uint32_t k = kk < 18 ? MARK[c.t.below(5)] + c.t.below(8) : kk == 18 ? 65530 + c.t.below(600) : 1 + c.t.below(300);
      VLOG(c, "run of %u SYNCs", k);
      for (uint32_t i = 0; i < k; i++) { quiet = i >= 2; do_sync(); for (int p = 0; p < 4; p++) for (auto &a : x.mp[p].alt) a.out.clear(); } quiet = false;
      if (x.mode == 3 && k > longest_run) longest_run = k;
    } else if (op == 15) { // the SYNC identifier is rewritten through SDO
      if (x.mode == 4) continue; uint32_t nid = c.t.coin() ? 0x80 : 0x90;
      uint32_t code = cl.write(0x1005, 0, nid, 4); s.tx = cl.foreign; cl.foreign.clear(); CHECK(c, code == 0, "parameter-write", "write of %08X to 1005h of a SYNC consumer refused with %08X", nid, code);
      VLOG(c, "1005h := %08X", nid); if (nid != syncid) sync_moves++; syncid = nid; x.compare("write to 1005h");
    } else if (op == 17) { // the communication cycle period 1006h is rewritten (the node consumes SYNC, it does not produce it): no SYNC has been received by that - no schedule moves
      if (x.mode == 4) continue; uint32_t v = 1000u * (1 + c.t.below(50));
      uint32_t code = cl.write(0x1006, 0, v, 4); s.tx = cl.foreign; cl.foreign.clear(); CHECK(c, code == 0, "parameter-write", "write of %u us to 1006h of a SYNC consumer refused with %08X", v, code);
      VLOG(c, "1006h := %u us", v); x.compare("write to 1006h");
    } else if (op == 16) { // a frame on the identifier that is not (or no longer) the SYNC identifier: no SYNC, no TPDO
      uint32_t other = syncid == 0x80 ? 0x90 : 0x80; VLOG(c, "frame on %03X, which is not the SYNC identifier", other);
      s.rx(Frame::mk(other, 0, {})); x.compare("a frame that is no SYNC");
    } else if (op == 6) { // NMT
      int nm = x.mode == 3 ? (c.t.coin() ? 2 : 4) : 3;
      s.rx(Frame::mk(0, 2, {(uint8_t)(nm == 3 ? 1 : nm == 2 ? 128 : 2), 0})); VLOG(c, "NMT -> mode %d", nm);
      x.mode = nm; if (nm == 3) for (int p = 0; p < 4; p++) x.activate(p);
      x.compare("NMT command");
    } else if (op == 7) { // SDO write to the event time (mid-flight reconfiguration): restarts the PDO's timing, a waiting transmission is released
      int p = (int)c.t.below(ntp); if (x.mode == 4) continue;
      static const uint16_t EV[5] = {0, 3, 6, 9, 1}; uint16_t ev = EV[c.t.below(5)];
      uint32_t code = cl.write((uint16_t)(0x1800 + p), 5, ev, 2); s.tx = cl.foreign; cl.foreign.clear(); CHECK(c, code == 0, "event-time-write", "write to 18%02Xh:5 refused with %08X", p, code);
      VLOG(c, "18%02Xh:5 := %u", p, ev);
      MP &m = x.mp[p]; bool newE = m.en && x.mode == 3; if (newE) m.E = ev;
      // the statement is silent on a write to the event time while the inhibit time runs: either the timing is restarted and a waiting
      // transmission released at once (what the stack does), or the inhibit window continues and only the event timer is re-armed
      std::vector<Dyn> cont; if (newE) for (auto &a : m.alt) if (a.inh_end >= 0) { Dyn b = a; b.ev_due = m.E > 0 ? x.T + m.E : -1; cont.push_back(b); }
      for (size_t k = 0; k < m.alt.size(); k++) { Dyn &a = m.alt[k]; a.ev_due = -1; bool pend = a.pending; a.pending = false; a.inh_end = -1;
        if (newE) { if (pend) x.tx1(p, a, 1, k == 0); else if (m.E > 0) a.ev_due = x.T + m.E; } }
      for (auto &b : cont) m.alt.push_back(b);
      x.compare("event-time write");
    } else if (op == 8) { // SDO write through which an asynchronous object changes
      if (x.mode == 4) continue; int o = ext ? (int)c.t.below(5) : c.t.coin() ? 0 : 2; uint32_t v = ext && x.ob[o]->width == 4 ? c.t.u32() : c.t.u16(); if (x.ob[o]->width == 1) v &= 0xFF; if (o == 4) v &= 0xFFFFFF;
      std::vector<uint8_t> before = w.content(*x.ob[o]);
      cl.write(0x2100, (uint8_t)(o + 1), v, x.ob[o]->width); s.tx = cl.foreign; cl.foreign.clear();
      if (before != w.content(*x.ob[o]) && x.ob[o]->async) trig_obj_changed(o);
      VLOG(c, "SDO write obj%d := %X", o + 1, v); x.compare("value change through SDO");
    } else if (op == 9) { // RPDO that changes the asynchronous objects
      uint8_t a = c.t.byte(); uint16_t b = c.t.u16();
      std::vector<uint8_t> b0 = w.content(*x.ob[0]), b2 = w.content(*x.ob[2]);
      s.rx(Frame::mk(0x200u + s.nodeid, 3, {a, (uint8_t)b, (uint8_t)(b >> 8)}));
      // the fields are written one after the other: the transmission triggered by the first field still carries the old value of the second
      if (x.mode == 3) { if (b0 != w.content(*x.ob[0])) { x.ov_obj = 2; x.ov_val = b2; trig_obj_changed(0); x.ov_obj = -1; } if (b2 != w.content(*x.ob[2])) trig_obj_changed(2); }
      VLOG(c, "RPDO writes obj1 := %02X, obj3 := %04X", a, b); x.compare("value change through an RPDO");
    } else if (op == 10) { // COB-ID valid <-> invalid (same identifier): re-activates the PDO at once while OPERATIONAL
      int p = (int)c.t.below(ntp); if (x.mode == 4) continue; MP &m = x.mp[p];
      uint32_t nv = *m.cfg.id ^ 0x80000000u;
      uint32_t code = cl.write((uint16_t)(0x1800 + p), 1, nv, 4); s.tx = cl.foreign; cl.foreign.clear(); CHECK(c, code == 0, "cobid-write", "toggling the valid bit of 18%02Xh:1 refused with %08X", p, code);
      VLOG(c, "18%02Xh:1 := %08X", p, nv);
      if (x.mode == 3) x.activate(p);
      x.compare("COB-ID write");
    } else if (op == 12) { // the transmission type is rewritten (legal only while the COB-ID is invalid): invalidate, write type (and inhibit time), re-validate
      int p = (int)c.t.below(ntp); if (x.mode == 4) continue; MP &m = x.mp[p];
      std::vector<Frame> seen;
      auto wr = [&](uint8_t sub, uint32_t v, int n, const char *what) { uint32_t code = cl.write((uint16_t)(0x1800 + p), sub, v, n); for (auto &f : cl.foreign) seen.push_back(f); cl.foreign.clear();
        CHECK(c, code == 0, "parameter-write", "%s of TPDO %d (18%02Xh:%u := %X) refused with %08X", what, p, p, sub, v, code); };
      if (!(*m.cfg.id & 0x80000000u)) { wr(1, *m.cfg.id | 0x80000000u, 4, "invalidating the COB-ID"); if (x.mode == 3) x.activate(p); }
      uint32_t r = c.t.below(3); uint8_t nt = r == 0 ? 254 : r == 1 ? 255 : (uint8_t)(c.t.chance(200) ? 1 + c.t.below(4) : 1 + c.t.below(240));
      uint16_t inh = (nt >= 254 && c.t.coin()) ? (uint16_t)(10 * (1 + c.t.below(8))) : 0;
      wr(2, nt, 1, "writing the transmission type while invalid"); wr(3, inh, 2, "writing the inhibit time while invalid");
      VLOG(c, "TPDO %d: type := %u, inhibit := %u x100us while invalid", p, nt, inh);
      if (c.t.chance(200)) { wr(1, *m.cfg.id & ~0x80000000u, 4, "re-validating the COB-ID"); if (x.mode == 3) x.activate(p); VLOG(c, "TPDO %d re-validated", p); }
      s.tx = seen; retyped++;
      x.compare("transmission type rewritten");
    } else if (op == 13) { // the mapping is rewritten: invalidate, count := 0, new entries, count := k, re-validate (trigger links of the other TPDOs must survive)
      int p = (int)c.t.below(ntp); if (x.mode == 4) continue; MP &m = x.mp[p];
      std::vector<Frame> seen;
      auto wr = [&](uint16_t idx, uint8_t sub, uint32_t v, int n, const char *what) { uint32_t code = cl.write(idx, sub, v, n); for (auto &f : cl.foreign) seen.push_back(f); cl.foreign.clear();
        CHECK(c, code == 0, "parameter-write", "%s of TPDO %d (%04Xh:%u := %X) refused with %08X", what, p, idx, sub, v, code); };
      if (!(*m.cfg.id & 0x80000000u)) { wr((uint16_t)(0x1800 + p), 1, *m.cfg.id | 0x80000000u, 4, "invalidating the COB-ID"); if (x.mode == 3) x.activate(p); }
      wr((uint16_t)(0x1A00 + p), 0, 0, 1, "clearing the mapping count");
      std::vector<int> no, nb; int total = 0; bool used[5] = {false, false, false, false, false}; int want = 1 + (int)c.t.below(5);
      for (int k = 0; k < want; k++) { int o = (int)c.t.below(5); if (used[o] || total + BY[o] > 8) continue; used[o] = true; no.push_back(o); nb.push_back(BY[o]); total += BY[o]; }
      if (no.empty()) { no.push_back(0); nb.push_back(1); }
      for (size_t k = 0; k < no.size(); k++) wr((uint16_t)(0x1A00 + p), (uint8_t)(k + 1), MAPS[no[k]], 4, "writing a mapping entry");
      wr((uint16_t)(0x1A00 + p), 0, (uint32_t)no.size(), 1, "writing the mapping count");
      m.objs = no; m.bytes = nb;
      { std::string d; for (size_t i = 0; i < m.objs.size(); i++) d += "obj" + std::to_string(m.objs[i] + 1) + "/" + std::to_string(m.bytes[i]) + " "; VLOG(c, "TPDO %d re-mapped while invalid: %s", p, d.c_str()); }
      if (c.t.chance(220)) { wr((uint16_t)(0x1800 + p), 1, *m.cfg.id & ~0x80000000u, 4, "re-validating the COB-ID"); if (x.mode == 3) x.activate(p); VLOG(c, "TPDO %d re-validated", p); }
      s.tx = seen; remapped++;
      x.compare("mapping rewritten");
    } else {              // change non-asynchronous values silently
      for (int o : {1, 3, 4}) { uint32_t v = c.t.u32(); if (o == 4) v &= 0xFFFFFF; std::vector<uint8_t> before = w.content(*x.ob[o]);
        s.api_begin(); if (x.ob[o]->width == 1) CODictWrByte(&s.node->Dict, CO_DEV(0x2100, o + 1), (uint8_t)v); else CODictWrLong(&s.node->Dict, CO_DEV(0x2100, o + 1), v); s.api_end("CODictWr");
        if (x.ob[o]->async && before != w.content(*x.ob[o])) trig_obj_changed(o); }
      x.compare("non-asynchronous value changes");
    }
  }
  if (x.deferred || x.by_event || x.by_sync) c.nontrivial = true;
  if (longest_run >= 256) c.cls("run-of-256-or-more-syncs-in-operational"); if (longest_run >= 65536) c.cls("run-of-65536-or-more-syncs-in-operational");
  if (sync_moves) c.cls("sync-identifier-moved-at-run-time");
  if (retyped) c.cls("transmission-type-rewritten"); if (remapped) c.cls("mapping-rewritten");
  if (x.deferred) c.cls("deferred-by-inhibit"); if (x.by_event) c.cls("sent-by-event-timer"); if (x.by_sync) c.cls("sent-by-sync-count"); if (x.ties) c.cls("inhibit-event-tie-with-pending-trigger");
}

void one_case(Ctx &c) { case_impl(c, false); }
void ext_case(Ctx &c) { case_impl(c, true); }
void runs_case(Ctx &c) { case_impl(c, true, true); }

Registrar reg(Prop{
    "C12",
    "Cases: node id 1..127, 1..4 TPDOs with mappings of 1..5 distinct objects of 1/2/3(24 bit of a 32-bit object)/4 bytes totalling <= 8 bytes, type in {1..240, 254, 255}, inhibit 0..8 ms (non-zero only for 254/255), event time 0..12 ms with inhibit == event ties produced on purpose, valid or invalid COB-ID; "
    "histories of up to 200 ops: ticks, explicit COTPdoTrigPdo/COTPdoTrigObj, value changes of asynchronous and other objects through API/SDO/RPDO, SYNCs, NMT changes, SDO writes to the event time and to the COB-ID valid bit while running; mode random-retype adds: generated direct/asynchronous/node-id-relative flags of the mapped objects, invalidate the COB-ID, rewrite transmission type and inhibit time - or the whole mapping (count := 0, new entries, count := k) -, re-validate (in PRE-OPERATIONAL or OPERATIONAL), and generates for each of the five objects whether it is stored directly in the entry and whether it carries the asynchronous-trigger flag; mode sync-runs adds runs of 1..300, 250..777 or 65530..66129 consecutive SYNCs, SDO writes that move the SYNC identifier 1005h between 80h and 90h, and frames on the identifier that is not the SYNC identifier. "
    "Oracle: reference schedule: after every op and every single tick the multiset of (identifier, DLC, data) TPDO frames equals the model's (data = little-endian values of the mapped objects at emission; immediate emission on trigger unless inhibited; exactly one deferred emission at inhibit end; event timer restarted by every emission; type n => every n-th SYNC; nothing outside OPERATIONAL or with an invalid COB-ID; ties resolved inhibit first). "
    "Non-trivial: >= 1 emission deferred by the inhibit time or produced by the event timer or by the SYNC count. Distinct = distinct decoded choice sequence.",
    {Mode{"random", one_case, false, 600000, 8000000, 0, 0, 300, 500},
     Mode{"random-retype", ext_case, false, 1400000, 22000000, 0, 0, 300, 500},
     Mode{"sync-runs", runs_case, false, 15000, 300000, 0, 0, 160, 260}},
    {"timer frequency 1000 Hz: inhibit times are multiples of 1 ms (10 x 100 us), event times whole ms",
     "the first event-timer expiry after activation of TPDO number n may fall on any tick in [E, E+n] (the stack staggers start-up by the PDO number; the statement does not fix it): alternatives are tracked per TPDO and dropped when contradicted",
     "a write to the event time while the inhibit time runs: both 'timing restarted, waiting transmission released at once' (what the stack and ut-pdo-event do) and 'inhibit window continues, event timer re-armed' are admitted (alternatives tracked per TPDO)",
     "type 0 (acyclic synchronous) and inhibit times on synchronous TPDOs are outside the statement and not generated"}});

}  // namespace
