// C03 - an SDO upload delivers exactly the object's bytes for any acknowledge pattern (DESIGN.md §5 C03)
#include "model/sdo.h"
using namespace vf;

namespace {

const uint32_t MARKS[8] = {4, 7, 8, 14, 889, 890, 896, 1778};

void one_case(Ctx &c) {
  Sim s(c); World w(s);
  s.nodeid = (uint8_t)(1 + c.t.below(127));
  w.mandatory();
  SplitMix iv(c.t.u16());
  int sub = 1;
  for (int width : {1, 2, 4}) for (int direct = 0; direct < 2; direct++) for (int nid = 0; nid < 2; nid++)
    w.add_int(0x2000, (uint8_t)sub++, width, direct, nid, true, c.t.coin(), (uint32_t)iv.next());
  uint32_t maxd = c.thorough ? 4000 : 2000;
  w.add_domain(0x2100, 0, c.t.chance(100) ? 890 + c.t.below(maxd - 889) : c.t.biased(1, maxd, MARKS, 8), true, true, (uint32_t)iv.next());
  w.add_domain(0x2101, 0, c.t.biased(1, 40, MARKS, 4), true, false, (uint32_t)iv.next());
  w.add_string(0x2102, 0, c.t.biased(1, 300, MARKS, 4), (uint32_t)iv.next());
  w.add_string(0x2103, 0, 1 + c.t.below(5), (uint32_t)iv.next());
  // mode wide-dictionary: readable objects in the network-variable area and at the top of the index space, 8000h and more indices away from the rest
  int hi0 = -1;
  if (c.param == 1) { hi0 = (int)w.objs.size(); w.add_domain(0xA100, 0, c.t.biased(1, 1200, MARKS, 8), true, true, (uint32_t)iv.next()); w.add_string(0xA101, 0, c.t.biased(1, 300, MARKS, 4), (uint32_t)iv.next());
    w.add_int(0xA200, 1, 4, false, true, true, false, (uint32_t)iv.next()); w.add_int(0xFFFE, 0, 1, true, false, true, true, (uint32_t)iv.next()); w.add_domain(0x9000, 0, 5 + c.t.below(30), true, false, (uint32_t)iv.next()); }
  // ... and (same mode) the SDO client records 1280h.. with COB-ID entries of type CO_TSDO_ID, still switched off: the application may prepare its client
  // (write a COB-ID that keeps it off) between any two frames of an upload
  if (c.param == 1) for (int k = 0; k < CO_CSDO_N; k++) {
    s.add(CO_KEY(0x1280 + k, 0, CO_OBJ_D___R_), CO_TUNSIGNED8, 3);
    s.add(CO_KEY(0x1280 + k, 1, CO_OBJ_____RW), CO_TSDO_ID, (CO_DATA)s.var<uint32_t>("128x:1", 0x80000000u));
    s.add(CO_KEY(0x1280 + k, 2, CO_OBJ_____RW), CO_TSDO_ID, (CO_DATA)s.var<uint32_t>("128x:2", 0x80000000u));
    s.add(CO_KEY(0x1280 + k, 3, CO_OBJ_____RW), CO_TUNSIGNED8, (CO_DATA)s.var<uint8_t>("128x:3", (uint8_t)(0x20 + k)));
  }
  w.finish();
  SdoClient cl(s, w.req[0], w.rsp[0]);
  int client_writes = 0;
  if (c.param == 1) cl.between = [&]() {
    if (!c.t.chance(36)) return;
    int k = CO_CSDO_N > 1 ? (int)c.t.below(2) : 0; uint8_t sub = (uint8_t)(1 + c.t.below(2)); uint32_t v = 0x80000000u | ((sub == 1 ? 0x600u : 0x580u) + 0x20 + c.t.below(4));
    s.api_begin(); CO_ERR e = CODictWrLong(&s.node->Dict, CO_DEV(0x1280 + k, sub), v); s.api_end("CODictWrLong");
    CHECK(c, e == CO_ERR_NONE, "harness", "CODictWrLong(%04Xh:%u, %08X) failed with %d", 0x1280 + k, sub, v, (int)e);
    VLOG(c, "  (the application writes %08X to %04Xh:%u - its SDO client stays switched off)", v, 0x1280 + k, sub); client_writes++; };
#if CO_SSDO_N > 1
  // build n2: a second client uses the second server between a sub-block and its acknowledge (the servers share one transfer buffer array):
  // both uploads must deliver their object's bytes
  SdoClient cl2(s, w.req[1], w.rsp[1]); int cross = 0; TObj *cur = nullptr;
  cl.before_ack = [&]() {
    if (!c.t.chance(80)) return;
    static const uint16_t OW2[16] = {2, 2, 2, 2, 2, 2, 2, 2, 2, 2, 2, 2, 30, 20, 20, 8};
    TObj &o2 = w.objs[c.t.weighted(OW2)]; std::vector<uint8_t> want2 = w.content(o2);
    if (&o2 == cur) return;          // the read position of a domain or string is part of the object: two servers do not transfer the same object at the same time
    bool blk2 = c.t.coin(); SdoRes r2 = blk2 ? cl2.upload_blk(o2.idx, o2.sub, (uint8_t)(1 + c.t.below(127)), 2, true, &want2) : cl2.upload(o2.idx, o2.sub);
    CHECK(c, !r2.aborted && r2.data == want2, "ul-data", "upload of %04X:%02X (size %zu) on the second server, run between a sub-block of the first server and its acknowledge, %s", o2.idx, o2.sub, want2.size(), r2.aborted ? "was aborted" : "delivered wrong bytes");
    cross++;
  };
#endif
  int nuploads = 1 + (int)c.t.below(3);
  bool nt = false;
  for (int u = 0; u < nuploads; u++) {
    static const uint16_t OW[16] = {2, 2, 2, 2, 2, 2, 2, 2, 2, 2, 2, 2, 40, 10, 14, 8};
    TObj &o = w.objs[hi0 >= 0 && c.t.coin() ? (uint32_t)hi0 + c.t.below(5) : c.t.weighted(OW)];
    if (o.idx >= 0x9000) c.cls("object-at-index-9000h-or-above");
    std::vector<uint8_t> want = w.content(o);
#if CO_SSDO_N > 1
    cur = &o;
#endif
    std::vector<uint8_t> before = s.snapshot();
    SdoRes r;
    bool blk = c.t.below(3) != 0;
    if (blk) {
      static const uint8_t BS[8] = {1, 2, 3, 7, 64, 126, 127, 127};
      uint8_t bs = c.t.coin() ? BS[c.t.below(8)] : (uint8_t)(1 + c.t.below(127));
      r = cl.upload_blk(o.idx, o.sub, bs, c.thorough ? 12 : 6, true, &want);
    } else r = cl.upload(o.idx, o.sub);
    const char *mode = blk ? "block" : r.expedited ? "expedited" : "segmented";
    CHECK(c, !r.aborted, "conforming-upload-served", "%s upload of the readable object %04X:%02X (size %zu) was aborted with %08X", mode, o.idx, o.sub, want.size(), r.code);
    CHECK(c, r.announced == want.size(), "ul-size-announced", "%s upload of %04X:%02X: server announced %u bytes, the object has %zu", mode, o.idx, o.sub, r.announced, want.size());
    CHECK(c, r.data.size() == want.size(), "ul-length", "%s upload of %04X:%02X delivered %zu bytes, the object has %zu", mode, o.idx, o.sub, r.data.size(), want.size());
    for (size_t i = 0; i < want.size(); i++)
      CHECK(c, r.data[i] == want[i], "ul-data", "%s upload of %04X:%02X (size %zu, %d partial acknowledges, %d block-size changes): byte %zu is %02X, the object holds %02X", mode, o.idx, o.sub, want.size(),
            r.partial_acks, r.blksize_changes, i, r.data[i], want[i]);
    if (client_writes) { size_t off = s.ndict * 8; for (auto &b : s.blocks) { if (!b.storage) continue; if (b.name.rfind("128x", 0) == 0) memcpy(&before[off], b.p, b.n); off += b.n; } }   // what the application wrote to its own client record meanwhile
    std::string d = s.diff_snapshot(before, s.snapshot());
    CHECK(c, d.empty(), "ul-object-unchanged", "%s upload of %04X:%02X changed object storage: %s", mode, o.idx, o.sub, d.c_str());
    if (r.segments >= 2 || r.partial_acks > 0 || r.blksize_changes > 0) nt = true;
    c.cls(mode);
    if (r.partial_acks) c.cls("partial-acknowledge");
    if (r.blksize_changes) c.cls("blksize-changed");
    if (want.size() > 889) c.cls("object-over-889");
    if (u > 0) c.cls("consecutive-upload");
    c.ops += r.requests;
  }
#if CO_SSDO_N > 1
  if (cross) c.cls("second-server-used-between-block-and-acknowledge");
#endif
  if (client_writes) c.cls("application-prepared-its-sdo-client-between-two-frames");
  c.nontrivial = nt;
}

Registrar reg(Prop{
    "C03",
    "Cases: node id 1..127; dictionary with the 12 integer kinds, domains of 1..2000 (4000 thorough) and 1..40 bytes, strings of 1..300 and 1..5 characters (sizes boundary-biased around 4,7,8,14,889,890,896,1778), arbitrary contents; mode wide-dictionary adds readable objects at 9000h, A100h, A101h, A200h and FFFEh (every readable object: also those 8000h and more indices away from the communication objects), half of the uploads address them; "
    "1..3 consecutive uploads by a reference conforming client (build n2: a second client uploads through the second server between a sub-block and its acknowledge): expedited/segmented (server's choice) or block with initial block size 1..127 and, per sub-block, an acknowledged prefix k in 0..n (weights favour 0, 1, n-1, n/2, uniform) and a new block size 1..127, up to 6 (12) partial acknowledges per transfer. "
    "Oracle: reassembled bytes and length == object content, announced size == object size, toggles, sequence numbers 1..n, segment count min(blksize, remaining), last flag exactly on the final segment, unused-byte counts, no answer to A1h, storage snapshot unchanged. "
    "Non-trivial: >= 2 segments, or a partial acknowledge, or a block-size change. Distinct = distinct decoded choice sequence.",
    {Mode{"random", one_case, false, 1500000, 30000000, 0, 0, 200, 400},
     Mode{"wide-dictionary", one_case, false, 200000, 4000000, 1, 1, 200, 400}},
    {"pst (protocol switch threshold) and CRC are not requested by the client", "build n2: the two servers never transfer the same domain or string object at the same time (its read position is part of the object)", "bytes the standard calls unused are not compared"}});

}  // namespace
