// C09 - NMT state machine and per-state service gating follow CiA 301 (DESIGN.md §5 C09)
#include "model/node.h"
using namespace vf;

namespace {

enum { STOPPED_NODE = 0, M_INIT = 1, M_PREOP = 2, M_OP = 3, M_STOP = 4 };
const char *MN[5] = {"node-stopped", "INIT", "PRE-OP", "OPERATIONAL", "STOPPED"};

struct C09 {
  Ctx &c; Sim s; World w; SdoClient *cl = nullptr;
  int mode = M_INIT; bool emact = false; uint8_t other = 9; TObj *rp = nullptr;
  int mode_changes = 0, probes_non_preop = 0;
  explicit C09(Ctx &cx) : c(cx), s(cx), w(s) {}

  // random mode: the event-driven TPDO may have an inhibit time of inh ticks; a transmission postponed by it goes out when the time ends - if the node is still OPERATIONAL
  int inh = 0; long T = 0, inh_end = -1; bool pend = false; int postponed = 0, postponed_dropped = 0;
  bool syncprod = false;   // random mode, odd node ids: the node is the SYNC producer (period 1 tick): a SYNC frame per tick in PRE-OPERATIONAL and OPERATIONAL, none in STOPPED
  void build(uint8_t nodeid, int inhibit_ticks = 0, bool sync_producer = false) {
    inh = inhibit_ticks; syncprod = sync_producer;
    s.nodeid = nodeid; other = nodeid == 9 ? 10 : 9;
    w.mandatory(false, 1);                                   // heartbeat producer: 1 ms == 1 tick
    add_sync(w, syncprod ? 0x40000080u : 0x80, syncprod ? 1000 : 0);
    add_hbcons(w, {{other, 50}});
    rp = &w.add_int(0x2100, 1, 1, false, false, true, true, 0, true, false);
    w.add_int(0x2101, 1, 1, false, false, true, true, 0x5A, true, false);
    add_rpdo(w, 0, 0x200u + nodeid, 254, {MAPENT(0x2100, 1, 8)}, 1);
    add_tpdo(w, 0, 0x40000180u + nodeid, 254, (uint16_t)(10 * inh), 0, {MAPENT(0x2101, 1, 8)}, 1);
    add_tpdo(w, 1, 0x40000280u + nodeid, 1, 0, 0, {MAPENT(0x2101, 1, 8)}, 1);
    w.finish(false);
    rp = w.lookup(0x2100, 1);
  }

  struct Exp { int app = 0; bool app_free = false; bool modes_free = false; int alt_mode = -1; std::vector<int> modes; int resetreq = 0; std::vector<Frame> tx; bool tx_free = false; bool unordered = false; };

  // random mode: the CAN driver may refuse the one frame a step transmits - that frame is lost, the node's state and everything else follow the state machine all the same
  bool inject_send_fault = false; int send_faults = 0;
  void run(const char *what, const std::function<void()> &act, Exp &e, int newmode) {
    s.clear_tx(); s.clear_ev();
    bool lost = inject_send_fault && !e.tx_free && e.tx.size() == 1 && mode != STOPPED_NODE; inject_send_fault = false;
    VLOG(c, "[%s] %s%s", MN[mode], what, lost ? "   (the CAN driver refuses the frame)" : "");
    if (lost) { s.can_send_fail = 1; e.tx.clear(); send_faults++; }
    act();
    s.can_send_fail = 0;
    if (mode == STOPPED_NODE) { s.clear_tx(); s.clear_ev(); return; }     // "unless the node has been stopped": nothing is asserted any more
    int app = 0, rr = 0; std::vector<int> modes;
    for (auto &v : s.ev) { if (v.k == EV_CANRX) app++; else if (v.k == EV_MODE) modes.push_back((int)v.a); else if (v.k == EV_RESETREQ) rr++; }
    if (!e.app_free) CHECK(c, app == e.app, "unclaimed-frame-to-application-once", "%s in %s: frame handed to the application callback %d time(s), expected %d", what, MN[mode], app, e.app);
    if (!e.modes_free) CHECK(c, modes == e.modes, "mode-change-callbacks", "%s in %s: %zu mode-change callback(s)%s, expected %zu", what, MN[mode], modes.size(), modes.empty() ? "" : (std::string(" (first: ") + std::to_string(modes[0]) + ")").c_str(), e.modes.size());
    CHECK(c, rr == e.resetreq, "reset-request-callback", "%s in %s: %d reset-request callback(s), expected %d", what, MN[mode], rr, e.resetreq);
    if (!e.tx_free) {
      CHECK(c, s.tx.size() == e.tx.size(), "frames-per-state", "%s in %s: %zu frame(s) transmitted%s%s, expected %zu%s%s", what, MN[mode], s.tx.size(), s.tx.empty() ? "" : ", first ", s.tx.empty() ? "" : s.tx[0].str().c_str(), e.tx.size(),
            e.tx.empty() ? "" : ", first ", e.tx.empty() ? "" : e.tx[0].str().c_str());
      if (e.unordered) std::stable_sort(s.tx.begin(), s.tx.end(), [](const Frame &a, const Frame &b) { return a.id < b.id; }), std::stable_sort(e.tx.begin(), e.tx.end(), [](const Frame &a, const Frame &b) { return a.id < b.id; });
      for (size_t i = 0; i < e.tx.size(); i++) {
        const Frame &g = s.tx[i], &x = e.tx[i];
        bool ok = g.id == x.id && g.dlc == x.dlc; for (int k = 0; ok && k < x.dlc && k < 8; k++) if (x.d[k] != 0xEE && g.d[k] != x.d[k]) ok = false;
        CHECK(c, ok, "frames-per-state", "%s in %s: transmitted %s, expected %s (EE = any)", what, MN[mode], g.str().c_str(), x.str().c_str());
      }
    }
    if (newmode != mode) mode_changes++;
    if (newmode != mode && (newmode == M_OP || mode == M_OP)) { if (pend && mode == M_OP) postponed_dropped++; inh_end = -1; pend = false; }   // PDOs are set up afresh on entering OPERATIONAL; nothing is owed after leaving it
    mode = newmode;
    if (e.alt_mode >= 0 && (int)CONmtGetMode(&s.node->Nmt) == e.alt_mode) mode = e.alt_mode;   // a second request made from inside the mode-change callback: either of the two may be the one that stands
    CO_MODE got = CONmtGetMode(&s.node->Nmt);
    CHECK(c, (int)got == mode, "nmt-state", "after %s the node reports mode %d, the CiA 301 state machine is in %s (%d)", what, (int)got, MN[mode], mode);
    s.clear_tx(); s.clear_ev();
  }
  Frame bootup() { return Frame::mk(0x700u + s.nodeid, 1, {0}); }

  void nmt_cmd(uint8_t cs, uint8_t target) {
    Exp e; int nm = mode;
    bool addressed = target == 0 || target == s.nodeid;
    if (mode == M_INIT) e.app = 1;            // nothing is allowed before boot-up: the frame is unclaimed
    else if (addressed) {
      if (cs == 1) nm = M_OP; else if (cs == 2) nm = M_STOP; else if (cs == 128) nm = M_PREOP;
      else if (cs == 129 || cs == 130) { nm = M_PREOP; e.modes = {M_INIT, M_PREOP}; e.resetreq = 1; e.tx.push_back(bootup()); emact = false; }
      if (cs != 129 && cs != 130 && nm != mode) e.modes = {nm};
    }
    char b[64]; snprintf(b, sizeof b, "NMT command %u to node %u", cs, target);
    run(b, [&]() { s.rx(Frame::mk(0, 2, {cs, target})); }, e, nm);
  }
  void api_mode(int nm) {
    if (mode == M_INIT || mode == STOPPED_NODE) return;     // the documented way out of INIT is CONodeStart
    Exp e; if (nm != mode) e.modes = {nm};
    run(nm == M_PREOP ? "CONmtSetMode(PREOP)" : nm == M_OP ? "CONmtSetMode(OPERATIONAL)" : "CONmtSetMode(STOP)", [&]() { s.api_begin(); CONmtSetMode(&s.node->Nmt, (CO_MODE)nm); s.api_end("CONmtSetMode"); }, e, nm);
  }
  // the application asks for another mode from inside the mode-change callback of the first request (random mode): which of the two requests stands is not
  // laid down - but the mode the node reports afterwards is the mode it is in: every probe that follows is judged by it
  int nested = 0;
  void api_mode_nested(int outer, int inner, bool by_frame = false) {
    if (mode == M_INIT || mode == STOPPED_NODE || outer == mode) return;
    if (by_frame) {   // the first request is the NMT master's command, the second the application's reaction to it from inside the callback
      Exp e; e.modes_free = true; e.alt_mode = inner; bool done = false; uint8_t cs = outer == M_OP ? 1 : outer == M_STOP ? 2 : 128;
      s.mode_change_hook = [&](int) { if (done) return; done = true; CONmtSetMode(&s.node->Nmt, (CO_MODE)inner); };
      run("NMT command with a CONmtSetMode from inside the mode-change callback", [&]() { s.rx(Frame::mk(0, 2, {cs, s.nodeid})); }, e, outer);
      s.mode_change_hook = nullptr; nested++; return;
    }
    Exp e; e.modes_free = true; e.alt_mode = inner; bool done = false;
    s.mode_change_hook = [&](int) { if (done) return; done = true; CONmtSetMode(&s.node->Nmt, (CO_MODE)inner); };
    run("CONmtSetMode with another CONmtSetMode from inside the mode-change callback", [&]() { s.api_begin(); CONmtSetMode(&s.node->Nmt, (CO_MODE)outer); s.api_end("CONmtSetMode"); }, e, outer);
    s.mode_change_hook = nullptr; nested++;
  }
  void start() {
    Exp e; int nm = mode;
    if (mode == M_INIT) { nm = M_PREOP; e.modes = {M_PREOP}; e.tx.push_back(bootup()); }
    run("CONodeStart", [&]() { s.api_begin(); CONodeStart(s.node); s.api_end("CONodeStart"); }, e, nm);
  }
  void api_reset(bool node_reset) {
    if (mode == STOPPED_NODE) return;
    Exp e; int nm = mode;
    if (mode != M_INIT) { nm = M_PREOP; e.modes = {M_INIT, M_PREOP}; e.tx.push_back(bootup()); }
    emact = false;   // a reset clears the emergencies (silently) in every state
    run(node_reset ? "CONmtReset(node)" : "CONmtReset(communication)", [&]() { s.api_begin(); CONmtReset(&s.node->Nmt, node_reset ? CO_RESET_NODE : CO_RESET_COM); s.api_end("CONmtReset"); }, e, nm);
  }
  void stop_node() {
    if (mode == STOPPED_NODE) return;
    VLOG(c, "[%s] CONodeStop", MN[mode]);
    s.api_begin(); CONodeStop(s.node); s.api_end("CONodeStop"); mode = STOPPED_NODE; s.clear_tx(); s.clear_ev();
  }
  void probe_count() { if (mode != M_PREOP) probes_non_preop++; }
  void probe_sdo() {
    Exp e; probe_count();
    if (mode == M_PREOP || mode == M_OP) { Frame r = Frame::mk(w.rsp[0], 8, {0x43, 0x00, 0x10, 0x00, 0x91, 0x01, 0x00, 0x00}); e.tx.push_back(r); }
    else if (mode == M_INIT) e.app = 1; else e.app_free = true;
    run("probe: SDO read of 1000h", [&]() { s.rx(Frame::mk(w.req[0], 8, {0x40, 0x00, 0x10, 0x00, 0, 0, 0, 0})); }, e, mode);
  }
  // a block download: the initiate is answered, the segment that follows is processed silently - and is still an SDO frame: no other service, not the application
  void probe_sdo_block() {
    probe_count();
    Frame init = Frame::mk(w.req[0], 8, {0xC2, 0x00, 0x21, 0x01, 1, 0, 0, 0}), seg = Frame::mk(w.req[0], 8, {0x01, 0x11, 0, 0, 0, 0, 0, 0}), ab = Frame::mk(w.req[0], 8, {0x80, 0x00, 0x21, 0x01, 0, 0, 0x04, 0x05});
    { Exp e; if (mode == M_PREOP || mode == M_OP) e.tx.push_back(Frame::mk(w.rsp[0], 8, {0xEE, 0x00, 0x21, 0x01, 0xEE, 0xEE, 0xEE, 0xEE})); else if (mode == M_INIT) e.app = 2; else e.app_free = true;
      run("probe: SDO block download initiate + first segment (not the last one)", [&]() { s.rx(init); s.rx(seg); }, e, mode); }
    { Exp e; e.tx_free = true; if (mode == M_INIT) e.app = 1; else if (mode != M_PREOP && mode != M_OP) e.app_free = true;
      run("probe: SDO abort of the block download", [&]() { s.rx(ab); }, e, mode); }
  }
  void probe_rpdo() {
    Exp e; probe_count();
    uint8_t old = w.content(*rp)[0], nv = (uint8_t)(old + 1);
    if (mode == M_OP) e.app = 0; else if (mode == M_STOP) e.app_free = true; else e.app = 1;
    int m0 = mode;
    run("probe: RPDO frame", [&]() { s.rx(Frame::mk(0x200u + s.nodeid, 1, {nv})); }, e, mode);
    if (m0 == STOPPED_NODE) return;
    uint8_t now = w.content(*rp)[0];
    if (m0 == M_OP) CHECK(c, now == nv, "pdo-only-in-operational", "RPDO frame in OPERATIONAL did not change the mapped object (%02X, expected %02X)", now, nv);
    else CHECK(c, now == old, "pdo-only-in-operational", "RPDO frame in %s changed the mapped object", MN[m0]);
  }
  void probe_sync() {
    Exp e; probe_count();
    if (mode == M_OP) e.tx.push_back(Frame::mk(0x280u + s.nodeid, 1, {0x5A}));     // synchronous TPDO of type 1
    if (mode == M_INIT) e.app = 1; else if (mode == M_STOP) e.app_free = true;
    run("probe: SYNC frame", [&]() { s.rx(Frame::mk(0x80, 0, {})); }, e, mode);
  }
  void probe_hb(uint8_t st) {
    Exp e; probe_count();
    if (mode == M_INIT) e.app = 1;
    int m0 = mode;
    run("probe: heartbeat of the monitored node", [&]() { s.rx(Frame::mk(0x700u + other, 1, {st})); }, e, mode);
    (void)m0;
  }
  // a heartbeat (or boot-up) frame of a node that is NOT monitored is claimed by no service: it reaches the application
  void probe_hb_unmonitored() {
    Exp e; probe_count();
    if (mode == M_STOP) e.app_free = true; else e.app = 1;
    uint8_t nid = (uint8_t)(other == 20 ? 21 : 20);
    run("probe: heartbeat of a node that is not monitored", [&]() { s.rx(Frame::mk(0x700u + nid, 1, {5})); }, e, mode);
  }
  void probe_lss() {
    Exp e; probe_count();
    if (mode == STOPPED_NODE) return;
    e.tx.push_back(Frame::mk(0x7E4, 8, {0x5E, s.node->NodeId, 0, 0, 0, 0, 0, 0}));
    run("probe: LSS switch-global(configuration) + inquire node-id + switch-global(waiting)", [&]() {
      s.rx(Frame::mk(0x7E5, 8, {4, 1, 0, 0, 0, 0, 0, 0})); s.rx(Frame::mk(0x7E5, 8, {0x5E, 0, 0, 0, 0, 0, 0, 0})); s.rx(Frame::mk(0x7E5, 8, {4, 0, 0, 0, 0, 0, 0, 0})); }, e, mode);
  }
  void probe_foreign() {
    Exp e; probe_count();
    if (mode == M_STOP) e.app_free = true; else e.app = 1;
    run("probe: frame with an unrelated identifier", [&]() { s.rx(Frame::mk(0x123, 8, {1, 2, 3, 4, 5, 6, 7, 8})); }, e, mode);
  }
  void probe_emcy() {
    Exp e; probe_count();
    bool on = !emact;
    if (mode == M_PREOP || mode == M_OP) { Frame f = Frame::mk(0x80u + s.nodeid, 8, {0xEE, 0xEE, 0xEE, 0, 0, 0, 0, 0}); e.tx.push_back(f); }
    run(on ? "probe: COEmcySet" : "probe: COEmcyClr", [&]() { s.api_begin(); if (on) COEmcySet(&s.node->Emcy, 1, 0); else COEmcyClr(&s.node->Emcy, 1); s.api_end("COEmcySet/Clr"); }, e, mode);
    emact = on;
  }
  void probe_trigger() {
    Exp e; probe_count();
    if (mode == M_OP) { if (inh_end >= 0) { pend = true; postponed++; } else { e.tx.push_back(Frame::mk(0x180u + s.nodeid, 1, {0x5A})); if (inh > 0) inh_end = T + inh; } }
    run("probe: COTPdoTrigPdo(0)", [&]() { s.api_begin(); COTPdoTrigPdo(s.node->TPdo, 0); s.api_end("COTPdoTrigPdo"); }, e, mode);
  }
  void tick() {
    Exp e;
    if (mode == M_PREOP || mode == M_OP || mode == M_STOP) e.tx.push_back(Frame::mk(0x700u + s.nodeid, 1, {(uint8_t)(mode == M_PREOP ? 127 : mode == M_OP ? 5 : 4)}));
    if (syncprod && (mode == M_PREOP || mode == M_OP)) { e.tx.push_back(Frame::mk(0x80, 0, {})); e.unordered = true; }
    T++;
    if (inh_end == T) { inh_end = -1; if (pend) { pend = false; if (mode == M_OP) { e.tx.push_back(Frame::mk(0x180u + s.nodeid, 1, {0x5A})); e.unordered = true; inh_end = T + inh; } } }
    run("tick (heartbeat period = 1 tick)", [&]() { s.step_tick(); }, e, mode);
  }

  void letter(uint32_t k, Ctx &cx) {
    static const uint8_t CS[5] = {1, 2, 128, 129, 130};
    if (k < 5) nmt_cmd(CS[k], s.nodeid);
    else if (k < 10) nmt_cmd(CS[k - 5], 0);
    else if (k == 10) nmt_cmd(1, (uint8_t)(s.nodeid == 100 ? 101 : 100));
    else if (k == 11) nmt_cmd(130, (uint8_t)(s.nodeid == 100 ? 101 : 100));
    else if (k == 12) nmt_cmd(7, s.nodeid);
    else if (k == 13) nmt_cmd(0, 0);
    else if (k < 17) api_mode(k == 14 ? M_PREOP : k == 15 ? M_OP : M_STOP);
    else if (k == 17) start();
    else if (k == 18) api_reset(false);
    else if (k == 19) api_reset(true);
    else if (k == 20) probe_sdo();
    else if (k == 21) probe_rpdo();
    else if (k == 22) probe_sync();
    else if (k == 23) probe_hb(5);
    else if (k == 24) probe_lss();
    else if (k == 25) probe_foreign();
    else if (k == 26) probe_emcy();
    else if (k == 27) probe_trigger();
    else if (k == 28) tick();
    else stop_node();
    (void)cx;
  }
  void finish() {
    if (mode_changes >= 2 && probes_non_preop >= 1) c.nontrivial = true;
    c.cls(mode_changes >= 2 ? "two-or-more-mode-changes" : "fewer-mode-changes");
    if (probes_non_preop) c.cls("probe-outside-pre-operational");
    if (send_faults) c.cls("frame-refused-by-the-can-driver"); if (nested) c.cls("mode-requested-from-inside-the-mode-change-callback");
    if (postponed) c.cls("tpdo-postponed-by-inhibit-time"); if (postponed_dropped) c.cls("left-operational-with-postponed-tpdo");
  }
};

void case_enum(Ctx &c) {
  C09 x(c); x.build(1);
  for (int d = 0; d < c.param; d++) { x.letter(c.t.below(30), c); c.ops++; }
  x.finish();
}
void case_random(Ctx &c) {
  C09 x(c); { uint8_t nid = (uint8_t)(1 + c.t.below(127)); x.build(nid, c.t.coin() ? 1 + (int)c.t.below(5) : 0, nid % 2 == 1); if (nid % 2) c.cls("node-is-sync-producer"); }
  int steps = 0;
  while (!c.t.exhausted() && steps < 200) {
    steps++; c.ops++;
    uint32_t k = c.t.below(38);
    if (c.t.chance(20)) x.inject_send_fault = true;
    if (k >= 36) { static const int MM[3] = {M_PREOP, M_OP, M_STOP}; int o = MM[c.t.below(3)], i = MM[c.t.below(3)]; x.inject_send_fault = false; x.api_mode_nested(o, i, k == 37); continue; }
    if (k == 29 && !c.t.chance(40)) k = 28;                     // node stop ends all checking: keep it rare
    if (k == 30) x.nmt_cmd(c.t.byte(), c.t.coin() ? x.s.nodeid : c.t.byte());
    else if (k == 31) x.probe_hb((uint8_t[]){0, 127, 5, 4, 77}[c.t.below(5)]);
    else if (k == 32) { uint32_t n = 1 + c.t.below(5); for (uint32_t i = 0; i < n; i++) x.tick(); }
    else if (k == 33) x.nmt_cmd((uint8_t[]){1, 2, 128}[c.t.below(3)], c.t.coin() ? 0 : x.s.nodeid);
    else if (k == 34) x.probe_sdo_block();
    else if (k == 35) x.probe_hb_unmonitored();
    else x.letter(k, c);
  }
  x.finish();
}

Registrar reg(Prop{
    "C09",
    "Cases: a node with one SDO server, an event-driven TPDO (random mode: with an inhibit time of 0..5 ticks, so that a postponed transmission can fall due after OPERATIONAL was left) and a synchronous TPDO (random mode also lets the CAN driver refuse the single frame of a step: the frame is lost, nothing else changes), an asynchronous RPDO, a heartbeat consumer entry, SYNC consumer, LSS, EMCY and a heartbeat producer of 1 tick; "
    "operation sequences over a 30-letter alphabet {NMT command {1,2,128,129,130} x {own id, 0}, start/reset to another id, unknown command specifiers, CONmtSetMode x3, CONodeStart, CONmtReset x2, one probe per service "
    "(SDO read, in the random part also an SDO block download whose segment is processed silently, RPDO frame, SYNC, heartbeat of the monitored node (random part: also of a node that is not monitored - unclaimed), LSS, unrelated id, EMCY set/clear, TPDO trigger, tick), CONodeStop}: enumerated exhaustively to the depth bound (node id 1) and randomly up to 200 ops with node ids 1..127, random command specifiers/targets and heartbeat states. "
    "Oracle: reference CiA 301 slave state machine: mode after every op, exact mode-change and reset-request callback sequences, exactly the expected frames (boot-up once per INIT->PRE-OP entry; SDO answer only in PRE-OP/OP; TPDOs only in OP; EMCY only in PRE-OP/OP; heartbeat with the state byte in PRE-OP/OP/STOPPED; LSS answer always), "
    "In the random part the application may ask for a second mode from inside the mode-change callback of a CONmtSetMode call: either request may stand, but the mode the node then reports is the one every following probe is judged by. "
    "RPDO effect only in OP, unclaimed frames handed to the application exactly once (not constrained in STOPPED and after CONodeStop). "
    "Non-trivial: >= 2 mode changes and >= 1 probe in a state other than PRE-OPERATIONAL. Distinct = distinct decoded choice sequence.",
    {
        Mode{"enum", case_enum, true, 0, 0, 4, 5, 0, 0},
        Mode{"random", case_random, false, 1500000, 20000000, 0, 0, 300, 520},
    },
    {"CONmtSetMode is not called in INIT (the documented way out of INIT is CONodeStart/boot-up)", "in STOPPED and after CONodeStop, whether an unclaimed frame reaches the application is not constrained (statement: 'unless the node has been stopped')",
     "the precise heartbeat-consumer change semantics are C11's business; here only claiming of the frame is checked"}});

}  // namespace
