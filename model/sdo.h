// SDO reference client (CiA 301) and the standard test dictionary used by C01..C05 and by every property
// that configures the node through SDO.  Written from the standard, not from the implementation.
#pragma once
#include "sim/sim.h"
#include <algorithm>
#include <functional>

namespace vf {

// ------------------------------------------------------------------ objects the harness knows about
struct TObj {
  uint16_t idx = 0; uint8_t sub = 0;
  enum Kind { INT, DOMAIN, STRING, OTHER } kind = INT;
  int width = 0;                 // INT: 1, 2, 4
  bool direct = false, nid = false, rd = true, wr = true, pdo = false, async = false;
  uint32_t size = 0;             // bytes a client sees (INT: width, DOMAIN: size, STRING: length)
  uint8_t *store = nullptr;      // referenced storage (INT referenced, DOMAIN data, STRING data)
  int dict_index = -1;           // resolved after init (direct entries live in the dictionary array)
  uint8_t flags() const { return (uint8_t)((rd ? CO_OBJ_____R_ : 0) | (wr ? CO_OBJ______W : 0) | (direct ? CO_OBJ_D_____ : 0) | (nid ? CO_OBJ__N____ : 0) | (pdo ? CO_OBJ____P__ : 0) | (async ? CO_OBJ___A___ : 0)); }
};

struct World {
  Sim &s; Ctx &c;
  std::vector<TObj> objs;
  uint32_t req[2] = {0, 0}, rsp[2] = {0, 0};
  World(Sim &sim) : s(sim), c(sim.c) {}

  // mandatory communication objects + SDO server parameter objects
  void mandatory(bool sdo_param_writable = false, uint16_t hb_ms = 0) {
    s.add(CO_KEY(0x1000, 0, CO_OBJ_D___R_), CO_TUNSIGNED32, 0x00000191);
    uint8_t *er = s.var<uint8_t>("1001", 0);
    s.add(CO_KEY(0x1001, 0, CO_OBJ____PR_), CO_TUNSIGNED8, (CO_DATA)er);
    uint32_t *ec = s.var<uint32_t>("1014", 0x80);
    s.add(CO_KEY(0x1014, 0, CO_OBJ__N__RW), CO_TEMCY_ID, (CO_DATA)ec);
    uint16_t *hb = s.var<uint16_t>("1017", hb_ms);
    s.add(CO_KEY(0x1017, 0, CO_OBJ_____RW), CO_THB_PROD, (CO_DATA)hb);
    s.add(CO_KEY(0x1018, 0, CO_OBJ_D___R_), CO_TUNSIGNED8, 4);
    s.add(CO_KEY(0x1018, 1, CO_OBJ_D___R_), CO_TUNSIGNED32, 0x11111111);
    s.add(CO_KEY(0x1018, 2, CO_OBJ_D___R_), CO_TUNSIGNED32, 0x22222222);
    s.add(CO_KEY(0x1018, 3, CO_OBJ_D___R_), CO_TUNSIGNED32, 0x33333333);
    s.add(CO_KEY(0x1018, 4, CO_OBJ_D___R_), CO_TUNSIGNED32, 0x44444444);
    for (int n = 0; n < CO_SSDO_N; n++) {
      uint32_t rq = n == 0 ? 0x600 : 0x640, rs = n == 0 ? 0x580 : 0x5C0;
      req[n] = rq + s.nodeid; rsp[n] = rs + s.nodeid;
      s.add(CO_KEY(0x1200 + n, 0, CO_OBJ_D___R_), CO_TUNSIGNED8, 2);
      if (sdo_param_writable) {
        s.add(CO_KEY(0x1200 + n, 1, CO_OBJ__N__RW), CO_TSDO_ID, (CO_DATA)s.var<uint32_t>("120x:1", rq));
        s.add(CO_KEY(0x1200 + n, 2, CO_OBJ__N__RW), CO_TSDO_ID, (CO_DATA)s.var<uint32_t>("120x:2", rs));
      } else {
        s.add(CO_KEY(0x1200 + n, 1, CO_OBJ_DN__R_), CO_TUNSIGNED32, rq);
        s.add(CO_KEY(0x1200 + n, 2, CO_OBJ_DN__R_), CO_TUNSIGNED32, rs);
      }
    }
  }
  TObj &add_int(uint16_t idx, uint8_t sub, int width, bool direct, bool nid, bool rd, bool wr, uint32_t init, bool pdo = false, bool async = false) {
    TObj o; o.idx = idx; o.sub = sub; o.kind = TObj::INT; o.width = width; o.direct = direct; o.nid = nid; o.rd = rd; o.wr = wr; o.size = width; o.pdo = pdo; o.async = async;
    const CO_OBJ_TYPE *t = width == 1 ? CO_TUNSIGNED8 : width == 2 ? CO_TUNSIGNED16 : CO_TUNSIGNED32;
    uint32_t m = width == 4 ? 0xFFFFFFFFu : (1u << (8 * width)) - 1;
    if (direct) s.add(CO_KEY(idx, sub, o.flags()), t, (CO_DATA)(init & m));
    else { o.store = s.alloc(width, "int"); for (int i = 0; i < width; i++) o.store[i] = (uint8_t)(init >> (8 * i)); s.add(CO_KEY(idx, sub, o.flags()), t, (CO_DATA)o.store); }
    objs.push_back(o); return objs.back();
  }
  TObj &add_domain(uint16_t idx, uint8_t sub, uint32_t size, bool rd, bool wr, uint32_t fill_seed) {
    TObj o; o.idx = idx; o.sub = sub; o.kind = TObj::DOMAIN; o.rd = rd; o.wr = wr; o.size = size;
    CO_OBJ_DOM *d = s.domain(size, "domain"); o.store = d->Start;
    SplitMix r(fill_seed); for (uint32_t i = 0; i < size; i++) o.store[i] = (uint8_t)r.next();
    s.add(CO_KEY(idx, sub, o.flags()), CO_TDOMAIN, (CO_DATA)d);
    objs.push_back(o); return objs.back();
  }
  TObj &add_string(uint16_t idx, uint8_t sub, uint32_t len, uint32_t fill_seed) {
    TObj o; o.idx = idx; o.sub = sub; o.kind = TObj::STRING; o.rd = true; o.wr = false; o.size = len;
    std::string str(len, 'x'); SplitMix r(fill_seed); for (auto &ch : str) ch = (char)(1 + r.next() % 255);
    CO_OBJ_STR *d = s.string(str, "string"); o.store = d->Start;
    s.add(CO_KEY(idx, sub, o.flags()), CO_TSTRING, (CO_DATA)d);
    objs.push_back(o); return objs.back();
  }
  void finish(bool start = true) {
    s.init();
    for (auto &o : objs) for (size_t i = 0; i < s.ndict; i++) if (CO_GET_DEV(s.dict[i].Key) == CO_DEV(o.idx, o.sub)) o.dict_index = (int)i;
    if (start) { s.start(); s.clear_tx(); s.clear_ev(); }
  }
  // an LSS master gives the node another node id: switch to configuration state, configure node id, store, back to waiting state, NMT reset
  // communication - from the boot-up frame on every service works with the new id (the SDO servers listen on 600h/640h + id and answer on 580h/5C0h + id)
  void lss_renumber(uint8_t newid) {
    s.clear_tx(); s.clear_ev();
    s.rx(Frame::mk(0x7E5, 8, {4, 1, 0, 0, 0, 0, 0, 0})); s.rx(Frame::mk(0x7E5, 8, {17, newid, 0, 0, 0, 0, 0, 0})); s.rx(Frame::mk(0x7E5, 8, {23, 0, 0, 0, 0, 0, 0, 0})); s.rx(Frame::mk(0x7E5, 8, {4, 0, 0, 0, 0, 0, 0, 0}));
    s.clear_tx(); s.rx(Frame::mk(0, 2, {130, 0}));
    bool boot = false; for (auto &t : s.tx) if (t.id == 0x700u + newid && t.dlc == 1 && t.d[0] == 0) boot = true;
    CHECK(c, boot, "harness", "no boot-up frame on %03X after the LSS node id change to %u and an NMT reset communication", 0x700u + newid, newid);
    s.nodeid = newid; for (int n = 0; n < CO_SSDO_N; n++) { req[n] = (n == 0 ? 0x600u : 0x640u) + newid; rsp[n] = (n == 0 ? 0x580u : 0x5C0u) + newid; }
    VLOG(c, "LSS: node id changed to %u, stored, NMT reset communication", newid);
    s.clear_tx(); s.clear_ev();
  }
  TObj *lookup(uint16_t idx, uint8_t sub) { for (auto &o : objs) if (o.idx == idx && o.sub == sub) return &o; return nullptr; }
  // the bytes a client must read from the object right now
  std::vector<uint8_t> content(const TObj &o) const {
    std::vector<uint8_t> v;
    if (o.kind == TObj::INT) {
      uint32_t x = 0;
      if (o.direct) x = (uint32_t)s.dict[o.dict_index].Data; else for (int i = 0; i < o.width; i++) x |= (uint32_t)o.store[i] << (8 * i);
      if (o.nid) x += s.node->NodeId;
      for (int i = 0; i < o.width; i++) v.push_back((uint8_t)(x >> (8 * i)));
    } else v.assign(o.store, o.store + o.size);
    return v;
  }
  size_t snap_off(const TObj &o) const {
    if (o.kind == TObj::INT && o.direct) return (size_t)o.dict_index * 8;
    size_t off = s.ndict * 8;
    for (auto &b : s.blocks) { if (!b.storage) continue; if (b.p == o.store) return off; off += b.n; }
    c.fail("harness", "object storage not registered"); return 0;
  }
  // apply "the client wrote these bytes" to a snapshot
  void expect_write(std::vector<uint8_t> &snap, const TObj &o, const uint8_t *bytes, uint32_t n) const {
    size_t off = snap_off(o);
    if (o.kind == TObj::INT) {
      uint32_t x = 0; for (uint32_t i = 0; i < n && i < 4; i++) x |= (uint32_t)bytes[i] << (8 * i);
      if (o.nid) x -= s.node->NodeId;
      uint32_t m = o.width == 4 ? 0xFFFFFFFFu : (1u << (8 * o.width)) - 1; x &= m;
      for (int i = 0; i < (o.direct ? 8 : o.width); i++) snap[off + i] = i < 4 ? (uint8_t)(x >> (8 * i)) : 0;
    } else for (uint32_t i = 0; i < n; i++) snap[off + i] = bytes[i];
  }
};

// ------------------------------------------------------------------ reference client
struct SdoRes {
  bool aborted = false; uint32_t code = 0; bool abort_mux_ok = true;
  std::vector<uint8_t> data; uint32_t announced = 0; bool expedited = false;
  int requests = 0, partial_acks = 0, blksize_changes = 0, losses = 0, segments = 0;
};

class SdoClient {
 public:
  Sim &s; Ctx &c; uint32_t req_id, rsp_id;
  std::function<void()> between;     // interleaving hook, called before every request of a transfer
  std::vector<Frame> foreign;        // frames seen on other identifiers while a transfer ran
  std::function<void()> before_ack;
  std::vector<Frame> *rsplog = nullptr;   // when set: every response frame, byte for byte, as it arrived
  SdoClient(Sim &sim, uint32_t rq, uint32_t rs) : s(sim), c(sim.c), req_id(rq), rsp_id(rs) {}

  std::vector<Frame> xfer(const Frame &f) {
    if (between) between();
    s.clear_tx();
    VLOG(c, "  -> %s", f.str().c_str());
    s.rx(f);
    std::vector<Frame> out;
    for (auto &t : s.tx) { if (t.id == rsp_id) { out.push_back(t); if (rsplog) rsplog->push_back(t); VLOG(c, "  <- %s", t.str().c_str()); } else foreign.push_back(t); }
    s.clear_tx();
    return out;
  }
  Frame one(const Frame &f, const char *what) {
    std::vector<Frame> r = xfer(f);
    CHECK(c, r.size() == 1, "one-response-per-request", "%s: request %s got %zu responses on %03X (exactly one expected)", what, f.str().c_str(), r.size(), rsp_id);
    CHECK(c, r[0].dlc == 8, "response-dlc", "%s: response %s does not have 8 data bytes", what, r[0].str().c_str());
    return r[0];
  }
  Frame mk(uint8_t cmd, uint16_t idx, uint8_t sub, uint32_t d) const {
    Frame f; f.id = req_id; f.dlc = 8; f.d[0] = cmd; f.d[1] = (uint8_t)idx; f.d[2] = (uint8_t)(idx >> 8); f.d[3] = sub;
    for (int i = 0; i < 4; i++) f.d[4 + i] = (uint8_t)(d >> (8 * i));
    return f;
  }
  bool is_abort(const Frame &r, uint16_t idx, uint8_t sub, SdoRes &res) const {
    if (r.d[0] != 0x80) return false;
    res.aborted = true; res.code = r.u32(4); res.abort_mux_ok = (r.u16(1) == idx && r.d[3] == sub);
    return true;
  }
  void mux_check(const Frame &r, uint16_t idx, uint8_t sub, const char *what) {
    CHECK(c, r.u16(1) == idx && r.d[3] == sub, "response-multiplexer", "%s for %04X:%02X answered with multiplexer %04X:%02X (%s)", what, idx, sub, r.u16(1), r.d[3], r.str().c_str());
  }
  void abort_transfer(uint16_t idx, uint8_t sub, uint32_t code = 0x08000000) { xfer(mk(0x80, idx, sub, code)); }

  // ---------------- uploads
  // expedited or segmented, whichever the server chooses
  SdoRes upload(uint16_t idx, uint8_t sub, uint32_t expect_max = 1u << 20) {
    SdoRes res; VLOG(c, " upload %04X:%02X (initiate 40h)", idx, sub);
    Frame r = one(mk(0x40, idx, sub, 0), "upload initiate"); res.requests++;
    if (is_abort(r, idx, sub, res)) return res;
    CHECK(c, (r.d[0] & 0xE0) == 0x40, "ul-init-response", "upload initiate answered with command %02X (scs 2 expected)", r.d[0]);
    mux_check(r, idx, sub, "upload initiate");
    bool e = r.d[0] & 2, sz = r.d[0] & 1;
    if (e) {
      CHECK(c, sz, "ul-size-announced", "expedited upload response %02X does not indicate the size", r.d[0]);
      uint32_t n = 4 - ((r.d[0] >> 2) & 3);
      res.expedited = true; res.announced = n; res.data.assign(r.d + 4, r.d + 4 + n);
      return res;
    }
    CHECK(c, sz, "ul-size-announced", "segmented upload response %02X does not indicate the size", r.d[0]);
    CHECK(c, (r.d[0] & 0x0C) == 0, "ul-init-response", "segmented upload response %02X has n bits set", r.d[0]);
    res.announced = r.u32(4);
    CHECK(c, res.announced <= expect_max, "ul-size-announced", "server announced %u bytes", res.announced);
    uint8_t t = 0;
    for (;;) {
      Frame q; q.id = req_id; q.dlc = 8; q.d[0] = (uint8_t)(0x60 | (t << 4));
      Frame g = one(q, "upload segment"); res.requests++; res.segments++;
      if (is_abort(g, idx, sub, res)) return res;
      CHECK(c, (g.d[0] & 0xE0) == 0x00, "ul-segment-response", "upload segment answered with command %02X (scs 0 expected)", g.d[0]);
      CHECK(c, ((g.d[0] >> 4) & 1) == t, "ul-toggle", "upload segment %d answered with toggle %d, expected %d", res.segments, (g.d[0] >> 4) & 1, t);
      uint32_t n = 7 - ((g.d[0] >> 1) & 7); bool last = g.d[0] & 1;
      res.data.insert(res.data.end(), g.d + 1, g.d + 1 + n);
      CHECK(c, res.data.size() <= res.announced, "ul-last-flag", "segments carry %zu bytes, more than the %u announced, without the last-segment flag", res.data.size(), res.announced);
      if (last) break;
      CHECK(c, n == 7, "ul-unused-count", "non-final upload segment %d carries %u bytes", res.segments, n);
      CHECK(c, res.data.size() < res.announced, "ul-last-flag", "all %u announced bytes were delivered but the last-segment flag is missing", res.announced);
      t ^= 1;
    }
    return res;
  }
  // block upload; the acknowledge pattern and block sizes come from the tape
  SdoRes upload_blk(uint16_t idx, uint8_t sub, uint8_t blksize, int max_partial, bool tape_acks, const std::vector<uint8_t> *expect = nullptr) {
    SdoRes res; VLOG(c, " block upload %04X:%02X blksize %u", idx, sub, blksize);
    // pst=0; the client announces CRC support (cc=1, command A4h) for a third of the (object, block size) combinations - derived, not drawn, so the
    // saved tapes keep their meaning; a server that does not support CRC simply answers sc=0 and none is used
    bool cc = (idx + sub + blksize) % 3 == 0; if (cc) c.cls("block-upload-client-announces-crc-support");
    Frame q = mk(cc ? 0xA4 : 0xA0, idx, sub, blksize);
    Frame r = one(q, "block upload initiate"); res.requests++;
    if (is_abort(r, idx, sub, res)) return res;
    CHECK(c, (r.d[0] & 0xF9) == 0xC0, "blk-ul-init-response", "block upload initiate answered with command %02X (C2h expected)", r.d[0]);
    CHECK(c, r.d[0] & 2, "ul-size-announced", "block upload response %02X does not indicate the size", r.d[0]);
    mux_check(r, idx, sub, "block upload initiate");
    res.announced = r.u32(4);
    CHECK(c, res.announced <= (1u << 20), "ul-size-announced", "server announced %u bytes", res.announced);
    uint32_t total_segs = (res.announced + 6) / 7; if (total_segs == 0) total_segs = 1;
    uint32_t acked = 0;   // segments acknowledged so far
    Frame st; st.id = req_id; st.dlc = 8; st.d[0] = 0xA3;
    std::vector<Frame> blk = xfer(st); res.requests++;
    for (int guard = 0;; guard++) {
      CHECK(c, guard < 4000, "blk-ul-progress", "block upload makes no progress");
      if (blk.size() == 1 && blk[0].d[0] == 0x80) { is_abort(blk[0], idx, sub, res); return res; }
      uint32_t remaining = total_segs - acked;
      uint32_t want = std::min<uint32_t>(blksize, remaining);
      CHECK(c, blk.size() == want, "blk-ul-segment-count", "sub-block after %u acknowledged segments: server sent %zu segments, expected min(blksize %u, remaining %u) = %u", acked, blk.size(), blksize, remaining, want);
      for (uint32_t i = 0; i < want; i++) {
        const Frame &g = blk[i];
        CHECK(c, g.dlc == 8, "response-dlc", "block segment with dlc %u", g.dlc);
        CHECK(c, (g.d[0] & 0x7F) == i + 1, "blk-ul-seqno", "segment %u of the sub-block carries sequence number %u", i + 1, g.d[0] & 0x7F);
        bool last = g.d[0] & 0x80, should = (acked + i + 1 == total_segs);
        CHECK(c, last == should, "ul-last-flag", "segment %u (overall %u of %u): last-segment flag is %d, expected %d", i + 1, acked + i + 1, total_segs, last, should);
        if (expect) {
          uint32_t off = (acked + i) * 7;
          for (uint32_t k = 0; k < 7 && off + k < res.announced && off + k < expect->size(); k++)
            CHECK(c, g.d[1 + k] == (*expect)[off + k], "ul-data", "block segment %u (object offset %u): byte %u is %02X, object holds %02X", acked + i + 1, off, k, g.d[1 + k], (*expect)[off + k]);
        }
      }
      res.segments += (int)want;
      // choose the acknowledged prefix and the next block size
      uint32_t k = want; uint8_t nbs = blksize;
      if (tape_acks) {
        if (res.partial_acks < max_partial && c.t.chance(80)) {
          static const uint16_t W[5] = {3, 3, 2, 2, 4};
          uint32_t how = c.t.weighted(W);
          k = how == 0 ? 0 : how == 1 ? 1 : how == 2 ? (want > 1 ? want - 1 : 0) : how == 3 ? want / 2 : c.t.below(want);
          if (k > want) k = want;
        }
        if (c.t.chance(96)) { static const uint8_t BS[6] = {1, 2, 3, 64, 126, 127}; nbs = c.t.coin() ? BS[c.t.below(6)] : (uint8_t)(1 + c.t.below(127)); }
      }
      if (k < want) res.partial_acks++;
      if (nbs != blksize) res.blksize_changes++;
      for (uint32_t i = 0; i < k; i++) res.data.insert(res.data.end(), blk[i].d + 1, blk[i].d + 8);
      acked += k;
      if (before_ack) before_ack();    // e.g. traffic on another server between a sub-block and its acknowledge
      Frame a; a.id = req_id; a.dlc = 8; a.d[0] = 0xA2; a.d[1] = (uint8_t)k; a.d[2] = nbs;
      VLOG(c, "  (ack %u of %u, next blksize %u)", k, want, nbs);
      blksize = nbs;
      blk = xfer(a); res.requests++;
      if (acked == total_segs) break;
    }
    CHECK(c, blk.size() == 1, "blk-ul-end", "after the final acknowledge the server sent %zu frames (one end frame expected)", blk.size());
    if (is_abort(blk[0], idx, sub, res)) return res;
    CHECK(c, (blk[0].d[0] & 0xE3) == 0xC1, "blk-ul-end", "end of block upload: command %02X (C1h|n<<2 expected)", blk[0].d[0]);
    uint32_t n = (blk[0].d[0] >> 2) & 7;
    CHECK(c, res.data.size() >= n, "ul-unused-count", "end frame reports %u unused bytes", n);
    res.data.resize(res.data.size() - n);
    CHECK(c, res.data.size() == res.announced, "ul-unused-count", "end frame reports %u unused bytes in the last segment: %zu bytes delivered, %u announced", n, res.data.size(), res.announced);
    Frame e; e.id = req_id; e.dlc = 8; e.d[0] = 0xA1;
    std::vector<Frame> z = xfer(e); res.requests++;
    CHECK(c, z.empty(), "blk-ul-end", "server answered the end-of-block-upload confirmation A1h with %zu frame(s)", z.size());
    return res;
  }

  // ---------------- downloads
  SdoRes download_exp(uint16_t idx, uint8_t sub, const std::vector<uint8_t> &b, bool size_ind, uint32_t fill) {
    SdoRes res; uint32_t n = (uint32_t)b.size();
    uint8_t cmd = (uint8_t)(0x22 | (size_ind ? 1 | ((4 - n) << 2) : 0));
    Frame q = mk(cmd, idx, sub, fill); for (uint32_t i = 0; i < n; i++) q.d[4 + i] = b[i];
    VLOG(c, " expedited download %04X:%02X, %u bytes, size %sindicated", idx, sub, n, size_ind ? "" : "not ");
    Frame r = one(q, "expedited download"); res.requests++;
    if (is_abort(r, idx, sub, res)) return res;
    CHECK(c, r.d[0] == 0x60, "dl-init-response", "expedited download answered with command %02X (60h expected)", r.d[0]);
    mux_check(r, idx, sub, "expedited download");
    return res;
  }
  SdoRes download_seg(uint16_t idx, uint8_t sub, const std::vector<uint8_t> &b, bool size_ind, uint32_t fill_seed) {
    SdoRes res; uint32_t plen = (uint32_t)b.size(); SplitMix fr(fill_seed);
    VLOG(c, " segmented download %04X:%02X, %u bytes, size %sindicated", idx, sub, plen, size_ind ? "" : "not ");
    Frame r = one(mk((uint8_t)(0x20 | (size_ind ? 1 : 0)), idx, sub, size_ind ? plen : 0), "segmented download initiate"); res.requests++;
    if (is_abort(r, idx, sub, res)) return res;
    CHECK(c, r.d[0] == 0x60, "dl-init-response", "download initiate answered with command %02X (60h expected)", r.d[0]);
    mux_check(r, idx, sub, "download initiate");
    uint32_t off = 0; uint8_t t = 0;
    // a client that streams data whose end it learns only afterwards closes a payload of k * 7 bytes with a last segment that carries no data (n = 7, c = 1)
    // (decided from the fill seed: no extra tape choice)
    bool empty_last = plen > 0 && plen % 7 == 0 && (fill_seed % 5) == 1; if (empty_last) c.cls("last-segment-without-data");
    do {
      uint32_t n = std::min<uint32_t>(7, plen - off); bool last = off + n == plen && !empty_last;
      if (empty_last && off == plen) { n = 0; last = true; }
      // CiA 301: "n = 0 if no segment size is indicated" - with the total size announced in the initiate a client may leave n = 0 in the last segment
      // and the server takes the remainder from the announced size (decided from the fill seed: no extra tape choice)
      bool no_n = last && size_ind && n < 7 && (fill_seed % 3) == 0; if (no_n) c.cls("last-segment-without-size-indication");
      Frame q; q.id = req_id; q.dlc = 8; q.d[0] = (uint8_t)((t << 4) | ((no_n ? 0 : 7 - n) << 1) | (last ? 1 : 0));
      uint64_t f = fr.next(); for (int i = 0; i < 7; i++) q.d[1 + i] = (uint32_t)i < n ? b[off + i] : (uint8_t)(f >> (8 * i));   // any fill of the last segment
      Frame g = one(q, "download segment"); res.requests++; res.segments++;
      if (is_abort(g, idx, sub, res)) return res;
      CHECK(c, (g.d[0] & 0xE0) == 0x20, "dl-segment-response", "download segment answered with command %02X (scs 1 expected)", g.d[0]);
      CHECK(c, ((g.d[0] >> 4) & 1) == t, "dl-toggle", "download segment %d acknowledged with toggle %d, expected %d", res.segments, (g.d[0] >> 4) & 1, t);
      off += n; t ^= 1;
      if (last) break;
    } while (off < plen || empty_last);
    return res;
  }
  // block download; max_losses segments (never the final one of a sub-block) are "lost in transit",
  // after which the client goes back to the first unacknowledged segment (go-back-N)
  SdoRes download_blk(uint16_t idx, uint8_t sub, const std::vector<uint8_t> &b, bool size_ind, int max_losses, uint32_t fill_seed) {
    SdoRes res; uint32_t plen = (uint32_t)b.size(); SplitMix fr(fill_seed);
    VLOG(c, " block download %04X:%02X, %u bytes, size %sindicated, up to %d lost segments", idx, sub, plen, size_ind ? "" : "not ", max_losses);
    Frame r = one(mk((uint8_t)(0xC0 | (size_ind ? 2 : 0)), idx, sub, size_ind ? plen : 0), "block download initiate"); res.requests++;
    if (is_abort(r, idx, sub, res)) return res;
    CHECK(c, (r.d[0] & 0xFB) == 0xA0, "blk-dl-init-response", "block download initiate answered with command %02X (A0h expected)", r.d[0]);
    mux_check(r, idx, sub, "block download initiate");
    uint32_t blksize = r.d[4];
    CHECK(c, blksize >= 1 && blksize <= 127, "blk-dl-blksize", "server announced block size %u", blksize);
    uint32_t total = (plen + 6) / 7, done = 0;   // segments
    for (int guard = 0; done < total; guard++) {
      CHECK(c, guard < 3000, "blk-dl-progress", "block download makes no progress");
      uint32_t nseg = std::min<uint32_t>(blksize, total - done);
      int lost = -1;
      if (res.losses < max_losses && nseg >= 2 && c.t.chance(150)) { lost = (int)c.t.below(nseg - 1); res.losses++; }   // index within the sub-block, never the last
      uint32_t good = nseg; if (lost >= 0) good = (uint32_t)lost;
      std::vector<Frame> ack;
      for (uint32_t i = 0; i < nseg; i++) {
        uint32_t off = (done + i) * 7, n = std::min<uint32_t>(7, plen - off); bool last = done + i + 1 == total;
        Frame q; q.id = req_id; q.dlc = 8; q.d[0] = (uint8_t)((i + 1) | (last ? 0x80 : 0));
        uint64_t f = fr.next(); for (int k = 0; k < 7; k++) q.d[1 + k] = (uint32_t)k < n ? b[off + k] : (uint8_t)(f >> (8 * k));
        if ((int)i == lost) { VLOG(c, "  (segment %u lost in transit)", i + 1); continue; }
        std::vector<Frame> g = xfer(q); res.requests++; res.segments++;
        if (i + 1 < nseg) {
          if (g.size() == 1 && g[0].d[0] == 0x80) { is_abort(g[0], idx, sub, res); return res; }
          CHECK(c, g.empty(), "no-response-inside-block", "server sent %zu frame(s) after segment %u of a sub-block of %u", g.size(), i + 1, nseg);
        } else ack = g;
      }
      CHECK(c, ack.size() == 1, "one-response-per-request", "end of sub-block (%u segments): %zu responses, one acknowledge expected", nseg, ack.size());
      if (is_abort(ack[0], idx, sub, res)) return res;
      CHECK(c, ack[0].d[0] == 0xA2, "blk-dl-ack", "sub-block acknowledged with command %02X (A2h expected)", ack[0].d[0]);
      CHECK(c, ack[0].d[1] == good, "blk-dl-ackseq", "sub-block of %u segments%s acknowledged with ackseq %u, expected %u", nseg, lost >= 0 ? " (one lost)" : "", ack[0].d[1], good);
      CHECK(c, ack[0].d[2] >= 1 && ack[0].d[2] <= 127, "blk-dl-blksize", "acknowledge announces block size %u", ack[0].d[2]);
      blksize = ack[0].d[2];
      done += good;
    }
    uint32_t nlast = plen % 7 ? plen % 7 : 7;
    Frame e; e.id = req_id; e.dlc = 8; e.d[0] = (uint8_t)(0xC1 | ((7 - nlast) << 2));
    Frame g = one(e, "block download end"); res.requests++;
    if (is_abort(g, idx, sub, res)) return res;
    CHECK(c, g.d[0] == 0xA1, "blk-dl-end-response", "end of block download answered with command %02X (A1h expected)", g.d[0]);
    return res;
  }

  // ---------------- small helpers for properties that configure the node through SDO
  // expedited write of a 1/2/4-byte value; returns 0 or the abort code
  uint32_t write(uint16_t idx, uint8_t sub, uint32_t v, int width) {
    std::vector<uint8_t> b; for (int i = 0; i < width; i++) b.push_back((uint8_t)(v >> (8 * i)));
    SdoRes r = download_exp(idx, sub, b, true, 0);
    return r.aborted ? (r.code ? r.code : 0xFFFFFFFF) : 0;
  }
  // expedited read; returns abort code or 0, value in *v
  uint32_t read(uint16_t idx, uint8_t sub, uint32_t *v) {
    SdoRes r = upload(idx, sub);
    if (r.aborted) return r.code ? r.code : 0xFFFFFFFF;
    uint32_t x = 0; for (size_t i = 0; i < r.data.size() && i < 4; i++) x |= (uint32_t)r.data[i] << (8 * i);
    *v = x; return 0;
  }
};

// one junk SDO frame: a command byte from the whole alphabet (weighted to the meaningful patterns and their reserved-bit
// variants), a multiplexer from the given list (or garbage), plausible or random data
inline Frame sdo_junk(Ctx &c, uint32_t req_id, const std::vector<std::pair<uint16_t, uint8_t>> &mux) {
  static const uint8_t ALPHA[] = {0x20, 0x21, 0x22, 0x23, 0x2F, 0x2B, 0x27, 0x40, 0x00, 0x10, 0x01, 0x11, 0x03, 0x13, 0x0D, 0x1D, 0x60, 0x70, 0xC0, 0xC2, 0xC4, 0xC6, 0xC1, 0xC5, 0xDD,
                                  0xA0, 0xA4, 0xA3, 0xA2, 0xA1, 0x81, 0x01, 0x02, 0x7F, 0xFF, 0x05, 0x85, 0xE0, 0x41, 0x61, 0x82, 0x83, 0xFE, 0x7E};
  Frame f; f.id = req_id; f.dlc = 8;
  f.d[0] = c.t.chance(32) ? c.t.byte() : ALPHA[c.t.below(sizeof ALPHA)];
  if (c.t.chance(200) && !mux.empty()) { auto m = mux[c.t.below((uint32_t)mux.size())]; f.d[1] = (uint8_t)m.first; f.d[2] = (uint8_t)(m.first >> 8); f.d[3] = m.second; }
  else { f.d[1] = c.t.byte(); f.d[2] = c.t.byte(); f.d[3] = c.t.byte(); }
  uint32_t how = c.t.below(4);
  if (how == 0) { f.d[4] = f.d[5] = f.d[6] = f.d[7] = 0; }
  else if (how == 1) { static const uint16_t SZ[10] = {0, 1, 2, 4, 5, 7, 8, 127, 128, 889}; uint16_t z = SZ[c.t.below(10)]; f.d[4] = (uint8_t)z; f.d[5] = (uint8_t)(z >> 8); }
  else if (how == 2) { f.d[4] = c.t.byte(); }
  else for (int i = 4; i < 8; i++) f.d[i] = c.t.byte();
  if (c.t.chance(10)) f.dlc = (uint8_t)c.t.below(9);
  return f;
}

}  // namespace vf
