// Builders for the communication objects beyond the mandatory ones (PDO, SYNC, heartbeat consumer, EMCY history),
// using the same object types and flags as the repository's own examples.
#pragma once
#include "model/sdo.h"

namespace vf {

struct TpdoCfg { uint32_t *id; uint8_t *type; uint16_t *inhibit; uint16_t *event; uint8_t *num; uint32_t *map[8]; int slots; };
struct RpdoCfg { uint32_t *id; uint8_t *type; uint8_t *num; uint32_t *map[8]; int slots; };

inline uint32_t MAPENT(uint16_t idx, uint8_t sub, uint8_t bits) { return (uint32_t)idx << 16 | (uint32_t)sub << 8 | bits; }

inline TpdoCfg add_tpdo(World &w, int n, uint32_t cobid, uint8_t type, uint16_t inhibit, uint16_t event, const std::vector<uint32_t> &maps, int slots = 8, bool with_inhibit = true, bool with_event = true) {
  Sim &s = w.s; TpdoCfg t; memset(&t, 0, sizeof t); t.slots = slots;
  s.add(CO_KEY(0x1800 + n, 0, CO_OBJ_D___R_), CO_TUNSIGNED8, 5);
  t.id = s.var<uint32_t>("18xx:1", cobid); s.add(CO_KEY(0x1800 + n, 1, CO_OBJ_____RW), CO_TPDO_ID, (CO_DATA)t.id);
  t.type = s.var<uint8_t>("18xx:2", type); s.add(CO_KEY(0x1800 + n, 2, CO_OBJ_____RW), CO_TPDO_TYPE, (CO_DATA)t.type);
  if (with_inhibit) { t.inhibit = s.var<uint16_t>("18xx:3", inhibit); s.add(CO_KEY(0x1800 + n, 3, CO_OBJ_____RW), CO_TUNSIGNED16, (CO_DATA)t.inhibit); }
  if (with_event) { t.event = s.var<uint16_t>("18xx:5", event); s.add(CO_KEY(0x1800 + n, 5, CO_OBJ_____RW), CO_TPDO_EVENT, (CO_DATA)t.event); }
  t.num = s.var<uint8_t>("1Axx:0", (uint8_t)maps.size()); s.add(CO_KEY(0x1A00 + n, 0, CO_OBJ_____RW), CO_TPDO_NUM, (CO_DATA)t.num);
  for (int i = 0; i < slots; i++) { t.map[i] = s.var<uint32_t>("1Axx:n", i < (int)maps.size() ? maps[i] : 0); s.add(CO_KEY(0x1A00 + n, i + 1, CO_OBJ_____RW), CO_TPDO_MAP, (CO_DATA)t.map[i]); }
  return t;
}
inline RpdoCfg add_rpdo(World &w, int n, uint32_t cobid, uint8_t type, const std::vector<uint32_t> &maps, int slots = 8) {
  Sim &s = w.s; RpdoCfg t; memset(&t, 0, sizeof t); t.slots = slots;
  s.add(CO_KEY(0x1400 + n, 0, CO_OBJ_D___R_), CO_TUNSIGNED8, 2);
  t.id = s.var<uint32_t>("14xx:1", cobid); s.add(CO_KEY(0x1400 + n, 1, CO_OBJ_____RW), CO_TPDO_ID, (CO_DATA)t.id);
  t.type = s.var<uint8_t>("14xx:2", type); s.add(CO_KEY(0x1400 + n, 2, CO_OBJ_____RW), CO_TPDO_TYPE, (CO_DATA)t.type);
  t.num = s.var<uint8_t>("16xx:0", (uint8_t)maps.size()); s.add(CO_KEY(0x1600 + n, 0, CO_OBJ_____RW), CO_TPDO_NUM, (CO_DATA)t.num);
  for (int i = 0; i < slots; i++) { t.map[i] = s.var<uint32_t>("16xx:n", i < (int)maps.size() ? maps[i] : 0); s.add(CO_KEY(0x1600 + n, i + 1, CO_OBJ_____RW), CO_TPDO_MAP, (CO_DATA)t.map[i]); }
  return t;
}
struct SyncCfg { uint32_t *id; uint32_t *cycle; };
inline SyncCfg add_sync(World &w, uint32_t cobid, uint32_t cycle_us, bool with_cycle = true) {
  Sim &s = w.s; SyncCfg c; c.cycle = nullptr;
  c.id = s.var<uint32_t>("1005", cobid); s.add(CO_KEY(0x1005, 0, CO_OBJ_____RW), CO_TSYNC_ID, (CO_DATA)c.id);
  if (with_cycle) { c.cycle = s.var<uint32_t>("1006", cycle_us); s.add(CO_KEY(0x1006, 0, CO_OBJ_____RW), CO_TSYNC_CYCLE, (CO_DATA)c.cycle); }
  return c;
}
inline std::vector<CO_HBCONS *> add_hbcons(World &w, const std::vector<std::pair<uint8_t, uint16_t>> &ent) {
  Sim &s = w.s; std::vector<CO_HBCONS *> v;
  s.add(CO_KEY(0x1016, 0, CO_OBJ_D___R_), CO_THB_CONS, (CO_DATA)ent.size());
  for (size_t i = 0; i < ent.size(); i++) {
    CO_HBCONS *h = (CO_HBCONS *)s.alloc(sizeof(CO_HBCONS), "hbcons", false); memset(h, 0, sizeof *h);
    h->NodeId = ent[i].first; h->Time = ent[i].second; h->Tmr = -1;
    s.add(CO_KEY(0x1016, i + 1, CO_OBJ_____RW), CO_THB_CONS, (CO_DATA)h);
    v.push_back(h);
  }
  return v;
}
struct HistCfg { uint8_t *num; std::vector<uint32_t *> ent; };
inline HistCfg add_emcy_hist(World &w, int depth) {
  Sim &s = w.s; HistCfg h;
  h.num = s.var<uint8_t>("1003:0", 0); s.add(CO_KEY(0x1003, 0, CO_OBJ_____RW), CO_TEMCY_HIST, (CO_DATA)h.num);
  for (int i = 1; i <= depth; i++) { uint32_t *e = s.var<uint32_t>("1003:n", 0); h.ent.push_back(e); s.add(CO_KEY(0x1003, i, CO_OBJ_____R_), CO_TEMCY_HIST, (CO_DATA)e); }
  return h;
}

// case functions shared between properties
void c14_case(Ctx &c);

}  // namespace vf
